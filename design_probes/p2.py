import numpy as np, itertools, random
from geometer import *
from geometer.exceptions import *
from exact import *
random.seed(1)
# 2D: join of two points on lattice [-2,2]^3 \ 0
vecs=[v for v in itertools.product(range(-2,3),repeat=3) if any(v)]
bad=0;n=0
for p in vecs:
    for q in vecs:
        n+=1
        dep = rank([p,q])<2
        try:
            l=join(Point(list(p)),Point(list(q)))
            raised=False
        except LinearDependenceError:
            raised=True
        if dep!=raised:
            bad+=1; print('mismatch',p,q,dep,raised)
        if not raised:
            a=l.array
            # exact incidence
            if int(np.dot(a,p))!=0 or int(np.dot(a,q))!=0 or not np.any(a):
                bad+=1; print('incid',p,q,a)
print(n,bad)
