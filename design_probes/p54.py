import numpy as np, collections, traceback, warnings, itertools
warnings.simplefilter('ignore')
from geometer import *
from geometer.shapes import *
rng=np.random.default_rng(100)
bad=collections.Counter(); ex={}; cnt=collections.Counter()
def rec(name,detail):
    bad[name]+=1; ex.setdefault(name,[]); 
    if len(ex[name])<2: ex[name].append(detail)
def S(o,s):
    r=o.copy(); r.array=np.array(o.array)*s; return r
def SP(cls,o,svec):
    # per-vertex scaling, rebuild polytope through constructor from array
    arr=np.array(o.array,dtype=float)*np.asarray(svec)[:,None]
    return cls(arr)
def pcl(a,b,tol=1e-6):
    a=np.array(a,complex).ravel(); b=np.array(b,complex).ravel()
    if a.shape!=b.shape: return False
    na,nb=np.linalg.norm(a),np.linalg.norm(b)
    if na<1e-12 or nb<1e-12: return na<1e-12 and nb<1e-12
    return abs(abs(np.vdot(a/na,b/nb))-1)<tol
def same(x,y):
    if hasattr(x,'array') and hasattr(y,'array'):
        if x.free_indices>0 and not isinstance(x,PolytopeTensor):
            k=x.free_indices; A=np.array(x.array).reshape((-1,)+x.shape[k:]); B=np.array(y.array).reshape((-1,)+y.shape[k:])
            return A.shape==B.shape and all(pcl(u,v) for u,v in zip(A,B))
        if isinstance(x,PolytopeTensor): return bool(x==y)
        return pcl(x.array,y.array)
    if isinstance(x,(tuple,list)):
        if len(x)!=len(y): return False
        # as multiset
        ys=list(y)
        for u in x:
            for i,v in enumerate(ys):
                if same(u,v): ys.pop(i); break
            else: return False
        return True
    return bool(np.allclose(np.asarray(x,complex),np.asarray(y,complex),rtol=1e-6,atol=1e-7,equal_nan=True))
def angsame(x,y):
    d=np.abs((np.asarray(x)-np.asarray(y)+np.pi/2)%np.pi-np.pi/2); return bool(np.all(d<1e-6))
def rp(d,k=4): return Point(*rng.integers(-k,k+1,size=d))
scales=[-1,-3,0.5,2,7,-0.25]
def run(name,f,args,cmp=same):
    try: base=f(*args)
    except Exception as e: cnt['base raises '+name]+=1; return
    for k in range(len(args)):
        a=args[k]
        if not hasattr(a,'array'): continue
        s=float(rng.choice(scales))
        try:
            if isinstance(a,PolytopeTensor) and a.pdim<=2:
                n=a.shape[-2]; sv=rng.choice(scales,size=n)
                a2=SP(type(a),a,sv)
            elif isinstance(a,PolytopeTensor): continue
            elif a.free_indices>0:
                sv=rng.choice(scales,size=a.shape[:a.free_indices]); a2=a.copy(); a2.array=np.array(a.array)*sv.reshape(sv.shape+(1,)*(a.rank-a.free_indices))
            else: a2=S(a,s)
        except Exception as e: rec('SCALE-EXC '+name,(repr(e),)); continue
        args2=list(args); args2[k]=a2
        try: r=f(*args2)
        except Exception as e: rec('EXC '+name+' arg%d'%k,(repr(e)[:100],args,s)); continue
        cnt[name]+=1
        try: ok=cmp(base,r)
        except Exception as e: ok=False
        if not ok: rec(name+' arg%d'%k,(args,s,str(base)[:100],str(r)[:100]))
for it in range(150):
  for d in (2,3):
    p,q,r,s,o=[rp(d) for _ in range(5)]
    pc=PointCollection([p,q,r]); 
    try:
        l=Line(p,q); m=Line(p,r); seg=Segment(p,q); lc=LineCollection(PointCollection([p,q]),PointCollection([r,s]))
    except Exception: continue
    run('join pp',join,[p,q]); run('meet ll' if d==2 else 'join ll',(meet if d==2 else join),[l,m])
    run('contains',lambda a,b:a.contains(b),[l,p]); run('contains off',lambda a,b:a.contains(b),[l,s])
    run('dist pp',dist,[p,q]); run('dist lp',dist,[l,s]); run('dist segp',dist,[seg,s])
    run('angle ppp',angle,[p,q,r],angsame if d==2 else (lambda x,y: angsame(abs(x),abs(y))))
    run('angle ll',angle,[l,m],angsame if d==2 else (lambda x,y: angsame(abs(x),abs(y))))
    run('is_perp',is_perpendicular,[l,m])
    run('perp',lambda a,b:a.perpendicular(b),[l,s]); run('parallel',lambda a,b:a.parallel(b),[l,s]); run('project',lambda a,b:a.project(b),[l,s]); run('mirror',lambda a,b:a.mirror(b),[l,s])
    run('is_parallel',lambda a,b:a.is_parallel(b),[l,m])
    run('seg.contains',lambda a,b:a.contains(b),[seg,p+(q-p)*0.5]); run('seg.contains off',lambda a,b:a.contains(b),[seg,p+(q-p)*1.5])
    run('seg.midpoint',lambda a:a.midpoint,[seg]); run('seg.length',lambda a:a.length,[seg])
    run('harmonic',harmonic_set,[p,q,p+(q-p)*3]); run('crossratio',crossratio,[p,q,p+(q-p)*3,p+(q-p)*(-2)])
    run('translation',lambda a,b:translation(a)*b,[p,q]); 
    run('pc ops join',join,[pc,PointCollection([s,o,p])])
    run('lc.contains',lambda a,b:a.contains(b),[lc,PointCollection([p,o])])
    T=Transformation(np.eye(d+1)+np.triu(rng.integers(-2,3,size=(d+1,d+1)),1))
    run('T*p',lambda t,x:t*x,[T,p]); run('T*l',lambda t,x:t*x,[T,l]); run('T*seg',lambda t,x:t*x,[T,seg]); run('T.inverse',lambda t:t.inverse(),[T]); run('T**2',lambda t:t**2,[T]); run('T*T',lambda t,u:t*u,[T,T])
    if d==2:
        run('is_cocircular',is_cocircular,[p,q,r,s]); run('is_collinear',is_collinear,[p,q,r])
        run('bisectors',angle_bisectors,[l,m])
        run('reflection',lambda a,b:reflection(a)*b,[l,s])
        run('from_points',lambda a,b,c,d_,e:Conic.from_points(a,b,c,d_,e),[p,q,r,s,o])
        run('circle',lambda c,x:Circle(c,2).contains(x),[p,p+Point(2,0)])
        run('rotation*',lambda x:rotation(0.7)*x,[p])
        C=Conic(np.array([[2.,1,0],[1,3,1],[0,1,-4]]))
        run('conic.contains',lambda c,x:c.contains(x),[C,p]); run('conic.intersect',lambda c,x:c.intersect(x),[C,l]); run('conic.tangent',lambda c,x:c.tangent(x),[C,s]); run('conic.polar',lambda c,x:c.polar(x),[C,s]); run('conic.dual',lambda c:c.dual,[C]); run('conic.is_tangent',lambda c,x:c.is_tangent(x),[C,l]); run('conic.foci',lambda c:c.foci,[C])
        run('conic.intersect conic',lambda c,e:c.intersect(e),[C,Conic(np.array([[1.,0,1],[0,-2,0],[1,0,3]]))])
        poly=Polygon(Point(0,0),Point(4,0),Point(4,4),Point(2,1),Point(0,4))
        run('poly.contains',lambda a,b:a.contains(b),[poly,s]); run('poly.area',lambda a:a.area,[poly]); run('poly.centroid',lambda a:a.centroid,[poly]); run('poly.intersect',lambda a,b:a.intersect(b),[poly,l]); run('dist poly',dist,[poly,s]); run('poly.angles',lambda a:np.array(a.angles),[poly],angsame)
        tri=Triangle(p,q,r); run('tri.circumcenter',lambda a:a.circumcenter,[tri]); run('tri.area',lambda a:a.area,[tri])
        run('T*poly',lambda t,x:t*x,[T,poly])
    else:
        try: e=Plane(p,q,r); f=Plane(q,r,s)
        except Exception: continue
        run('join ppp',join,[p,q,r]); run('meet ee',meet,[e,f]); run('meet el',meet,[e,Line(s,o)]); run('e.contains',lambda a,b:a.contains(b),[e,p]); run('e.contains l',lambda a,b:a.contains(b),[e,l])
        run('dist ep',dist,[e,s]); run('angle ee',angle,[e,f],lambda x,y: angsame(abs(np.real(x)),abs(np.real(y)))); run('is_perp ee',is_perpendicular,[e,f])
        run('e.perp',lambda a,b:a.perpendicular(b),[e,s]); run('e.project',lambda a,b:a.project(b),[e,s]); run('e.mirror',lambda a,b:a.mirror(b),[e,s]); run('e.parallel',lambda a,b:a.parallel(b),[e,s])
        run('reflection3',lambda a,b:reflection(a)*b,[e,s]); run('is_coplanar',is_coplanar,[p,q,r,s]); run('l.is_coplanar',lambda a,b:a.is_coplanar(b),[l,m])
        run('rotation3',lambda a,x:rotation(0.7,axis=a)*x,[p,q])
        Q=Quadric(np.diag([1.,2,3,-4])+np.ones((4,4)))
        run('Q.contains',lambda c,x:c.contains(x),[Q,p]); run('Q.intersect',lambda c,x:c.intersect(x),[Q,l]); run('Q.tangent',lambda c,x:c.tangent(x),[Q,s]); run('Q.dual',lambda c:c.dual,[Q]); run('Q.is_tangent',lambda c,x:c.is_tangent(x),[Q,e])
        run('sphere',lambda c,x:Sphere(c,2).contains(x),[p,p+Point(0,2,0)]); run('cone',lambda v,b,x:Cone(v,b,2).contains(x),[p,p+Point(0,0,2),p+Point(2,0,2)])
        poly=Polygon(Point(0,0,1),Point(4,0,1),Point(4,4,1),Point(2,1,1),Point(0,4,1))
        run('poly3.contains',lambda a,b:a.contains(b),[poly,Point(1,1,1)]); run('poly3.area',lambda a:a.area,[poly]); run('poly3.centroid',lambda a:a.centroid,[poly]); run('poly3.intersect',lambda a,b:[Point(x.array.ravel()) for x in a.intersect(b)],[poly,Line(Point(1,1,0),Point(1,1,5))]); run('dist poly3',dist,[poly,s])
        tri=Triangle(p,q,r); run('tri3.circumcenter',lambda a:a.circumcenter,[tri]); run('tri3.area',lambda a:a.area,[tri])
        run('T*poly3',lambda t,x:t*x,[T,poly]); run('T*e',lambda t,x:t*x,[T,e]); run('T*Q',lambda t,x:t*x,[T,Q])
print(sum(cnt.values()),sum(bad.values()))
for k,v in sorted(bad.items()): print(k,v,'/',cnt.get(k.rsplit(' arg',1)[0],0),ex[k][:1])
