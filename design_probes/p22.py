import numpy as np, collections, traceback, warnings, sys
warnings.simplefilter('ignore')
from geometer import *
from geometer.exceptions import *
rng=np.random.default_rng(19)
bad=collections.Counter(); ex={}; cnt=collections.Counter()
def rec(name,detail): bad[name]+=1; ex.setdefault(name,detail)
def step(name,f):
    try: f(); cnt[name]+=1
    except AssertionError as e: rec(name,e.args)
    except Exception as e: rec('EXC '+name+' '+type(e).__name__,traceback.format_exc().splitlines()[-3:])
def rp(d,k=4): return Point(*rng.integers(-k,k+1,size=d))
def pc(a,b,tol=1e-6):
    a=np.asarray(a.array,complex); b=np.asarray(b.array,complex)
    a=a/np.linalg.norm(a); b=b/np.linalg.norm(b)
    return abs(abs(np.vdot(a,b))-1)<tol
# quadrics with many real points: sphere, cone, cylinder, hyperboloid; lines through two real points on it
for it in range(300):
    c=rp(3); r=float(rng.integers(1,5))
    which=rng.choice(['sphere','hyp','cyl','cone'])
    if which=='sphere': Q=Sphere(c,r); 
    elif which=='hyp': Q=Quadric(np.diag([1.,1.,-1.,-1.]))
    elif which=='cyl': Q=Cylinder(c,Point(0,0,1),r)
    else: Q=Cone(c,c+Point(0,0,2),r)
    def onpt():
        th,s=rng.uniform(0,2*np.pi),rng.uniform(-2,2)
        if which=='sphere':
            v=rng.normal(size=3); v/=np.linalg.norm(v); return Point(*(c.array[:3]+r*v))
        if which=='hyp':
            # x^2+y^2 = z^2+1
            z=s; rr=np.sqrt(z*z+1); return Point(rr*np.cos(th),rr*np.sin(th),z)
        if which=='cyl': return Point(c.array[0]+r*np.cos(th),c.array[1]+r*np.sin(th),c.array[2]+s)
        return Point(c.array[0]+s*r/2*np.cos(th),c.array[1]+s*r/2*np.sin(th),c.array[2]+s)
    x,y=onpt(),onpt()
    def f():
        assert Q.contains(x) and Q.contains(y),('gen',which)
        l=Line(x,y)
        res=Q.intersect(l)
        assert len(res)==2 and all(any(pc(u,v) for v in res) for u in (x,y)),('secant',which,c,r,x,y,res)
    step('secant3 '+which,f)
    def f():
        h=Q.tangent(x)
        assert h.contains(x)
        assert Q.is_tangent(h) if which in('sphere','hyp') else True
        # a tangent line in h through x
        o=rp(3)
        l=h.meet(Plane(x,o,rp(3)))
        res=Q.intersect(l)
        assert all(pc(u,x,1e-5) for u in res),('tangentline',which,c,r,x,l,res)
    step('tangent3 '+which,f)
    def f():
        # missing line: far away
        if which!='sphere': return
        l=Line(c+Point(2*r,0,0),c+Point(2*r,1,1))
        res=Q.intersect(l)
        for u in res:
            assert Q.contains(u) and l.contains(u) and not u.isreal
        assert len(res)==2
    step('miss3',f)
print(sum(cnt.values()),sum(bad.values()))
for k,v in sorted(bad.items()): print(k,v,'/',cnt[k], ex[k])
