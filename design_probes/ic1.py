import sys; sys.path.insert(0,'/tmp/scratch/deps')
import icontract, numpy as np, time
import geometer
from geometer.base import Tensor
from geometer import *
from geometer.shapes import *
class InvariantBroken(Exception): pass
cnt={'n':0}
def index_sets_ok(self):
    cnt['n']+=1
    d=self.__dict__
    if 'array' not in d or '_covariant_indices' not in d: return True
    cov,con=self._covariant_indices,self._contravariant_indices
    r=self.array.ndim
    if cov & con: return False
    if not all(0<=i<r for i in cov|con): return False
    nfree=r-len(cov)-len(con)
    return all(i>=nfree for i in cov|con)
try:
    icontract.invariant(index_sets_ok, error=InvariantBroken)(Tensor)
    print('decorated Tensor')
except Exception as e:
    print('ERR',type(e),e)
t0=time.time()
p=Point(1,2); q=Point(3,4)
l=join(p,q)
print(l, cnt)
print(type(p).__mro__[:3])
# does invariant apply to subclass methods? e.g. Point.join
cnt['n']=0
for i in range(1000): l.contains(p)
print('1000 contains',time.time()-t0,cnt)
# break it
t=Tensor(np.zeros((2,3,3)),tensor_rank=2)
t._covariant_indices={0}
try:
    t.transpose(); print('no fire')
except InvariantBroken as e: print('fired',str(e)[:100])
