import numpy as np, itertools
from geometer.base import *
def perm_sign(p):
    p=list(p); s=1
    for i in range(len(p)):
        for j in range(i+1,len(p)):
            if p[i]>p[j]: s=-s
    return s
for n in range(1,7):
    try:
        e=LeviCivitaTensor(n).array
    except Exception as ex: print(n,'EXC',ex); continue
    ok=True
    for idx in itertools.product(range(n),repeat=n):
        exp=perm_sign(idx) if len(set(idx))==n else 0
        if e[idx]!=exp: ok=False;break
    print('eps',n,ok,e.dtype, LeviCivitaTensor(n,False).tensor_shape)
def delta_ref(n,p,idx):
    lo=idx[:p]; up=idx[p:]
    # generalized delta: det of matrix delta(up_i, lo_j)
    m=np.array([[1 if up[i]==lo[j] else 0 for j in range(p)] for i in range(p)])
    return round(np.linalg.det(m))
for n in range(1,5):
    for p in range(1,n+1):
        try:
            d=KroneckerDelta(n,p)
        except Exception as ex: print('delta',n,p,'EXC',type(ex).__name__,ex); continue
        ok=True
        for idx in itertools.product(range(n),repeat=2*p):
            if d.array[idx]!=delta_ref(n,p,idx): ok=False; print('  first bad',idx,d.array[idx],delta_ref(n,p,idx)); break
        print('delta',n,p,ok,d.tensor_shape,d.array.shape)
