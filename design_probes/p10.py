import numpy as np, collections, traceback
from geometer import *
from geometer.shapes import *
rng=np.random.default_rng(11)
def rmat(n):
    while True:
        m=rng.integers(-3,4,size=(n,n))
        if abs(round(np.linalg.det(m)))>=1: return m
def rp(d,k=4): return Point(*rng.integers(-k,k+1,size=d))
bad=collections.Counter(); ex={}; fails=[]; cnt=collections.Counter()
def rec(name,detail): bad[name]+=1; ex.setdefault(name,detail)
def objs(d):
    o={}
    p,q,r,s=[rp(d) for _ in range(4)]
    o['point']=p
    o['pointcoll']=PointCollection([p,q,r])
    try:
        o['line']=Line(p,q); o['linecoll']=LineCollection(PointCollection([p,q]),PointCollection([r,s]))
        if d==3:
            o['plane']=Plane(p,q,r)
            o['planecoll']=PlaneCollection([Plane(p,q,r).array,Plane(q,r,s).array])
        o['segment']=Segment(p,q)
        o['segcoll']=SegmentCollection(PointCollection([p,q]),PointCollection([r,s]))
        if d==2:
            o['polygon']=Polygon(Point(0,0),Point(3,0),Point(4,2),Point(1,3),Point(-1,1))
            o['triangle']=Triangle(p,q,r)
            o['rect']=Rectangle(Point(0,0),Point(2,0),Point(2,1),Point(0,1))
            o['conic']=Conic(np.array([[2,1,0],[1,3,1],[0,1,-4]]))
            o['circle']=Circle(p,2)
            o['ellipse']=Ellipse(p,2,3)
            o['dualconic']=Conic(np.array([[2,1,0],[1,3,1],[0,1,-4]]),is_dual=True)
            o['quadcoll']=QuadricCollection([Circle(p,2),Circle(q,3)])
            o['polycoll']=PolygonCollection([Polygon(Point(0,0),Point(3,0),Point(4,2),Point(1,3),Point(-1,1)),Polygon(Point(1,0),Point(3,0),Point(4,2),Point(1,3),Point(-1,1))])
        else:
            o['polygon3']=Polygon(Point(0,0,1),Point(3,0,1),Point(4,2,1),Point(1,3,1),Point(-1,1,1))
            o['triangle3']=Triangle(p,q,r)
            o['quadric']=Quadric(np.diag([1,2,3,-4])+np.ones((4,4)))
            o['sphere']=Sphere(p,2)
            o['cone']=Cone(p,q,2)
            o['cyl']=Cylinder(p,q,2)
            o['cuboid']=Cuboid(Point(0,0,0),Point(1,0,0),Point(0,2,0),Point(0,0,3))
            o['simplex']=Simplex(Point(0,0,0),Point(1,0,0),Point(0,2,0),Point(0,0,3))
            o['polycoll3']=PolygonCollection([Polygon(Point(0,0,1),Point(3,0,1),Point(4,2,1),Point(1,3,1),Point(-1,1,1)),Polygon(Point(0,0,2),Point(3,0,2),Point(4,2,2),Point(1,3,2),Point(-1,1,2))])
    except Exception as e:
        import traceback; fails.append(traceback.format_exc().splitlines()[-1]); return None
    return o
for it in range(150):
    d=int(rng.choice([2,3]))
    o=objs(d)
    if o is None: continue
    s=Transformation(rmat(d+1)); t=Transformation(rmat(d+1))
    for name,x in o.items():
        try:
            cnt[name]+=1
            a=(s*t)*x; b=s*(t*x)
            if not (a==b): rec('assoc '+name,(s,t,x))
            if type(a)!=type(x): rec('type '+name,(type(a),type(x)))
            i=identity(d)*x
            if not (i==x): rec('ident '+name,(x,))
            c=t.inverse()*(t*x)
            if not (c==x): rec('inv '+name,(t,x,c))
        except Exception as e:
            rec('EXC '+name,(repr(e),traceback.format_exc().splitlines()[-3]))
print(sum(bad.values()))
for k,v in sorted(bad.items()): print(k,v, ex[k] if 'EXC' in k or 'type' in k else '')

print(cnt)
print(collections.Counter(fails))
