import numpy as np, traceback
from geometer import *
from geometer.shapes import *
def t(f):
    try: print(f())
    except Exception as e: print('EXC', type(e).__name__, e)
sc=SegmentCollection(PointCollection([[0,0,1],[1,1,1]]),PointCollection([[0,1,1],[2,1,1]]))
t(lambda:(type(sc[0]), sc[0]._line, sc._line))
t(lambda:[type(x) for x in sc])
t(lambda:type(sc[:,0]))
pg=PolygonCollection([Polygon(Point(0,0),Point(1,0),Point(1,1),Point(0,2),Point(-1,1)),Polygon(Point(0,0),Point(1,0),Point(1,1),Point(0,2),Point(-1,1))]); 
t(lambda:(type(pg[0]), type(pg[0,0])))
t(lambda:[type(x) for x in pg])
pg3=PolygonCollection([Polygon(Point(0,0,1),Point(1,0,1),Point(1,1,1),Point(0,2,1),Point(-1,1,1)),Polygon(Point(0,0,0),Point(1,0,0),Point(1,1,0),Point(0,2,0),Point(-1,1,0))]); 
t(lambda:(type(pg3[0]), pg3[0]._plane, pg3._plane))
c=Cuboid(Point(0,0,0),Point(1,0,0),Point(0,1,0),Point(0,0,1))
t(lambda:(type(c[0]), type(c.faces[0]), type(c[0,0]), type(c[0,0,0])))
tri=PolygonCollection([Triangle(Point(0,0),Point(1,0),Point(1,1)),Triangle(Point(0,0),Point(2,0),Point(1,1))])
t(lambda:(type(tri[0]), type(tri[1])))
t(lambda: tri.contains(Point(0.5,0.2)))
t(lambda: tri.area)
