import numpy as np, collections, traceback, warnings, sys, itertools
from fractions import Fraction as F
warnings.simplefilter('ignore')
from geometer import *
from geometer.shapes import *
rng=np.random.default_rng(23)
def orient(a,b,c): return (b[0]-a[0])*(c[1]-a[1])-(b[1]-a[1])*(c[0]-a[0])
def onseg(a,b,p): return orient(a,b,p)==0 and min(a[0],b[0])<=p[0]<=max(a[0],b[0]) and min(a[1],b[1])<=p[1]<=max(a[1],b[1])
bad=collections.Counter(); ex={}; tot=0
pts=[(x,y) for x in range(-3,4) for y in range(-3,4)]
PC=PointCollection([Point(*p) for p in pts])
for it in range(300):
    a=tuple(rng.integers(-3,4,size=2)); b=tuple(rng.integers(-3,4,size=2))
    if a==b: continue
    S=Segment(Point(*a),Point(*b))
    got=S.contains(PC)
    for p,g in zip(pts,got):
        tot+=1
        if bool(g)!=onseg(a,b,p): bad['seg2']+=1; ex.setdefault('seg2',(a,b,p,bool(g)))
# segment-segment intersection exact
def segint(a,b,c,d):
    # returns set of common points if finite (0 or 1), or 'overlap'
    d1=orient(a,b,c); d2=orient(a,b,d); d3=orient(c,d,a); d4=orient(c,d,b)
    if d1==0 and d2==0:
        # collinear
        com=[p for p in (a,b) if onseg(c,d,p)]+[p for p in (c,d) if onseg(a,b,p)]
        com=set(com)
        if len(com)==0: return []
        if len(com)==1: return [tuple(F(x) for x in com.pop())]
        return 'overlap'
    # lines cross at a point
    den=(b[0]-a[0])*(d[1]-c[1])-(b[1]-a[1])*(d[0]-c[0])
    if den==0: return []
    t=F((c[0]-a[0])*(d[1]-c[1])-(c[1]-a[1])*(d[0]-c[0]),den)
    u=F((c[0]-a[0])*(b[1]-a[1])-(c[1]-a[1])*(b[0]-a[0]),den)
    if 0<=t<=1 and 0<=u<=1: return [(a[0]+t*(b[0]-a[0]),a[1]+t*(b[1]-a[1]))]
    return []
for it in range(3000):
    a,b,c,d=[tuple(int(x) for x in rng.integers(-2,3,size=2)) for _ in range(4)]
    if a==b or c==d: continue
    exp=segint(a,b,c,d)
    try:
        got=Segment(Point(*a),Point(*b)).intersect(Segment(Point(*c),Point(*d)))
    except Exception as e:
        bad['EXC segseg']+=1; ex.setdefault('EXC segseg',(a,b,c,d,repr(e))); continue
    tot+=1
    if exp=='overlap':
        bad_key='segseg overlap returns %d'%len(got); cntk=bad_key
        collections.Counter
        ex.setdefault(bad_key,(a,b,c,d,got)); bad[bad_key]+=0
        continue
    gotc=[tuple(F(float(x)).limit_denominator(1000) for x in g.normalized_array[:2]) for g in got]
    if sorted(gotc)!=sorted(exp): bad['segseg']+=1; ex.setdefault('segseg',(a,b,c,d,exp,got))
print(tot,sum(bad.values()))
for k,v in bad.items(): print(k,v,ex[k])
