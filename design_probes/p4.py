import numpy as np, itertools, random, collections
from geometer import *
from geometer.exceptions import *
from exact import *
rng=np.random.default_rng(3)
def rvs(n,dim,k=2):
    a=rng.integers(-k,k+1,size=(n,dim))
    a[~a.any(axis=1),0]=1
    return a
bad=[]
# collection: pp 2D/3D, mask
for it in range(300):
    d=rng.choice([3,4]); n=int(rng.integers(1,6))
    p=rvs(n,d); q=rvs(n,d)
    # force some dependent
    for i in range(n):
        if rng.random()<0.3: q[i]=p[i]*rng.choice([-2,-1,1,2])
    dep=np.array([rank([list(map(int,a)),list(map(int,b))])<2 for a,b in zip(p,q)])
    try:
        r=join(PointCollection(p),PointCollection(q)); mask=None
    except LinearDependenceError as e: mask=e.dependent_values
    if dep.any():
        if mask is None or mask.shape!=dep.shape or not np.array_equal(mask,dep): bad.append(('mask',p,q,dep,mask))
    else:
        if mask is not None: bad.append(('spurious',p,q,mask))
# 3D lines collection coplanar / mixed
for it in range(300):
    n=int(rng.integers(1,5))
    p=rvs(n,4);q=rvs(n,4);s=rvs(n,4);t=rvs(n,4)
    mode=rng.choice(['allcopl','mixed','skew'])
    for i in range(n):
        if mode=='allcopl' or (mode=='mixed' and rng.random()<0.5):
            c=rng.integers(-2,3,size=3); t[i]=c[0]*p[i]+c[1]*q[i]+c[2]*s[i]
    ok=all(rank([list(map(int,a)),list(map(int,b))])==2 for a,b in zip(p,q)) and all(rank([list(map(int,a)),list(map(int,b))])==2 for a,b in zip(s,t))
    if not ok: continue
    rk=[rank([list(map(int,x)) for x in (a,b,c,d)]) for a,b,c,d in zip(p,q,s,t)]
    l=LineCollection(PointCollection(p),PointCollection(q)); m=LineCollection(PointCollection(s),PointCollection(t))
    for op in (join,meet):
        try: r=op(l,m); raised=None
        except GeometryException as e: raised=e
        if any(k==4 for k in rk):
            if not isinstance(raised,NotCoplanar): bad.append(('ll',op.__name__,rk,raised))
        elif any(k==2 for k in rk):
            if not isinstance(raised,LinearDependenceError) or not np.array_equal(raised.dependent_values,np.array(rk)==2): bad.append(('ll-dep',op.__name__,rk,raised, getattr(raised,'dependent_values',None)))
        else:
            if raised is not None: bad.append(('ll-sp',op.__name__,rk,raised))
            else:
                for i in range(n):
                    single=op(Line(Point(p[i]),Point(q[i])),Line(Point(s[i]),Point(t[i])))
                    if not (r[i]==single) or type(r[i])!=type(single): bad.append(('elem',op.__name__,i, r[i], single))
print(len(bad))
for b in bad[:10]: print(b)
