import numpy as np, collections, traceback, warnings, sys, itertools
warnings.simplefilter('ignore')
from geometer import *
from geometer.shapes import *
rng=np.random.default_rng(26)
bad=collections.Counter(); ex={}; cnt=collections.Counter()
def rec(name,detail): bad[name]+=1; ex.setdefault(name,detail)
def step(name,f):
    try: f(); cnt[name]+=1
    except AssertionError as e: rec(name,e.args)
    except Exception as e: rec('EXC '+name+' '+type(e).__name__,traceback.format_exc().splitlines()[-3:])
def rp(d,k=4): return Point(*rng.integers(-k,k+1,size=d))
def shoelace(v):
    v=np.asarray(v,float); x,y=v[:,0],v[:,1]
    return 0.5*(np.dot(x,np.roll(y,-1))-np.dot(y,np.roll(x,-1)))
def centroid2(v):
    v=np.asarray(v,float); x,y=v[:,0],v[:,1]; xn,yn=np.roll(x,-1),np.roll(y,-1)
    cr=x*yn-xn*y; A=cr.sum()/2
    return np.array([((x+xn)*cr).sum(),((y+yn)*cr).sum()])/(6*A)
polys={'square':[(0,0),(4,0),(4,4),(0,4)],'dart':[(0,0),(2,1),(4,0),(2,4)],'L':[(0,0),(4,0),(4,2),(2,2),(2,4),(0,4)],'pent':[(0,0),(3,0),(4,2),(1,4),(-1,2)]}
def rrot():
    q,_=np.linalg.qr(rng.normal(size=(3,3)))
    if np.linalg.det(q)<0: q[:,0]*=-1
    return q
for it in range(200):
  for name,vs in polys.items():
    off=rng.integers(-3,4,size=2)
    w=[(x+off[0],y+off[1]) for x,y in vs]
    k=rng.integers(0,len(w)); w2=w[k:]+w[:k]
    if rng.random()<0.5: w2=w2[::-1]
    def f():
        P=Polygon(*[Point(*v) for v in w2])
        assert np.isclose(P.area,abs(shoelace(w))),('area2',name,w2,P.area)
        cg=P.centroid
        assert np.allclose(cg.normalized_array[:2],centroid2(w)),('centroid2',name,w2,cg,centroid2(w))
        assert P==Polygon(*[Point(*v) for v in w])
    step('poly2',f)
    def f():
        R=rrot(); t=rng.integers(-3,4,size=3)
        v3=[R@np.array([x,y,0.0])+t for x,y in w2]
        P=Polygon(*[Point(*v) for v in v3])
        assert np.isclose(P.area,abs(shoelace(w))),('area3',name,P.area,abs(shoelace(w)))
        cg=P.centroid; c2=centroid2(w); ref=R@np.array([c2[0],c2[1],0.0])+t
        assert np.allclose(cg.normalized_array[:3],ref),('centroid3',name,cg,ref)
    step('poly3',f)
  def f():
    pts=[rp(3) for _ in range(4)]
    M=np.stack([p.array for p in pts]).astype(float)
    vol=abs(np.linalg.det(M))/6
    if vol<0.1: return
    S=Simplex(*pts)
    assert np.isclose(S.volume,vol),('vol',pts,S.volume,vol)
    tri=Simplex(*pts[:3])
    a=0.5*np.linalg.norm(np.cross(M[1,:3]-M[0,:3],M[2,:3]-M[0,:3]))
    assert np.isclose(tri.volume,a),('tri vol3',tri.volume,a)
    pass
  step('simplex',f)
  def f():
    for d in (2,3):
        p,q=rp(d),rp(d)
        if np.array_equal(p.array,q.array): continue
        s=Segment(p,q)
        assert np.isclose(s.length,np.linalg.norm(p.array[:-1]-q.array[:-1]))
        assert np.allclose(s.midpoint.normalized_array[:-1],(p.array[:-1]+q.array[:-1])/2),('mid',p,q,s.midpoint)
        assert s==Segment(q,p)
  step('segment',f)
  def f():
    for d in (2,3):
        a,b,c=rp(d),rp(d),rp(d)
        A,B,C=[x.array[:-1].astype(float) for x in (a,b,c)]
        if np.linalg.norm(np.cross(B-A,C-A))<0.5: continue
        T=Triangle(a,b,c)
        cc=T.circumcenter; x=cc.normalized_array[:-1]
        assert np.isclose(np.linalg.norm(x-A),np.linalg.norm(x-B)) and np.isclose(np.linalg.norm(x-A),np.linalg.norm(x-C)),('circum',d,a,b,c,cc)
        if d==3: assert Plane(a,b,c).contains(cc)
  step('circumcenter',f)
  def f():
    c=rp(2); r=float(rng.integers(1,5)); n=int(rng.integers(3,9))
    P=RegularPolygon(c,r,n)
    cc=Point(*np.mean(P.normalized_array[:,:-1],axis=0)); assert np.isclose(dist(cc,P.vertices[0]),r)
    pass
    pass
    assert np.isclose(P.area,0.5*n*r*r*np.sin(2*np.pi/n))
  step('regpoly2',f)
  def f():
    c=rp(3); r=float(rng.integers(1,5)); n=int(rng.integers(3,9)); ax=rp(3)
    if not ax.array[:3].any(): return
    P=RegularPolygon(c,r,n,axis=ax)
    pass
    pass
    pass
    assert np.isclose(P.area,0.5*n*r*r*np.sin(2*np.pi/n)),('area reg3',)
    for v in P.vertices: assert abs(np.dot(v.normalized_array[:3]-c.array[:3],ax.array[:3]))<1e-7,('perp axis',)
  step('regpoly3',f)
  def f():
    o=rp(3); a,b,c=[int(x) for x in rng.integers(1,4,size=3)]
    K=Cuboid(o,o+Point(a,0,0),o+Point(0,b,0),o+Point(0,0,c))
    assert np.isclose(K.area,2*(a*b+b*c+a*c)),('cuboid area',o,a,b,c,K.area)
    assert len(K.vertices)==8 and len(K.edges)==12 and len(K.faces)==6
    R=rotation(rng.uniform(0,6),axis=rp(3)) if True else None
    K2=R*K
    assert np.isclose(K2.area,K.area),('cuboid area rot',K2.area)
  step('cuboid',f)
print(cnt,sum(bad.values()))
for k,v in bad.items(): print(k,v,ex[k])
