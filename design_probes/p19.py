import numpy as np, warnings, itertools, traceback
warnings.simplefilter('ignore')
from geometer import *
def t(c,a,b):
    E=Ellipse(Point(*c),a,b)
    e=np.sqrt(abs(a*a-b*b)); dv=np.array([e,0]) if a>b else np.array([0,e])
    exp=[Point(*(np.array(c)+dv)),Point(*(np.array(c)-dv))]
    try:
        fo=E.foci
        okf=len(fo)==2 and all(any(x==y for y in fo) for x in exp)
    except Exception as ex: okf='EXC '+repr(ex)
    try:
        C=Conic.from_foci(exp[0],exp[1],Point(c[0]+a,c[1]))
        okc=(C==E)
    except Exception as ex: okc='EXC '+repr(ex)
    return okf,okc
for c in [(0,0),(1,0),(0,1),(-3,1),(2,2),(1,-1)]:
    for a,b in [(2,3),(3,2),(5,1),(1,4)]:
        print(c,a,b,t(c,a,b))
