import numpy as np, collections, warnings
warnings.simplefilter('ignore')
from geometer import *
from geometer.utils import is_multiple
rng=np.random.default_rng(90)
asym=collections.Counter(); wrong=collections.Counter(); n=0
for it in range(200000):
    d=int(rng.integers(2,5))
    a=rng.uniform(-1,1,size=d)*10**rng.uniform(-3,3)
    lam=rng.choice([-1,1])*10**rng.uniform(-3,3)
    eps=10**rng.uniform(-14,-2)
    b=lam*a*(1+eps*rng.uniform(-1,1,size=d))
    if rng.random()<0.3: a[rng.integers(0,d)]=0; b=lam*a*(1+eps*rng.uniform(-1,1,size=d))
    x=bool(is_multiple(a,b,rtol=1e-15,atol=1e-8)); y=bool(is_multiple(b,a,rtol=1e-15,atol=1e-8))
    n+=1
    k=int(np.floor(np.log10(eps)))
    if x!=y: asym[k]+=1
    if eps<1e-11 and not x: wrong[('should be True',k)]+=1
    if eps>1e-5 and x and d>1 and np.count_nonzero(a)>1: wrong[('should be False',k)]+=1
print(n, sorted(asym.items()), sorted(wrong.items()))
