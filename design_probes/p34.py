import numpy as np, collections, itertools, warnings, traceback
warnings.simplefilter('ignore')
from geometer.utils import *
from exact import rank
rng=np.random.default_rng(42)
bad=collections.Counter(); ex={}; cnt=collections.Counter()
def rec(name,detail):
    bad[name]+=1; ex.setdefault(name,[]); 
    if len(ex[name])<4: ex[name].append(detail)
# is_multiple exhaustive small lattice
vals=[-2,-1,0,1,2]
for n in (2,3):
    for a in itertools.product(vals,repeat=n):
        for b in itertools.product(vals,repeat=n):
            exp = rank([list(a),list(b)])<2 if (any(a) and any(b)) else True
            got=bool(is_multiple(np.array(a),np.array(b)))
            got2=bool(is_multiple(np.array(b),np.array(a)))
            cnt['ism']+=1
            if got!=exp: rec('is_multiple',(a,b,got,exp))
            if got!=got2: rec('is_multiple sym',(a,b,got,got2))
# complex multiples
for it in range(2000):
    n=int(rng.integers(2,5)); a=rng.integers(-3,4,size=n)+1j*rng.integers(-3,4,size=n)
    lam=complex(rng.integers(-3,4),rng.integers(-3,4))
    if lam==0: lam=1j
    if not a.any(): continue
    if not is_multiple(a,lam*a): rec('is_multiple complex',(a,lam))
    b=a.copy(); k=rng.integers(0,n); b[k]+=1
    exp=np.linalg.matrix_rank(np.stack([a,b]))<2 or not b.any()
    if bool(is_multiple(a,b))!=exp: rec('is_multiple complex neg',(a,b))
# axis argument: batch
for it in range(300):
    A=rng.integers(-2,3,size=(4,3,3)); lam=rng.integers(1,4,size=(4,1,1))*rng.choice([-1,1],size=(4,1,1))
    B=A*lam; B[0,0,0]+=1
    got=is_multiple(A,B,axis=(-2,-1)); exp=[ (np.linalg.matrix_rank(np.stack([x.ravel(),y.ravel()]))<2) or not x.any() or not y.any() for x,y in zip(A,B)]
    if list(got)!=exp: rec('is_multiple axes',(A[0].tolist(),B[0].tolist(),got.tolist(),exp))
    got=is_multiple(A,B,axis=-1); exp=np.array([[ (np.linalg.matrix_rank(np.stack([x,y]))<2) or not x.any() or not y.any() for x,y in zip(X,Y)] for X,Y in zip(A,B)])
    if not np.array_equal(got,exp): rec('is_multiple axis-1',(got.tolist(),exp.tolist()))
    got=is_multiple(A,B,axis=1); exp=np.array([[ (np.linalg.matrix_rank(np.stack([X[:,j],Y[:,j]]))<2) or not X[:,j].any() or not Y[:,j].any() for j in range(3)] for X,Y in zip(A,B)])
    if got.shape!=exp.shape or not np.array_equal(got,exp): rec('is_multiple axis1',(A[0].tolist(),B[0].tolist(),got.tolist(),exp.tolist()))
    got=is_multiple(A,B,axis=0)
    exp=np.array([[ (np.linalg.matrix_rank(np.stack([A[:,i,j],B[:,i,j]]))<2) or not A[:,i,j].any() or not B[:,i,j].any() for j in range(3)] for i in range(3)])
    if got.shape!=exp.shape or not np.array_equal(got,exp): rec('is_multiple axis0',(got.tolist(),exp.tolist()))
# null_space / orth
for it in range(500):
    m,n=int(rng.integers(1,5)),int(rng.integers(2,6)); r=int(rng.integers(0,min(m,n)+1))
    batch=tuple(rng.integers(1,4,size=rng.integers(0,2)))
    L=rng.integers(-3,4,size=batch+(m,r)); R=rng.integers(-3,4,size=batch+(r,n))
    A=np.matmul(L,R).astype(float)
    rk=np.linalg.matrix_rank(A)
    if np.any(rk!=r): continue
    for dim in (None,'known'):
        try:
            N=null_space(A) if dim is None else null_space(A,n-r)
            if N.shape!=batch+(n,n-r): rec('null shape',(A.shape,r,N.shape)); continue
            if not np.allclose(np.matmul(A,N),0,atol=1e-9): rec('null A N',())
            if not np.allclose(np.matmul(np.swapaxes(N.conj(),-1,-2),N),np.eye(n-r),atol=1e-9): rec('null orthonormal',())
            O=orth(A) if dim is None else orth(A,r)
            if O.shape!=batch+(m,r): rec('orth shape',(A.shape,r,O.shape)); continue
            if not np.allclose(np.matmul(np.swapaxes(O.conj(),-1,-2),O),np.eye(r),atol=1e-9): rec('orth orthonormal',())
            # range: O O^T A = A
            if not np.allclose(np.matmul(O,np.matmul(np.swapaxes(O.conj(),-1,-2),A)),A,atol=1e-9): rec('orth range',())
            cnt['ns']+=1
        except Exception as e: rec('EXC ns '+type(e).__name__,(A.shape,r,dim,traceback.format_exc().splitlines()[-2:]))
# hat_matrix
for it in range(300):
    x=rng.integers(-4,5,size=3); v=rng.integers(-4,5,size=3)
    H=hat_matrix(x)
    if not np.array_equal(H,-H.T): rec('hat skew',())
    if not np.array_equal(H@v,np.cross(v,x)): rec('hat cross',(x,v,H@v,np.cross(v,x)))
    if not np.array_equal(hat_matrix(*x),H): rec('hat args',())
    x6=rng.integers(-4,5,size=6); H=hat_matrix(x6)
    if H.shape!=(4,4) or not np.array_equal(H,-H.T): rec('hat4 skew',())
    # documented layout? entries set
    if sorted(np.abs(H[np.triu_indices(4,1)]).tolist())!=sorted(np.abs(x6).tolist()): rec('hat4 entries',())
print(cnt,sum(bad.values()))
for k,v in bad.items(): print(k,v,ex[k][:2])
