import numpy as np, collections, traceback, warnings, itertools
from fractions import Fraction as F
warnings.simplefilter('ignore')
from geometer import *
from geometer.shapes import *
rng=np.random.default_rng(70)
bad=collections.Counter(); ex={}; cnt=collections.Counter()
def rec(name,detail):
    bad[name]+=1; ex.setdefault(name,[]); 
    if len(ex[name])<3: ex[name].append(detail)
def orient(a,b,c): return (b[0]-a[0])*(c[1]-a[1])-(b[1]-a[1])*(c[0]-a[0])
def onseg(a,b,p): return orient(a,b,p)==0 and min(a[0],b[0])<=p[0]<=max(a[0],b[0]) and min(a[1],b[1])<=p[1]<=max(a[1],b[1])
def inpoly(vs,p):
    n=len(vs)
    for i in range(n):
        if onseg(vs[i],vs[(i+1)%n],p): return True
    c=False
    for i in range(n):
        a,b=vs[i],vs[(i+1)%n]
        if (a[1]>p[1])!=(b[1]>p[1]):
            lhs=(p[0]-a[0])*(b[1]-a[1]); rhs=(p[1]-a[1])*(b[0]-a[0])
            if (b[1]-a[1])>0:
                if lhs<rhs: c=not c
            else:
                if lhs>rhs: c=not c
    return c
polys={'square':[(0,0),(4,0),(4,4),(0,4)],'dart':[(0,0),(2,1),(4,0),(2,4)],'L':[(0,0),(4,0),(4,2),(2,2),(2,4),(0,4)],'tri':[(0,0),(4,1),(1,4)]}
# integer 3D embeddings: x = o + u*s + v*t with integer u,v independent
embeds=[((0,0,1),(1,0,0),(0,1,0)),((1,2,3),(1,0,1),(0,1,1)),((0,0,0),(1,1,0),(0,1,1)),((2,-1,0),(0,0,1),(1,0,0)),((0,0,0),(1,2,-1),(2,0,1)),((1,1,1),(0,1,0),(0,0,1)),((0,0,5),(1,-1,0),(1,1,2))]
for name,vs in polys.items():
  for o,u,v in embeds:
    def emb(p): return tuple(o[i]+u[i]*p[0]+v[i]*p[1] for i in range(3))
    nrm=np.cross(u,v)
    for rot in range(len(vs)):
      for rev in (False,True):
        w=vs[rot:]+vs[:rot]
        if rev: w=w[::-1]
        try:
            P=Polygon(*[Point(*emb(q)) for q in w])
        except Exception as e: rec('EXC ctor',(name,o,u,v,repr(e))); continue
        grid=[(x,y) for x in range(-1,6) for y in range(-1,6)]
        Q=PointCollection([Point(*emb(q)) for q in grid])
        try:
            got=P.contains(Q)
            for q,g in zip(grid,got):
                cnt['in-plane']+=1
                if bool(g)!=inpoly(vs,q): rec('in-plane',(name,(o,u,v),w,q,bool(g)))
            # off-plane
            Q2=PointCollection([Point(*(np.array(emb(q))+nrm)) for q in grid[::5]])
            got=P.contains(Q2)
            if got.any(): rec('off-plane',(name,(o,u,v)))
            cnt['off']+=len(grid[::5])
            # single API
            for q in grid[::6]:
                g=P.contains(Point(*emb(q))); cnt['single']+=1
                if bool(g)!=inpoly(vs,q): rec('single',(name,(o,u,v),w,q,bool(g)))
            # point at infinity (direction in plane)
            g=P.contains(Point([u[0],u[1],u[2],0]))
            if g: rec('inf',(name,(o,u,v)))
        except Exception as e: rec('EXC contains '+type(e).__name__,(name,(o,u,v),traceback.format_exc().splitlines()[-3:]))
print(cnt,sum(bad.values()))
for k,v in bad.items(): print(k,v,ex[k][:2])
