import numpy as np, collections, sys
sys.argv=['x']
exec(open('p31.py').read().split("bad=collections.Counter(); ex={}; n=0; err=0")[0])
rng=np.random.default_rng(33)
seen=collections.Counter(); exs={}
def desc(index):
    if not isinstance(index,tuple): index=(index,)
    out=[]
    for i in index:
        if isinstance(i,np.ndarray): out.append(('B%d'%i.ndim) if i.dtype==bool else ('A%d'%i.ndim))
        elif isinstance(i,list): out.append('A1')
        elif i is None: out.append('N')
        elif i is Ellipsis: out.append('E')
        elif isinstance(i,slice): out.append('S')
        else: out.append('I')
    return ' '.join(out)
for it in range(60000):
    r=int(rng.integers(1,5)); shape=tuple(int(x) for x in rng.integers(2,4,size=r))
    nfree=int(rng.integers(0,r))
    types=['coll']*nfree+[rng.choice(['cov','con']) for _ in range(r-nfree)]
    t=Tensor(np.arange(np.prod(shape)).reshape(shape),covariant=[i-nfree for i,x in enumerate(types) if x=='cov'],tensor_rank=r-nfree)
    index=rand_index(shape)
    try: expv=t.array[index]
    except Exception: continue
    dsc=desc(index)
    if 'B2' not in dsc or 'I' in dsc: continue
    try: got=t[index]; ok = isinstance(expv,np.generic) or lib_types(got)==struct_ref(shape,types,index)
    except Exception as e: ok='EXC'
    seen[(dsc,str(ok))]+=1
for k,v in sorted(seen.items()): print(k,v)
