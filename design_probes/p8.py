import numpy as np, itertools, collections, string
from geometer.base import *
from geometer.exceptions import *
rng=np.random.default_rng(7)
# reference evaluator for diagrams: independent implementation using explicit loops via np.einsum string built independently
def ref_eval(nodes, edges):
    # nodes: list of (array, cov_set, con_set, nfree); edges: list of (si, ti)
    # assign letters
    letters=iter(string.ascii_letters)
    labels=[[None]*n[0].ndim for n in nodes]
    unused=[(sorted(n[1]),sorted(n[2])) for n in nodes]
    for si,ti in edges:
        if not unused[si][0] or not unused[ti][1]: return 'ERR'
        i=unused[si][0].pop(0); j=unused[ti][1].pop(0)
        if nodes[si][0].shape[i]!=nodes[ti][0].shape[j]: return 'ERR'
        L=next(letters); labels[si][i]=L; labels[ti][j]=L
    out_cov=[];out_con=[]
    for k,n in enumerate(nodes):
        for i in unused[k][0]:
            L=next(letters); labels[k][i]=L; out_cov.append(L)
    for k,n in enumerate(nodes):
        for i in unused[k][1]:
            L=next(letters); labels[k][i]=L; out_con.append(L)
    # no free (collection) indices in this probe
    return np.einsum(','.join(''.join(l) for l in labels)+'->'+''.join(out_cov+out_con), *[n[0] for n in nodes]), len(out_cov), len(out_con)
bad=[];stat=collections.Counter()
for it in range(3000):
    nn=rng.integers(1,4)
    nodes=[];tens=[]
    d=int(rng.integers(2,4))
    for k in range(nn):
        r=int(rng.integers(1,4))
        arr=rng.integers(-3,4,size=(d,)*r)
        cov=[i for i in range(r) if rng.random()<0.5]
        t=Tensor(arr,covariant=cov)
        tens.append(t); nodes.append((arr,set(t._covariant_indices),set(t._contravariant_indices)))
    ne=rng.integers(1,5)
    edges=[e for e in [(int(rng.integers(0,nn)),int(rng.integers(0,nn))) for _ in range(ne)] if e[0]!=e[1]]
    if not edges: continue
    # the library adds nodes in order of appearance: emulate: node order = first appearance in edges (source first)
    order=[]
    for s,t_ in edges:
        for x in (s,t_):
            if x not in order: order.append(x)
    remap={o:i for i,o in enumerate(order)}
    rnodes=[nodes[o] for o in order]; redges=[(remap[s],remap[t_]) for s,t_ in edges]
    exp=ref_eval(rnodes,redges)
    try:
        dg=TensorDiagram(*[(tens[s],tens[t_]) for s,t_ in edges]); res=dg.calculate(); got=(res.array,res.tensor_shape[0],res.tensor_shape[1])
    except TensorComputationError: got='ERR'
    except Exception as e: got=('EXC',repr(e))
    if exp=='ERR' or got=='ERR':
        stat['err']+=1
        if exp!=got: bad.append(('errmismatch',edges,[n[1:] for n in nodes],exp if exp=='ERR' else 'val',got if got=='ERR' else 'val'))
    elif got[0]=='EXC' if isinstance(got[0],str) else False:
        bad.append(('exc',edges,[n[1:] for n in nodes],got))
    else:
        stat['ok']+=1
        if exp[0].shape!=got[0].shape or not np.array_equal(exp[0],got[0]) or exp[1:]!=got[1:]: bad.append(('val',edges,[n[1:] for n in nodes],exp[0].shape,got[0].shape,exp[1:],got[1:]))
print(stat,len(bad))
for b in bad[:8]: print(b)
