import numpy as np, collections, itertools, warnings, traceback
warnings.simplefilter('ignore')
from geometer import *
from geometer.shapes import *
from geometer.exceptions import *
rng=np.random.default_rng(50)
bad=collections.Counter(); ex={}; cnt=collections.Counter()
def rec(name,detail):
    bad[name]+=1; ex.setdefault(name,[]); 
    if len(ex[name])<3: ex[name].append(detail)
def rv(n,k=3):
    while True:
        v=rng.integers(-k,k+1,size=n)
        if v.any(): return v
def same(a,b):
    if isinstance(a,np.ndarray) or np.isscalar(a) or isinstance(a,np.generic):
        return np.allclose(a,b,atol=1e-7,equal_nan=True)
    if isinstance(a,(list,tuple)): return len(a)==len(b) and all(same(x,y) for x,y in zip(a,b))
    return a==b
def elem(x,i):
    if isinstance(x,(list,tuple)): return type(x)(elem(y,i) for y in x)
    if isinstance(x,np.ndarray): return x[i]
    return x[i]
def check(name,op,colls,singles_at):
    """op(*args) on collections vs op on singles at each position"""
    try:
        r=op(*colls)
    except Exception as e:
        # all singles should raise too?
        sr=[]
        for i in range(len(singles_at)):
            try: op(*singles_at[i]); sr.append(False)
            except Exception: sr.append(True)
        if not any(sr): rec('EXC-coll-only '+name,(repr(e)[:100],traceback.format_exc().splitlines()[-3:]))
        else: cnt['both raise '+name]+=1
        return
    for i,s in enumerate(singles_at):
        try: rs=op(*s)
        except Exception as e: rec('EXC-single-only '+name,(repr(e)[:100],)); continue
        try:
            ri=elem(r,i)
            if not same(ri,rs): rec('differ '+name,(i,ri,rs))
            else: cnt[name]+=1
        except Exception as e: rec('EXC-compare '+name,(repr(e)[:200],))
N=3
for it in range(150):
  for d in (2,3):
    P=[ [Point(*rv(d)) for _ in range(N)] for _ in range(4)]
    PC=[PointCollection(p) for p in P]
    def S(*idx): return [tuple(P[j][i] for j in idx) for i in range(N)]
    check(f'join pp{d}',join,PC[:2],S(0,1))
    try: L=[[Line(P[0][i],P[1][i]) for i in range(N)],[Line(P[2][i],P[3][i]) for i in range(N)]]
    except LinearDependenceError: continue
    LC=[LineCollection(PC[0],PC[1]),LineCollection(PC[2],PC[3])]
    for nm,op in [('contains',lambda l,p:l.contains(p)),('perpendicular',lambda l,p:l.perpendicular(p)),('parallel',lambda l,p:l.parallel(p)),('project',lambda l,p:l.project(p)),('mirror',lambda l,p:l.mirror(p)),('dist',lambda l,p:dist(l,p)),('distpl',lambda l,p:dist(p,l))]:
        check(f'line.{nm}{d}',op,[LC[0],PC[2]],[(L[0][i],P[2][i]) for i in range(N)])
        check(f'line.{nm}{d} bcast-pt',op,[LC[0],P[2][0]],[(L[0][i],P[2][0]) for i in range(N)])
        check(f'line.{nm}{d} bcast-line',op,[L[0][0],PC[2]],[(L[0][0],P[2][i]) for i in range(N)])
    for nm,op in [('base_point',lambda l:l.base_point),('direction',lambda l:l.direction),('basis_matrix',lambda l:l.basis_matrix),('general_point',lambda l:l.general_point)]:
        check(f'line.{nm}{d}',op,[LC[0]],[(L[0][i],) for i in range(N)])
    if d==2:
        check('meet ll2',meet,LC,[(L[0][i],L[1][i]) for i in range(N)])
        check('angle ll2',angle,LC,[(L[0][i],L[1][i]) for i in range(N)])
        check('is_perp ll2',is_perpendicular,LC,[(L[0][i],L[1][i]) for i in range(N)])
        check('bisectors',angle_bisectors,LC,[(L[0][i],L[1][i]) for i in range(N)])
        check('angle ppp2',angle,PC[:3],S(0,1,2))
        check('crossratio from',crossratio,PC[:4]+[PointCollection([Point(*rv(2))]*N)],[(P[0][i],P[1][i],P[2][i],P[3][i],Point(1,1)) for i in range(N)]) if False else None
        check('is_cocircular',is_cocircular,PC,S(0,1,2,3))
        check('is_collinear',is_collinear,PC[:3],S(0,1,2))
        check('dist pp',dist,PC[:2],S(0,1))
        check('harmonic',lambda a,b,c: harmonic_set(a,b,a+2*(b-a)),PC[:3],S(0,1,2))
    else:
        check('join ppp',join,PC[:3],S(0,1,2))
        check('join lp',join,[LC[0],PC[2]],[(L[0][i],P[2][i]) for i in range(N)])
        try: E=[[Plane(P[0][i],P[1][i],P[2][i]) for i in range(N)],[Plane(P[1][i],P[2][i],P[3][i]) for i in range(N)]]
        except LinearDependenceError: continue
        EC=[PlaneCollection(*PC[:3]),PlaneCollection(*PC[1:4])]
        check('meet ee',meet,EC,[(E[0][i],E[1][i]) for i in range(N)])
        check('meet el',meet,[EC[0],LC[1]],[(E[0][i],L[1][i]) for i in range(N)])
        check('angle ee',angle,EC,[(E[0][i],E[1][i]) for i in range(N)])
        check('is_perp ee',is_perpendicular,EC,[(E[0][i],E[1][i]) for i in range(N)])
        for nm,op in [('contains',lambda l,p:l.contains(p)),('perpendicular',lambda l,p:l.perpendicular(p)),('parallel',lambda l,p:l.parallel(p)),('project',lambda l,p:l.project(p)),('mirror',lambda l,p:l.mirror(p)),('dist',lambda l,p:dist(l,p))]:
            check(f'plane.{nm}',op,[EC[0],PC[3]],[(E[0][i],P[3][i]) for i in range(N)])
            check(f'plane.{nm} bcast-pt',op,[EC[0],P[3][0]],[(E[0][i],P[3][0]) for i in range(N)])
            check(f'plane.{nm} bcast-plane',op,[E[0][0],PC[3]],[(E[0][0],P[3][i]) for i in range(N)])
        for nm,op in [('basis_matrix',lambda l:l.basis_matrix),('general_point',lambda l:l.general_point),('isinf',lambda l:l.isinf)]:
            check(f'plane.{nm}',op,[EC[0]],[(E[0][i],) for i in range(N)])
        # coplanar lines meet/join
        L2=[Line(P[0][i],P[2][i]) for i in range(N)]; LC2=LineCollection(PC[0],PC[2])
        check('meet ll3',meet,[LC[0],LC2],[(L[0][i],L2[i]) for i in range(N)])
        check('join ll3',join,[LC[0],LC2],[(L[0][i],L2[i]) for i in range(N)])
        check('is_coplanar ll3',lambda a,b:a.is_coplanar(b),[LC[0],LC[1]],[(L[0][i],L[1][i]) for i in range(N)])
        check('angle ll3',angle,[LC[0],LC2],[(L[0][i],L2[i]) for i in range(N)])
        check('is_perp ll3',is_perpendicular,[LC[0],LC2],[(L[0][i],L2[i]) for i in range(N)])
        check('angle ppp3',angle,PC[:3],S(0,1,2))
        check('dist pp3',dist,PC[:2],S(0,1))
print(sum(cnt.values()),sum(bad.values()))
for k,v in sorted(bad.items()): print(k,v,'/',cnt.get(k.split(' ',1)[1],0),ex[k][:1])
