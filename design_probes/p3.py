import numpy as np, itertools, random, collections
from fractions import Fraction as F
from geometer import *
from geometer.exceptions import *
from exact import *
random.seed(2)
def rv(n=4,k=2):
    while True:
        v=[random.randint(-k,k) for _ in range(n)]
        if any(v): return v
def fr(a): return [[F(float(x)) for x in row] for row in np.atleast_2d(a)]
stats=collections.Counter()
def pts_of_line(L):
    # contravariant line: points = nullspace
    A=np.asarray(L.array)
    if L.tensor_shape==(0,2): return nullspace(fr(A))
    else:
        # covariant: column space
        rows=fr(A); 
        # basis of row space
        b=[];
        for r in rows:
            if rank(b+[r])>len(b): b.append(r)
        return b
def same_span(b1,b2):
    return len(b1)==len(b2) and rank(b1+b2)==len(b1)
bad=[]
for it in range(6000):
    kind=random.choice(['ppp','pl','ll','ee','eee','el','pp'])
    try:
      if kind=='pp':
        p,q=rv(),rv(); dep=rank([p,q])<2
        try: r=join(Point(p),Point(q)); raised=None
        except GeometryException as e: raised=type(e).__name__
        if (raised=='LinearDependenceError')!=dep: bad.append((kind,p,q,raised))
        if raised is None and not same_span(pts_of_line(r),[[F(x) for x in p],[F(x) for x in q]]): bad.append((kind,'span',p,q))
      elif kind=='ppp':
        p,q,s=rv(),rv(),rv(); dep=rank([p,q,s])<3
        try: r=join(Point(p),Point(q),Point(s)); raised=None
        except GeometryException as e: raised=type(e).__name__
        if (raised=='LinearDependenceError')!=dep: bad.append((kind,p,q,s,raised))
        if raised is None:
            a=fr(r.array)[0]
            if any(sum(x*y for x,y in zip(a,v))!=0 for v in (p,q,s)) or not any(a): bad.append((kind,'inc',p,q,s))
      elif kind=='pl':
        p,q,s=rv(),rv(),rv()
        if rank([p,q])<2: continue
        l=Line(Point(p),Point(q)); dep=rank([p,q,s])<3
        for order in (0,1):
            try: r=join(l,Point(s)) if order==0 else join(Point(s),l); raised=None
            except GeometryException as e: raised=type(e).__name__
            if (raised=='LinearDependenceError')!=dep: bad.append((kind,p,q,s,raised,order))
            if raised is None:
                a=fr(r.array)[0]
                if any(sum(x*y for x,y in zip(a,v))!=0 for v in (p,q,s)) or not any(a): bad.append((kind,'inc',p,q,s))
      elif kind=='ll':
        # two lines: coplanar or skew or equal
        p,q,s,t=rv(),rv(),rv(),rv()
        mode=random.choice(['generic','copl','equal'])
        if mode=='copl': t=[a+b for a,b in zip(p,s)]; t=[random.randint(-2,2)*a+random.randint(-2,2)*b+random.randint(-2,2)*c for a,b,c in zip(p,q,s)]
        if mode=='equal': s=[random.randint(-2,2)*a+random.randint(-2,2)*b for a,b in zip(p,q)]; t=[random.randint(-2,2)*a+random.randint(-2,2)*b for a,b in zip(p,q)]
        if rank([p,q])<2 or rank([s,t])<2: continue
        l=Line(Point(p),Point(q)); m=Line(Point(s),Point(t))
        rk=rank([p,q,s,t])
        stats[('ll',rk)]+=1
        for op in (join,meet):
            try: r=op(l,m); raised=None
            except GeometryException as e: raised=type(e).__name__
            exp={4:'NotCoplanar',3:None,2:'LinearDependenceError'}[rk]
            if raised!=exp: bad.append((kind,op.__name__,p,q,s,t,raised,exp))
            if raised is None:
                a=fr(r.array)[0]
                if op is join:
                    if any(sum(x*y for x,y in zip(a,v))!=0 for v in (p,q,s,t)) or not any(a): bad.append((kind,'join',p,q,s,t))
                else:
                    if rank([p,q,a])!=2 or rank([s,t,a])!=2 or not any(a): bad.append((kind,'meet',p,q,s,t,a))
      elif kind in('ee','eee'):
        k=2 if kind=='ee' else 3
        es=[rv() for _ in range(k)]
        dep=rank(es)<k
        try: r=meet(*[Plane(e) for e in es]); raised=None
        except GeometryException as e: raised=type(e).__name__
        if (raised=='LinearDependenceError')!=dep: bad.append((kind,es,raised))
        if raised is None:
            ref=nullspace(es)
            if k==3:
                a=fr(r.array)[0]
                if not same_span([a],ref): bad.append((kind,'pt',es))
            else:
                if not same_span(pts_of_line(r),ref): bad.append((kind,'line',es, r.tensor_shape))
      elif kind=='el':
        e=rv(); p,q=rv(),rv()
        if rank([p,q])<2: continue
        l=Line(Point(p),Point(q))
        inpl = sum(a*b for a,b in zip(e,p))==0 and sum(a*b for a,b in zip(e,q))==0
        for order in (0,1):
            try: r=meet(Plane(e),l) if order==0 else meet(l,Plane(e)); raised=None
            except GeometryException as ex: raised=type(ex).__name__
            if (raised=='LinearDependenceError')!=inpl: bad.append((kind,e,p,q,raised))
            if raised is None:
                a=fr(r.array)[0]
                if sum(x*y for x,y in zip(a,e))!=0 or rank([p,q,a])!=2 or not any(a): bad.append((kind,'inc',e,p,q))
      stats[kind]+=1
    except Exception as ex:
        bad.append((kind,'EXC',repr(ex)))
print(stats)
print(len(bad))
for b in bad[:20]: print(b)
