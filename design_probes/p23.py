import numpy as np, collections, traceback, warnings, sys, itertools
warnings.simplefilter('ignore')
from geometer import *
from geometer.exceptions import *
rng=np.random.default_rng(20)
bad=collections.Counter(); ex={}; cnt=collections.Counter()
def rec(name,detail): bad[name]+=1; ex.setdefault(name,detail)
def step(name,f):
    try: f(); cnt[name]+=1
    except AssertionError as e: rec(name,e.args)
    except Exception as e: rec('EXC '+name+' '+type(e).__name__,traceback.format_exc().splitlines()[-3:])
def rv(n,k=4):
    while True:
        v=rng.integers(-k,k+1,size=n)
        if v.any(): return v
for it in range(1500):
    g,h=rv(3),rv(3)
    if np.linalg.matrix_rank(np.stack([g,h]))<2: continue
    def f():
        C=Conic.from_lines(Line(g),Line(h))
        assert C.is_degenerate
        a,b=C.components
        assert (a==Line(g) and b==Line(h)) or (a==Line(h) and b==Line(g)),('comp2',g,h,a,b)
    step('lines',f)
    e,f_=rv(4),rv(4)
    if np.linalg.matrix_rank(np.stack([e,f_]))<2: continue
    def f():
        Q=Quadric.from_planes(Plane(e),Plane(f_))
        assert Q.is_degenerate
        a,b=Q.components
        assert (a==Plane(e) and b==Plane(f_)) or (a==Plane(f_) and b==Plane(e)),('comp3',e,f_,a,b)
    step('planes',f)
print(sum(cnt.values()),sum(bad.values()))
for k,v in sorted(bad.items()): print(k,v,'/',cnt[k], ex[k])
# exhaustive sign patterns
fails=[]
n=0
for g in itertools.product([-2,-1,0,1,2],repeat=3):
    for h in itertools.product([-1,0,1,3],repeat=3):
        if not any(g) or not any(h) or np.linalg.matrix_rank(np.array([g,h]))<2: continue
        n+=1
        try:
            C=Conic.from_lines(Line(g),Line(h)); a,b=C.components
            ok=(a==Line(g) and b==Line(h)) or (a==Line(h) and b==Line(g))
        except Exception as ex_: ok=False
        if not ok: fails.append((g,h))
print(n,len(fails),fails[:10])
