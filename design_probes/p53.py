import numpy as np, collections, warnings, itertools
warnings.simplefilter('ignore')
from geometer import *
from geometer.exceptions import *
rng=np.random.default_rng(91)
tab=collections.Counter()
for it in range(3000):
    o=rng.integers(-3,4,size=2)
    if rng.random()<0.3: o[0]=0
    if rng.random()<0.2: o[1]=0
    dirs=[]
    while len(dirs)<4:
        d=tuple(int(x) for x in rng.integers(-3,4,size=2))
        if any(d) and all(d[0]*e[1]-d[1]*e[0]!=0 for e in dirs): dirs.append(d)
    O=Point(*o)
    ls=[Line(O,O+Point(*d)) for d in dirs]
    D=lambda u,v:u[0]*v[1]-u[1]*v[0]
    a,b,c,d=dirs
    ref=D(a,c)*D(b,d)/(D(a,d)*D(b,c))
    try: got=crossratio(*ls)
    except Exception as e: got=None
    ok = got is not None and np.isclose(got,ref)
    pred = any(l.base_point==O for l in ls)
    tab[(bool(pred),bool(ok))]+=1
print(tab)
