import numpy as np, geometer
from geometer import *
print(geometer.__file__)
# exactness of complex integer join/meet
p=Point([1+2j,3,-1j]); q=Point([2,1j,5])
l=join(p,q); print(l.array, l.dtype)
print(np.dot(l.array,p.array), np.dot(l.array,q.array))
# exactness with big ints
p=Point(123456,-98765,4321); q=Point(-55555,77777,999)
l=join(p,q); print(l.array.dtype, [float(x).hex() for x in l.array[0]])
e=join(p,q,Point(1,2,3)); print(e.array, np.dot(e.array, p.array))
