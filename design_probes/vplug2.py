import sys, functools, inspect, threading, time
import numpy as np
STATE=threading.local(); STATE.depth=0
CNT={'calls':0,'top':0,'seg':0,'poly':0,'viol':[]}
def install():
    import geometer, geometer.point, geometer.operators, geometer.transformation, geometer.curve, geometer.shapes
    from geometer.base import Tensor
    from geometer.shapes import SegmentTensor, PolygonTensor
    def seg_ok(o):
        d=o.__dict__
        if '_line' not in d: return True
        CNT['seg']+=1
        L=np.array(d['_line'].array); V=np.array(d['array'])
        if d['_line'].tensor_shape==(0,2): r=np.einsum('...ij,...kj->...ki',L,V)
        elif d['_line'].tensor_shape==(0,1): r=np.einsum('...j,...kj->...k',L,V)
        else: return True
        return bool(np.all(np.abs(r)<=1e-7*(np.abs(L).max()*np.abs(V).max()+1e-300)))
    def poly_ok(o):
        d=o.__dict__
        if d.get('_plane') is None: return True
        CNT['poly']+=1
        E=np.array(d['_plane'].array); V=np.array(d['array'])
        r=np.einsum('...j,...kj->...k',E,V)
        return bool(np.all(np.abs(r)<=1e-7*(np.abs(E).max()*np.abs(V).max()+1e-300)))
    def check_obj(o,where):
        if isinstance(o,SegmentTensor):
            try:
                if not seg_ok(o): CNT['viol'].append(('seg',where,repr(o)[:80]))
            except Exception as e: CNT['viol'].append(('segERR',where,repr(e)[:80]))
        elif isinstance(o,PolygonTensor):
            try:
                if not poly_ok(o): CNT['viol'].append(('poly',where,repr(o)[:80]))
            except Exception as e: CNT['viol'].append(('polyERR',where,repr(e)[:80]))
        elif isinstance(o,(list,tuple)):
            for x in o: check_obj(x,where)
    def wrap(f,name):
        @functools.wraps(f)
        def w(*a,**k):
            CNT['calls']+=1
            STATE.depth+=1
            try:
                r=f(*a,**k)
            finally:
                STATE.depth-=1
            if STATE.depth==0:
                CNT['top']+=1
                for x in a: check_obj(x,name+':arg')
                check_obj(r,name+':result')
            return r
        return w
    seen=set()
    def walk(c):
        if c in seen: return
        seen.add(c)
        for s in c.__subclasses__(): walk(s)
    walk(Tensor)
    n=0
    for c in seen:
        if not c.__module__.startswith('geometer'): continue
        for name,attr in list(vars(c).items()):
            if name.startswith('_') and name not in('__init__','__apply__','__mul__','__add__','__sub__','__getitem__','__eq__','__pow__'): continue
            if isinstance(attr,property):
                setattr(c,name,property(wrap(attr.fget,f'{c.__name__}.{name}'),attr.fset,attr.fdel,attr.__doc__)); n+=1
            elif isinstance(attr,(classmethod,staticmethod)):
                continue
            elif inspect.isfunction(attr):
                setattr(c,name,wrap(attr,f'{c.__name__}.{name}')); n+=1
    # module functions rebinding
    mods=[m for k,m in sys.modules.items() if k.startswith('geometer')]
    targets={}
    for m in mods:
        for k,v in list(vars(m).items()):
            if inspect.isfunction(v) and v.__module__.startswith('geometer') and not k.startswith('__'):
                targets.setdefault(id(v),(v,[]))[1].append((m,k))
    for _,(f,places) in targets.items():
        wf=wrap(f,f.__module__+'.'+f.__name__)
        for m,k in places: setattr(m,k,wf)
        n+=1
    print('vplug2: wrapped',n)
def pytest_configure(config): install()
def pytest_unconfigure(config):
    print('\nvplug2 counters',{k:(v if k!='viol' else (len(v),v[:5])) for k,v in CNT.items()})
