import numpy as np, collections, traceback
from geometer import *
from geometer.shapes import *
rng=np.random.default_rng(12)
def rmat(n):
    while True:
        m=rng.integers(-3,4,size=(n,n))
        if abs(round(np.linalg.det(m)))>=1: return m
def rp(d,k=4): return Point(*rng.integers(-k,k+1,size=d))
bad=collections.Counter(); ex={}; cnt=collections.Counter()
def rec(name,detail): bad[name]+=1; ex.setdefault(name,detail)
for it in range(300):
    try:
        d=3
        t=Transformation(rmat(4))
        p,q,r,s=[rp(3) for _ in range(4)]
        l=join(p,q); cnt['n']+=1
        if not (t*l==join(t*p,t*q)): rec('join pp',())
        e=join(p,q,r)
        if not (t*e==join(t*p,t*q,t*r)): rec('join ppp',())
        if not (t*join(l,r)==join(t*l,t*r)): rec('join lp',())
        m=join(p,r)
        if not (t*meet(l,m)==meet(t*l,t*m)): rec('meet ll',(p,q,r,t))
        if not (t*join(l,m)==join(t*l,t*m)): rec('join ll',())
        f=join(q,r,s)
        if not (t*meet(e,f)==meet(t*e,t*f)): rec('meet ee',())
        g=join(p,r,s)
        if not (t*meet(e,f,g)==meet(t*e,t*f,t*g)): rec('meet eee',())
        n=join(r,s)
        if not (t*meet(e,n)==meet(t*e,t*n)): rec('meet el',())
        if not (t*e).contains(t*p): rec('contains e p',())
        if not (t*e).contains(t*l): rec('contains e l',())
        if (t*e).contains(t*s)!=e.contains(s): rec('contains e s',())
        if not (t*l).contains(t*p): rec('contains l p',())
        # quadric
        Q=Quadric(np.diag([1,2,3,-4]))
        x=Point(2,0,0)
        if not (t*Q).contains(t*x): rec('quadric contains',())
        h=Q.tangent(x)
        if not (t*Q).is_tangent(t*h): rec('quadric tangent',())
        if (t*Q).contains(t*p)!=Q.contains(p): rec('quadric ncontains',())
        # 2D
        t2=Transformation(rmat(3))
        a,b,c,dd,o=[rp(2) for _ in range(5)]
        l2=join(a,b); m2=join(c,dd)
        if not (t2*meet(l2,m2)==meet(t2*l2,t2*m2)): rec('meet 2d',())
        if not (t2*l2==join(t2*a,t2*b)): rec('join 2d',())
        cr=crossratio(a,b,c,dd,o); cr2=crossratio(t2*a,t2*b,t2*c,t2*dd,t2*o)
        if not np.isclose(cr,cr2): rec('cr',(cr,cr2))
        C=Conic(np.array([[2,1,0],[1,3,1],[0,1,-4]]))
        pts=C.intersect(l2)
        for y in pts:
            if not (t2*C).contains(t2*y): rec('conic contains',())
        P=Polygon(a,b,c,dd)
        tv=(t2*P).vertices
        for v,w in zip(P.vertices,tv):
            if not (t2*v==w): rec('poly vertices',())
    except LinearDependenceError: pass
    except Exception as e:
        rec('EXC',traceback.format_exc().splitlines()[-3:])
print(cnt,sum(bad.values()))
for k,v in sorted(bad.items()): print(k,v, ex[k])
