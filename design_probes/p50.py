import numpy as np, collections, traceback, warnings, itertools
warnings.simplefilter('ignore')
from geometer import *
rng=np.random.default_rng(83)
bad=collections.Counter(); ex={}; cnt=collections.Counter()
def rec(name,detail):
    bad[name]+=1; ex.setdefault(name,[]); 
    if len(ex[name])<3: ex[name].append(detail)
def pc(a,b,tol=1e-5):
    a=np.asarray(a.array,complex); b=np.asarray(b.array,complex)
    a=a/np.linalg.norm(a); b=b/np.linalg.norm(b)
    return abs(abs(np.vdot(a,b))-1)<tol
def ref_pts(A,p0,p1):
    a=p1@A@p1; b=2*p0@A@p1; c=p0@A@p0
    if abs(a)<1e-12:
        if abs(b)<1e-12: return None
        return [p1, p0 - (c/b)*p1] if True else None
    ts=np.roots([a,b,c]); return [p0+t*p1 for t in ts]
for it in range(600):
    d=int(rng.choice([2,3]))
    A=rng.integers(-3,4,size=(d+1,d+1)); A=A+A.T
    kind=rng.choice(['generic','circle','sing'])
    if kind=='circle':
        c=rng.integers(-3,4,size=d); r=int(rng.integers(1,4))
        Q=Circle(Point(*c),r) if d==2 else Sphere(Point(*c),r); A=Q.array
    elif kind=='sing':
        v=rng.integers(-2,3,size=d+1); 
        if d==2: continue
        A=A - 0  # make rank d (cone-like) by zeroing via projection
        A=np.diag([1,1,-1,0]); Q=Quadric(A)
    else:
        if abs(np.linalg.det(A))<.5: continue
        Q=Conic(A) if d==2 else Quadric(A)
    A=np.asarray(A,float)
    lk=rng.choice(['origin','inf','generic'])
    if lk=='origin':
        p0=np.array([0]*d+[1.]); p1=np.append(rng.integers(-3,4,size=d),0).astype(float)
        if not p1.any(): continue
    elif lk=='inf':
        p0=np.append(rng.integers(-3,4,size=d),0).astype(float); p1=np.append(rng.integers(-3,4,size=d),0).astype(float)
        if np.linalg.matrix_rank(np.stack([p0,p1]))<2: continue
    else:
        p0=np.append(rng.integers(-3,4,size=d),1).astype(float); p1=np.append(rng.integers(-3,4,size=d),1).astype(float)
        if np.linalg.matrix_rank(np.stack([p0,p1]))<2: continue
    try:
        l=Line(Point(p0),Point(p1)) if d==3 else join(Point(p0),Point(p1))
        res=Q.intersect(l)
    except Exception as e: rec('EXC %s %s d%d %s'%(kind,lk,d,type(e).__name__),(A.tolist(),p0,p1,traceback.format_exc().splitlines()[-3:])); continue
    ref=ref_pts(A,p0,p1)
    if ref is None: cnt['line in quadric']+=1; continue
    cnt[(kind,lk,d)]+=1
    for x in res:
        v=np.array(x.array,complex); v=v/np.linalg.norm(v)
        if abs(v@A@v)>1e-6*np.abs(A).max(): rec('not on Q %s %s d%d'%(kind,lk,d),(A.tolist(),p0,p1,x))
    disc_small = len(ref)==2 and pc(Point(ref[0]),Point(ref[1]),1e-3)
    if disc_small: continue
    for r_ in ref:
        if not any(pc(Point(r_),x,1e-5) for x in res): rec('incomplete %s %s d%d'%(kind,lk,d),(A.tolist(),p0,p1,[list(r) for r in ref],res))
print(sum(cnt.values()),sum(bad.values()))
for k,v in bad.items(): print(k,v,ex[k][:1])
