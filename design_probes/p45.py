import numpy as np, collections, traceback, warnings, itertools
from fractions import Fraction as F
warnings.simplefilter('ignore')
from geometer import *
from geometer.shapes import *
rng=np.random.default_rng(72)
bad=collections.Counter(); ex={}; cnt=collections.Counter()
def rec(name,detail):
    bad[name]+=1; ex.setdefault(name,[]); 
    if len(ex[name])<3: ex[name].append(detail)
def orient(a,b,c): return (b[0]-a[0])*(c[1]-a[1])-(b[1]-a[1])*(c[0]-a[0])
def onseg(a,b,p): return orient(a,b,p)==0 and min(a[0],b[0])<=p[0]<=max(a[0],b[0]) and min(a[1],b[1])<=p[1]<=max(a[1],b[1])
def inpoly(vs,p):
    n=len(vs)
    for i in range(n):
        if onseg(vs[i],vs[(i+1)%n],p): return True
    c=False
    for i in range(n):
        a,b=vs[i],vs[(i+1)%n]
        if (a[1]>p[1])!=(b[1]>p[1]):
            lhs=(p[0]-a[0])*(b[1]-a[1]); rhs=(p[1]-a[1])*(b[0]-a[0])
            if (b[1]-a[1])>0:
                if lhs<rhs: c=not c
            else:
                if lhs>rhs: c=not c
    return c
polys={'square':[(0,0),(4,0),(4,4),(0,4)],'dart':[(0,0),(2,1),(4,0),(2,4)],'tri':[(0,0),(4,1),(1,4)]}
# polygon in plane z=k (simple exact oracle): line through P,Q
for it in range(3000):
    name=rng.choice(list(polys)); vs=polys[name]; k=int(rng.integers(-1,3))
    P=Polygon(*[Point(x,y,k) for x,y in vs])
    p=[int(x) for x in rng.integers(-2,6,size=3)]; q=[int(x) for x in rng.integers(-2,6,size=3)]
    if p==q: continue
    for seg in (False,True):
        dz=q[2]-p[2]
        if dz==0:
            if p[2]==k: cnt['inplane skip']+=1; continue
            exp=[]
        else:
            t=F(k-p[2],dz); x=(p[0]+t*(q[0]-p[0]),p[1]+t*(q[1]-p[1]))
            exp=[(x[0],x[1],F(k))] if inpoly(vs,x) and (not seg or 0<=t<=1) else []
        try:
            obj=Segment(Point(*p),Point(*q)) if seg else Line(Point(*p),Point(*q))
            got=P.intersect(obj)
            got2=obj.intersect(P) if seg else None
        except Exception as e: rec('EXC '+type(e).__name__+(' seg' if seg else ' line'),(name,k,p,q,traceback.format_exc().splitlines()[-3:])); continue
        cnt['pierce seg' if seg else 'pierce line']+=1
        g=[tuple(F(float(np.real(c))).limit_denominator(10000) for c in (np.asarray(r.array)[...,:3]/np.asarray(r.array)[...,3:]).ravel()) for r in got]
        if sorted(g)!=sorted(exp): rec('pierce'+(' seg' if seg else ' line'),(name,k,p,q,exp,got))
        if got2 is not None and len(got2)!=len(got): rec('seg.intersect(poly) differs',(name,k,p,q,got,got2))
print(cnt,sum(bad.values()))
for k,v in bad.items(): print(k,v,ex[k][:2])
