import numpy as np, collections, traceback, warnings, itertools
warnings.simplefilter('ignore')
from geometer import *
rng=np.random.default_rng(82)
bad=collections.Counter(); ex={}; cnt=collections.Counter()
def rec(name,detail):
    bad[name]+=1; ex.setdefault(name,[]); 
    if len(ex[name])<3: ex[name].append(detail)
def pc(a,b,tol=1e-5):
    a=np.asarray(a.array,complex); b=np.asarray(b.array,complex)
    a=a/np.linalg.norm(a); b=b/np.linalg.norm(b)
    return abs(abs(np.vdot(a,b))-1)<tol
def onboth(C1,C2,x,tol=1e-5):
    v=np.asarray(x.array,complex); v=v/np.linalg.norm(v)
    return abs(v@C1.array@v)<tol*np.abs(C1.array).max() and abs(v@C2.array@v)<tol*np.abs(C2.array).max()
# tangent circles (externally / internally): one real double point + I,J
for it in range(300):
    c1=rng.integers(-3,4,size=2).astype(float); r1=float(rng.integers(1,4)); r2=float(rng.integers(1,4))
    # direction with rational unit vector
    m,n=int(rng.integers(1,4)),int(rng.integers(1,4))
    if m==n: continue
    u=np.array([m*m-n*n,2*m*n],float)/(m*m+n*n)
    for mode in ('ext','int'):
        if mode=='int' and r1==r2: continue
        c2=c1+(r1+r2)*u if mode=='ext' else c1+(r1-r2)*u
        T=c1+r1*u
        K1,K2=Circle(Point(*c1),r1),Circle(Point(*c2),r2)
        try:
            res=K1.intersect(K2)
        except Exception as e: rec('EXC tangent circles '+type(e).__name__,(c1,r1,c2,r2,traceback.format_exc().splitlines()[-2:])); continue
        cnt['tangent circles']+=1
        if len(res)>4: rec('count',len(res))
        if not all(onboth(K1,K2,x,1e-4) for x in res): rec('tc onboth',(c1,r1,c2,r2,res))
        if not any(pc(x,Point(*T),1e-4) for x in res): rec('tc missing contact',(c1,r1,c2,r2,T,res))
        if not (any(pc(x,I) for x in res) and any(pc(x,J) for x in res)): rec('tc missing IJ',(c1,r1,c2,r2,res))
# concentric circles: double contact at I and J (pencil with double roots)
for it in range(100):
    c1=rng.integers(-3,4,size=2).astype(float); r1,r2=1.0+int(rng.integers(0,3)),4.0+int(rng.integers(0,3))
    K1,K2=Circle(Point(*c1),r1),Circle(Point(*c1),r2)
    try: res=K1.intersect(K2)
    except Exception as e: rec('EXC concentric '+type(e).__name__,(c1,r1,r2,traceback.format_exc().splitlines()[-2:])); continue
    cnt['concentric']+=1
    if not all(onboth(K1,K2,x,1e-4) for x in res): rec('conc onboth',(c1,r1,r2,res))
    if not (any(pc(x,I,1e-4) for x in res) and any(pc(x,J,1e-4) for x in res)): rec('conc missing IJ',(c1,r1,r2,res))
    if any(x.isreal and not x.isinf for x in res): rec('conc real point',(c1,r1,r2,res))
print(cnt,sum(bad.values()))
for k,v in bad.items(): print(k,v,ex[k][:2])
