import numpy as np, collections, itertools, warnings, traceback, string
warnings.simplefilter('ignore')
from geometer.base import *
from geometer.exceptions import *
rng=np.random.default_rng(81)
bad=collections.Counter(); ex={}; cnt=collections.Counter()
def rec(name,detail):
    bad[name]+=1; ex.setdefault(name,[]); 
    if len(ex[name])<3: ex[name].append(detail)
def ref_eval(nodes, edges):
    # nodes: list of (array, cov list, con list, nfree)
    letters=iter(string.ascii_letters)
    labels=[[None]*n[0].ndim for n in nodes]
    unused=[(sorted(n[1]),sorted(n[2])) for n in nodes]
    for si,ti in edges:
        if not unused[si][0] or not unused[ti][1]: return 'ERR'
        i=unused[si][0].pop(0); j=unused[ti][1].pop(0)
        if nodes[si][0].shape[i]!=nodes[ti][0].shape[j]: return 'ERR'
        L=next(letters); labels[si][i]=L; labels[ti][j]=L
    maxfree=max(n[3] for n in nodes)
    fl=[next(letters) for _ in range(maxfree)]  # right aligned
    for k,n in enumerate(nodes):
        for a in range(n[3]): labels[k][a]=fl[maxfree-n[3]+a]
    out_cov=[];out_con=[]
    for k,n in enumerate(nodes):
        for i in unused[k][0]:
            L=next(letters); labels[k][i]=L; out_cov.append(L)
    for k,n in enumerate(nodes):
        for i in unused[k][1]:
            L=next(letters); labels[k][i]=L; out_con.append(L)
    return np.einsum(','.join(''.join(l) for l in labels)+'->'+''.join(fl+out_cov+out_con), *[n[0] for n in nodes]), maxfree, len(out_cov), len(out_con)
for it in range(4000):
    nn=int(rng.integers(1,4)); d=int(rng.integers(2,4))
    cshape=tuple(int(x) for x in rng.integers(1,4,size=2))
    nodes=[];tens=[]
    for k in range(nn):
        r=int(rng.integers(1,4)); nf=int(rng.integers(0,3))
        cs=cshape[2-nf:]
        if rng.random()<0.15 and nf>0: cs=tuple(1 for _ in cs)  # size-1 broadcasting
        arr=rng.integers(-3,4,size=cs+(d,)*r)
        cov=[i for i in range(r) if rng.random()<0.5]
        t=Tensor(arr,covariant=cov,tensor_rank=r)
        tens.append(t); nodes.append((arr,sorted(t._covariant_indices),sorted(t._contravariant_indices),nf))
    ne=int(rng.integers(0,5))
    edges=[e for e in [(int(rng.integers(0,nn)),int(rng.integers(0,nn))) for _ in range(ne)] if e[0]!=e[1]]
    order=[]
    for s,t_ in edges:
        for x in (s,t_):
            if x not in order: order.append(x)
    # isolated nodes appended via add_node
    iso=[k for k in range(nn) if k not in order] if rng.random()<0.5 else []
    order2=order+iso
    if not order2: continue
    remap={o:i for i,o in enumerate(order2)}
    rnodes=[nodes[o] for o in order2]; redges=[(remap[s],remap[t_]) for s,t_ in edges]
    try: exp=ref_eval(rnodes,redges)
    except ValueError as e: exp='BCAST'
    try:
        dg=TensorDiagram(*[(tens[s],tens[t_]) for s,t_ in edges])
        for k in iso: dg.add_node(tens[k])
        res=dg.calculate(); got=(res.array,res.free_indices,res.tensor_shape[0],res.tensor_shape[1])
    except TensorComputationError: got='ERR'
    except ValueError as e: got='BCAST'
    except Exception as e: got=('EXC',repr(e))
    if isinstance(exp,str) or isinstance(got,str):
        cnt[str(exp) if isinstance(exp,str) else 'val']+=1
        if (exp if isinstance(exp,str) else 'val')!=(got if isinstance(got,str) else 'val'): rec('mismatch-kind',(exp if isinstance(exp,str) else 'val',got if isinstance(got,str) else 'val',[n[1:] for n in rnodes],[n[0].shape for n in rnodes],redges))
    elif got[0] is 'EXC': rec('exc',got)
    else:
        cnt['ok']+=1
        if exp[0].shape!=got[0].shape or not np.array_equal(exp[0],got[0]) or exp[1:]!=got[1:]: rec('val',([n[1:] for n in rnodes],[n[0].shape for n in rnodes],redges,exp[0].shape,got[0].shape,exp[1:],got[1:]))
print(cnt,sum(bad.values()))
for k,v in bad.items(): print(k,v,ex[k][:3])
