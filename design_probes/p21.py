import numpy as np, collections, traceback, warnings, sys
warnings.simplefilter('ignore')
from geometer import *
from geometer.exceptions import *
rng=np.random.default_rng(18)
bad=collections.Counter(); ex={}; cnt=collections.Counter()
def rec(name,detail): bad[name]+=1; ex.setdefault(name,detail)
def step(name,f):
    try: f(); cnt[name]+=1
    except AssertionError as e: rec(name,e.args)
    except Exception as e: rec('EXC '+name+' '+type(e).__name__,traceback.format_exc().splitlines()[-3:])
def rp(d,k=4): return Point(*rng.integers(-k,k+1,size=d))
def rsym(n,k=3):
    m=rng.integers(-k,k+1,size=(n,n)); return m+m.T
for it in range(400):
  for d in (2,3):
    A=rsym(d+1)
    if abs(np.linalg.det(A))<0.5: continue
    Q=Quadric(A) if d==3 else Conic(A)
    p,q=rp(d),rp(d)
    if np.array_equal(p.array,q.array): continue
    l=Line(p,q)
    def f():
        pts=Q.intersect(l)
        assert 1<=len(pts)<=2
        for x in pts:
            assert Q.contains(x),('on Q',A.tolist(),l,x)
            assert l.contains(x),('on l',A.tolist(),l,x)
        # completeness: solve quadratic along p + t q
        pa,qa=p.array.astype(float),q.array.astype(float)
        a=qa@A@qa; b=2*pa@A@qa; c=pa@A@pa
        if abs(a)>1e-9:
            ts=np.roots([a,b,c]); 
            for t in ts:
                x=Point(pa+t*qa)
                assert any(x==y for y in pts),('complete',A.tolist(),l,ts,pts)
    step(f'intersect{d}',f)
    # secant through two known points: build points on Q via intersect with random lines
    def f():
        pts=Q.intersect(l); m=Line(rp(d),rp(d)); pts2=Q.intersect(m)
        x,y=pts[0],pts2[-1]
        if x==y: return
        s=Line(x,y) if d==2 else join(x,y)
        r=Q.intersect(s)
        assert len(r)==2 and all(any(u==v for v in r) for u in (x,y)),('secant',A.tolist(),x,y,r)
    step(f'secant{d}',f)
    def f():
        pts=Q.intersect(l); x=pts[0]
        h=Q.tangent(x)
        if d==2: assert isinstance(h,Line)
        assert h.contains(x),('tangent contains',)
        assert Q.is_tangent(h),('is_tangent',A.tolist(),x,h)
        # tangent line in tangent plane through x meets only at x
        if d==2:
            r=Q.intersect(h)
            assert all(u==x for u in r),('tangent meets once',A.tolist(),x,h,r)
            if np.all(np.isreal(x.array)):
              pass
        DD=Q.dual
        assert DD.is_dual and DD.dual==Q and not DD.dual.is_dual
        # non tangent
        h2=Line(*rng.integers(-3,4,size=3)) if d==2 else Plane(*rng.integers(-3,4,size=4))
        if h2.array.any():
            ha=h2.array.astype(float); val=ha@np.linalg.inv(A)@ha
            assert bool(Q.is_tangent(h2))==(abs(val)<1e-8),('is_tangent iff',A.tolist(),h2,val)
    step(f'tangent{d}',f)
    if d==2:
        def f():
            o=rp(2)
            if Q.contains(o): return
            t1,t2=Q.tangent(o)
            for t in (t1,t2):
                assert t.contains(o) and Q.is_tangent(t),('outside tangent',A.tolist(),o,t)
            pl=Q.polar(o)
            # pole of polar
            pole=Point(np.linalg.inv(A)@pl.array)
            assert pole==o
        step('polar',f)
print(sum(cnt.values()),sum(bad.values()))
for k,v in sorted(bad.items()): print(k,v,'/',cnt[k], ex[k])
