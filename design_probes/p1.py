import numpy as np
from geometer import *
from geometer.shapes import PolygonCollection
polys = PolygonCollection([
    Polygon(Point(0,0,1),Point(1,0,1),Point(1,1,1),Point(0,1,1)),
    Polygon(Point(0,0,2),Point(2,0,2),Point(2,2,2),Point(0,2,2)),
])
print(polys._plane)
before = polys._plane.array.copy()
pts = PointCollection([Point(0.5,0.5,1), Point(0.5,0.5,2)])
print(polys.contains(pts))
print(polys.area)
print(polys._plane)
print(polys.contains(pts))
print(np.array_equal(before, polys._plane.array))
l = LineCollection([Line(Point(0.5,0.5,0),Point(0.5,0.5,3))]*2)
print(polys.intersect(l))
