import numpy as np, collections, traceback, warnings, sys
warnings.simplefilter('ignore')
from geometer import *
from geometer.exceptions import *
rng=np.random.default_rng(15)
bad=collections.Counter(); ex={}; cnt=collections.Counter()
def rec(name,detail): bad[name]+=1; ex.setdefault(name,detail)
def rp(d,k=4): return Point(*rng.integers(-k,k+1,size=d))
def c(p): return np.asarray(np.real(p.normalized_array[:-1]),dtype=float)
def dirvec(l):
    dd=l.direction
    return np.real(np.asarray(dd.array[:-1],dtype=complex))
def step(name,f):
    try: f(); cnt[name]+=1
    except AssertionError as e: rec(name,e.args)
    except Exception as e: rec('EXC '+name+' '+type(e).__name__,traceback.format_exc().splitlines()[-3:])
for it in range(400):
  for d in (2,3):
    p,q,r=[rp(d) for _ in range(3)]
    if np.array_equal(c(q),c(r)): continue
    l=Line(q,r); u=c(r)-c(q)
    on=q+ (rng.integers(-2,3))*(r-q)  # point on l
    for label,pt in (('off',p),('on',on)):
        def f():
            m=l.perpendicular(pt)
            assert m.contains(pt), ('through',l,pt,m)
            dv=dirvec(m)
            assert abs(np.dot(dv,u))<1e-7*np.linalg.norm(dv)*np.linalg.norm(u)+1e-9, ('perp',l,pt,m,dv,u)
            assert bool(is_perpendicular(l,m)), ('is_perp',l,pt,m)
            if d==3: assert bool(l.is_coplanar(m)) , ('meets',l,pt,m)
        step(f'line.perp {label}{d}',f)
    def f():
        m=l.parallel(p)
        assert m.contains(p)
        dv=dirvec(m); 
        assert np.linalg.matrix_rank(np.stack([dv,u]),tol=1e-7)==1
        assert bool(l.is_parallel(m))
    if not l.contains(p): step(f'line.parallel{d}',f)
    def f():
        pr=l.project(p)
        assert l.contains(pr)
        t=np.dot(c(p)-c(q),u)/np.dot(u,u); ref=c(q)+t*u
        assert np.allclose(c(pr),ref,atol=1e-7), (l,p,pr,ref)
    step(f'line.project{d}',f)
    def f():
        if l.contains(p): return
        mi=l.mirror(p)
        t=np.dot(c(p)-c(q),u)/np.dot(u,u); ref=2*(c(q)+t*u)-c(p)
        assert np.allclose(c(mi),ref,atol=1e-7), (l,p,mi,ref)
        assert l.mirror(mi)==p
    step(f'line.mirror{d}',f)
    def f():
        bp=l.base_point; assert l.contains(bp) and not bp.isinf, (l,bp)
        dr=l.direction; assert l.contains(dr) and dr.isinf
        B=l.basis_matrix
        assert np.allclose(B@B.conj().T,np.eye(2),atol=1e-9), B
        for row in B: assert l.contains(Point(row)), ('basis',l,row)
        g=l.general_point; assert not l.contains(g)
    step(f'line.base{d}',f)
    if d==3:
        e=Plane(*rng.integers(-3,4,size=4)); n=e.array[:3].astype(float)
        if not n.any(): continue
        pin=e.project(p)
        for label,pt in (('off',p),('on',pin)):
            def f():
                m=e.perpendicular(pt)
                assert m.contains(pt)
                dv=dirvec(m); assert np.linalg.matrix_rank(np.stack([dv,n]),tol=1e-7)==1,(e,pt,m)
            step(f'plane.perp {label}',f)
        def f():
            ref=c(p)-(np.dot(n,c(p))+e.array[3])/np.dot(n,n)*n
            assert np.allclose(c(pin),ref,atol=1e-7),(e,p,pin,ref)
            assert e.contains(pin)
        step('plane.project',f)
        def f():
            if e.contains(p): return
            mi=e.mirror(p); ref=2*(c(p)-(np.dot(n,c(p))+e.array[3])/np.dot(n,n)*n)-c(p)
            assert np.allclose(c(mi),ref,atol=1e-7),(e,p,mi,ref)
            assert e.mirror(mi)==p
        step('plane.mirror',f)
        def f():
            f_=e.parallel(p); assert f_.contains(p); assert np.linalg.matrix_rank(np.stack([f_.array[:3],n]),tol=1e-9)==1
            if not e.contains(p): assert bool(e.is_parallel(f_))
        step('plane.parallel',f)
        def f():
            B=e.basis_matrix; assert B.shape==(3,4)
            assert np.allclose(B@B.T,np.eye(3),atol=1e-9)
            assert np.allclose(B@e.array,0,atol=1e-9)
            assert not e.contains(e.general_point)
        step('plane.basis',f)
        def f():
            if e.contains(l): return
            g=e.perpendicular(l)
            assert g.contains(l); assert abs(np.dot(g.array[:3],n))<1e-7; assert bool(is_perpendicular(e,g))
        step('plane.perp line',f)
print(sum(cnt.values()),sum(bad.values()))
for k,v in sorted(bad.items()): print(k,v,'/',cnt[k], ex[k])
