import numpy as np, collections, itertools, warnings, traceback, hashlib
warnings.simplefilter('ignore')
import geometer
from geometer import *
from geometer.shapes import *
from geometer.base import *
from geometer.curve import absolute_conic
from geometer.exceptions import *
rng=np.random.default_rng(60)
def arrays_of(o,seen=None):
    out=[]
    if isinstance(o,Tensor):
        out.append(o.array)
        for k in ('_line','_plane'):
            v=o.__dict__.get(k)
            if v is not None: out+=arrays_of(v)
    return out
def freeze(o):
    for a in arrays_of(o):
        b=a
        while b is not None and isinstance(b,np.ndarray):
            b.flags.writeable=False; b=b.base
def digest(o): return [hashlib.sha1(np.ascontiguousarray(a).tobytes()).hexdigest() for a in arrays_of(o)]
def pool(d):
    P=[Point(*rng.integers(-3,4,size=d)) for _ in range(6)]
    o={'p%d'%i:p for i,p in enumerate(P)}
    o['pc']=PointCollection(P[:3]); o['pc2']=PointCollection(P[3:])
    o['l']=Line(P[0],P[1]); o['m']=Line(P[0],P[2]); o['lc']=LineCollection(o['pc'],o['pc2'])
    o['seg']=Segment(P[0],P[1]); o['segc']=SegmentCollection(o['pc'],o['pc2'])
    o['t']=Transformation(np.eye(d+1)+np.triu(np.ones((d+1,d+1)),1)); o['tc']=TransformationCollection([o['t'].array]*3)
    if d==2:
        o['poly']=Polygon(Point(0,0),Point(4,0),Point(4,4),Point(2,1),Point(0,4))
        o['tri']=Triangle(Point(0,0),Point(4,0),Point(0,4))
        o['polyc']=PolygonCollection([o['poly'],o['poly']+Point(1,1)])
        o['conic']=Conic(np.array([[2,1,0],[1,3,1],[0,1,-4]])); o['circle']=Circle(P[0],2); o['qc']=QuadricCollection([o['conic'],o['circle']])
        o['regpoly']=RegularPolygon(P[0],2,5)
    else:
        o['e']=Plane(P[0],P[1],P[2]); o['f']=Plane(P[1],P[2],P[3]); o['ec']=PlaneCollection([o['e'].array,o['f'].array])
        o['poly']=Polygon(Point(0,0,1),Point(4,0,1),Point(4,4,1),Point(2,1,1),Point(0,4,1))
        o['tri']=Triangle(Point(0,0,1),Point(4,0,1),Point(0,4,2))
        o['polyc']=PolygonCollection([o['poly'],o['poly']+Point(1,1,1)])
        o['cube']=Cuboid(Point(0,0,0),Point(1,0,0),Point(0,2,0),Point(0,0,3))
        o['quadric']=Quadric(np.diag([1,2,3,-4])+np.ones((4,4))); o['sphere']=Sphere(P[0],2); o['cone']=Cone(Point(0,0,0),Point(0,0,2),1)
        o['qc']=QuadricCollection([o['quadric'],o['sphere']])
    return o
ops=[]
def op(name,f,*argnames): ops.append((name,f,argnames))
# generic catalog: try every method/property of every object with every compatible arg from the pool (brute-force arity<=2)
def catalog(o):
    res=[]
    for n,x in o.items():
        for attr in dir(type(x)):
            if attr.startswith('_') or attr in('copy',): continue
            a=getattr(type(x),attr,None)
            if isinstance(a,property): res.append((f'{n}.{attr}',(lambda x=x,attr=attr: getattr(x,attr))))
            elif callable(a) and not isinstance(a,type):
                res.append((f'{n}.{attr}()',(lambda x=x,attr=attr: getattr(x,attr)())))
                for m,y in o.items():
                    res.append((f'{n}.{attr}({m})',(lambda x=x,attr=attr,y=y: getattr(x,attr)(y))))
    for fn in ('join','meet','dist','angle','is_perpendicular','is_coplanar','angle_bisectors'):
        g=getattr(geometer,fn)
        for (n,x),(m,y) in itertools.product(o.items(),repeat=2): res.append((f'{fn}({n},{m})',(lambda g=g,x=x,y=y:g(x,y))))
    for (n,x),(m,y) in itertools.product(o.items(),repeat=2):
        res.append((f'{n}*{m}',lambda x=x,y=y:x*y)); res.append((f'{n}+{m}',lambda x=x,y=y:x+y)); res.append((f'{n}-{m}',lambda x=x,y=y:x-y)); res.append((f'{n}=={m}',lambda x=x,y=y:x==y))
    return res
consts={'I':geometer.I,'J':geometer.J,'infty':geometer.infty,'infty_plane':geometer.infty_plane,'absolute_conic':absolute_conic}
viol=collections.Counter(); exv={}
ran=0; okc=0
for d in (2,3):
    o=pool(d)
    allobjs=dict(o); allobjs.update(consts)
    before={n:digest(x) for n,x in allobjs.items()}
    cache_before={k:v.copy() for k,v in LeviCivitaTensor._cache.items()}
    cat=catalog(o)
    import sys
    sys.setrecursionlimit(300)
    for name,f in cat:
        ran+=1
        try:
            f(); okc+=1
        except RecursionError: pass
        except Exception as e: pass
        for n,x in allobjs.items():
            dg=digest(x)
            if dg!=before[n]:
                viol[(name.split('(')[0].split('.')[-1] if '.' in name else name, n)]+=1; exv.setdefault((name,n),None)
                before[n]=dg
    for k,v in LeviCivitaTensor._cache.items():
        if k in cache_before and not np.array_equal(v,cache_before[k]): print('CACHE MUTATED',k)
print(ran,okc,len(exv))
for k in list(exv)[:40]: print(k)
