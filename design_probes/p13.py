import numpy as np, collections, traceback, warnings
warnings.simplefilter('ignore')
from geometer import *
from geometer.shapes import *
rng=np.random.default_rng(14)
bad=collections.Counter(); ex={}; cnt=collections.Counter()
def rec(name,detail): bad[name]+=1; ex.setdefault(name,detail)
def rp(d,k=5): return Point(*rng.integers(-k,k+1,size=d))
def c(p): return np.asarray(p.normalized_array[:-1],dtype=float)
def angmod(a,b): 
    d=(a-b)%np.pi
    return min(d,np.pi-d)<1e-7
for it in range(500):
    try:
      for d in (2,3):
        p,q,r,s=[rp(d) for _ in range(4)]
        cp,cq,cr,cs=c(p),c(q),c(r),c(s)
        # point-point
        x=dist(p,q)
        if not np.isclose(x,np.linalg.norm(cp-cq)): rec(f'dist pp{d}',(p,q,x))
        if not np.isclose(dist(q,p),x): rec(f'dist sym{d}',())
        if np.array_equal(cq,cr): continue
        l=Line(q,r)
        # point-line
        u=(cr-cq)/np.linalg.norm(cr-cq); w=cp-cq; ref=np.linalg.norm(w-np.dot(w,u)*u)
        x=dist(p,l); y=dist(l,p)
        if not np.isclose(x,ref,atol=1e-7): rec(f'dist pl{d}',(p,q,r,x,ref))
        if not np.isclose(y,ref,atol=1e-7): rec(f'dist lp{d}',(p,q,r,y,ref))
        # segment
        tpar=np.clip(np.dot(w,u)/np.linalg.norm(cr-cq),0,1); ref=np.linalg.norm(cp-(cq+tpar*(cr-cq)))
        x=dist(p,Segment(q,r))
        if not np.isclose(x,ref,atol=1e-7): rec(f'dist pseg{d}',(p,q,r,x,ref))
        # angle 3 points
        if np.array_equal(cp,cq) or np.array_equal(cp,cr): continue
        a=angle(p,q,r)
        v1=cq-cp; v2=cr-cp
        if d==2:
            ref=-np.arctan2(v1[0]*v2[1]-v1[1]*v2[0],np.dot(v1,v2))
            if not angmod(a,ref): rec('angle ppp2',(p,q,r,a,ref))
            a2=angle(p,r,q)
            if not angmod(a2,-a): rec('angle antisym2',(p,q,r,a,a2))
        else:
            ref=np.arccos(np.clip(np.dot(v1,v2)/np.linalg.norm(v1)/np.linalg.norm(v2),-1,1))
            if not angmod(abs(a),min(ref,np.pi-ref)): rec('angle ppp3',(p,q,r,a,ref))
        # two lines
        l1=Line(p,q); l2=Line(p,r)
        a=angle(l1,l2)
        if d==2:
            if not angmod(a,ref): rec('angle ll2',(p,q,r,a,ref))
        else:
            if not angmod(abs(a),min(ref,np.pi-ref)): rec('angle ll3',(p,q,r,a,ref))
        if d==3:
            e=Plane(*rng.integers(-4,5,size=4))
            nrm=e.array[:3].astype(float)
            if not nrm.any(): continue
            ref=abs(np.dot(nrm,cp)+e.array[3])/np.linalg.norm(nrm)
            x=dist(p,e); y=dist(e,p)
            if not np.isclose(x,ref,atol=1e-7) or not np.isclose(y,ref,atol=1e-7): rec('dist pe',(p,e,x,y,ref))
            f=Plane(*rng.integers(-4,5,size=4))
            n2=f.array[:3].astype(float)
            if not n2.any() or np.linalg.matrix_rank(np.stack([nrm,n2]))<2: continue
            a=angle(e,f)
            ref=np.arccos(np.clip(np.dot(nrm,n2)/np.linalg.norm(nrm)/np.linalg.norm(n2),-1,1))
            if not angmod(abs(np.real(a)),min(ref,np.pi-ref)) or abs(np.imag(a))>1e-7: rec('angle ee',(e,f,a,ref))
            # parallel plane
            f2=e.parallel(q)
            ref=abs(np.dot(nrm,cq)+e.array[3])/np.linalg.norm(nrm)
            if ref>0:
                import sys; sys.setrecursionlimit(200)
                try: x=dist(e,f2)
                except RecursionError: rec('dist ee RECURSION',()); x=ref

                if not np.isclose(x,ref,atol=1e-7): rec('dist ee',(e,f2,x,ref))
                y=ref
                if not np.isclose(y,ref,atol=1e-7): rec('dist ee sym',(e,f2,y,ref))
            # line parallel to plane
            try:
                lpar=Line(q,q+Point(*np.cross(nrm,[1,2,3]).astype(int)))
                x=dist(e,lpar); y=dist(lpar,e)
                if not np.isclose(x,ref,atol=1e-7) or not np.isclose(y,ref,atol=1e-7): rec('dist el',(e,lpar,x,y,ref))
            except LinearDependenceError: pass
        cnt[d]+=1
    except LinearDependenceError: cnt['ld']+=1
    except Exception as e:
        rec('EXC '+traceback.format_exc().splitlines()[-1][:80],traceback.format_exc().splitlines()[-6:])
print(cnt,sum(bad.values()))
for k,v in sorted(bad.items()): print(k,v, ex[k])
