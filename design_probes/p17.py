import numpy as np, collections, traceback, warnings, sys
warnings.simplefilter('ignore')
from geometer import *
from geometer.exceptions import *
rng=np.random.default_rng(17)
bad=collections.Counter(); ex={}; cnt=collections.Counter()
def rec(name,detail): bad[name]+=1; ex.setdefault(name,detail)
def step(name,f):
    try: f(); cnt[name]+=1
    except AssertionError as e: rec(name,e.args)
    except Exception as e: rec('EXC '+name+' '+type(e).__name__,traceback.format_exc().splitlines()[-3:])
def rp(d,k=4): return Point(*rng.integers(-k,k+1,size=d))
def genpos(pts):
    import itertools
    return all(abs(np.linalg.det(np.stack([p.array for p in c])))>0.5 for c in itertools.combinations(pts,3))
for it in range(300):
    pts=[rp(2) for _ in range(5)]
    if genpos(pts):
        def f():
            C=Conic.from_points(*pts)
            for p in pts: assert C.contains(p),('from_points',pts,p)
            assert not C.is_degenerate
            cr=crossratio(*pts)  # a,b,c,d seen from e
            C2=Conic.from_crossratio(cr,*pts[:4])
            assert C2==C,('from_cr',pts)
        step('from_points',f)
        def f():
            l=Line(*rng.integers(-4,5,size=3))
            if any(l.contains(p) for p in pts[:4]): return
            C=Conic.from_tangent(l,*pts[:4])
            for p in pts[:4]: assert C.contains(p),('from_tangent pts',l,pts[:4],C)
            assert C.is_tangent(l),('from_tangent tan',l,pts[:4],C)
        step('from_tangent',f)
    # circle
    c=rp(2); r=float(rng.integers(1,6))/rng.choice([1,2])
    def f():
        C=Circle(c,r)
        for th in rng.uniform(0,2*np.pi,size=3):
            x=Point(c.array[0]+r*np.cos(th),c.array[1]+r*np.sin(th))
            assert C.contains(x)
        assert not C.contains(c)
        assert C.center==c,('center',c,r,C.center)
        assert np.isclose(C.radius,r)
        assert np.isclose(C.area,np.pi*r*r),('area',r,C.area)
    step('circle',f)
    a_,b_=float(rng.integers(1,6)),float(rng.integers(1,6))
    def f():
        E=Ellipse(c,a_,b_)
        for th in rng.uniform(0,2*np.pi,size=3):
            x=Point(c.array[0]+a_*np.cos(th),c.array[1]+b_*np.sin(th))
            assert E.contains(x)
        fo=E.foci
        if a_==b_: 
            assert len(fo)==1 and fo[0]==c
        else:
            e=np.sqrt(abs(a_*a_-b_*b_)); dv=np.array([e,0]) if a_>b_ else np.array([0,e])
            exp=[Point(*(c.array[:2]+dv)),Point(*(c.array[:2]-dv))]
            assert len(fo)==2 and all(any(x==y for y in fo) for x in exp),('foci',c,a_,b_,fo,exp)
            # from_foci
            bound=Point(c.array[0]+a_,c.array[1])
            C=Conic.from_foci(exp[0],exp[1],bound)
            assert C==E,('from_foci',c,a_,b_,C,E)
    step('ellipse',f)
    c3=rp(3)
    def f():
        S=Sphere(c3,r)
        v=rng.normal(size=3); v/=np.linalg.norm(v)
        assert S.contains(Point(*(c3.array[:3]+r*v)))
        assert S.center==c3 and np.isclose(S.radius,r) and np.isclose(S.volume,4/3*np.pi*r**3) and np.isclose(S.area,4*np.pi*r*r)
    step('sphere',f)
    v=rp(3); b=rp(3)
    if np.array_equal(v.array,b.array): continue
    def f():
        K=Cone(v,b,r)
        ax=(b.array[:3]-v.array[:3]).astype(float); h=np.linalg.norm(ax); ax/=h
        # orthonormal u,w
        u=np.cross(ax,[1,0,0]) if abs(ax[0])<0.9 else np.cross(ax,[0,1,0]); u/=np.linalg.norm(u); w=np.cross(ax,u)
        assert K.contains(v),('vertex',v,b,r)
        for th in rng.uniform(0,2*np.pi,size=3):
            for s in (1.0,-0.5,2.0):
                x=v.array[:3]+s*(h*ax+r*(np.cos(th)*u+np.sin(th)*w))
                assert K.contains(Point(*x)),('cone pt',v,b,r,x)
        x=v.array[:3]+h*ax  # axis point not on cone
        assert not K.contains(Point(*x)),('axis',)
    step('cone',f)
    def f():
        d_=b-v  # direction
        Cy=Cylinder(v,Point(*d_.array[:3]),r) if False else Cylinder(v, Point(*(b.array[:3]-v.array[:3])), r)
        ax=(b.array[:3]-v.array[:3]).astype(float); ax/=np.linalg.norm(ax)
        u=np.cross(ax,[1,0,0]) if abs(ax[0])<0.9 else np.cross(ax,[0,1,0]); u/=np.linalg.norm(u); w=np.cross(ax,u)
        for th in rng.uniform(0,2*np.pi,size=3):
            for s in (0,1.5,-2.0):
                x=v.array[:3]+s*ax+r*(np.cos(th)*u+np.sin(th)*w)
                assert Cy.contains(Point(*x)),('cyl pt',v,b,r,x)
        assert not Cy.contains(v)
    step('cylinder',f)
print(sum(cnt.values()),sum(bad.values()))
for k,v in sorted(bad.items()): print(k,v,'/',cnt[k], ex[k])
