"""exact rational reference model"""
from fractions import Fraction as F
import itertools, numpy as np

def rank(rows):
    m=[[F(x) for x in r] for r in rows]
    r=0
    ncols=len(m[0]) if m else 0
    for c in range(ncols):
        piv=None
        for i in range(r,len(m)):
            if m[i][c]!=0: piv=i;break
        if piv is None: continue
        m[r],m[piv]=m[piv],m[r]
        pv=m[r][c]
        m[r]=[x/pv for x in m[r]]
        for i in range(len(m)):
            if i!=r and m[i][c]!=0:
                f=m[i][c]
                m[i]=[a-f*b for a,b in zip(m[i],m[r])]
        r+=1
        if r==len(m): break
    return r

def nullspace(rows):
    """basis of {x: rows x = 0}"""
    m=[[F(x) for x in r] for r in rows]
    ncols=len(m[0])
    r=0; pivs=[]
    for c in range(ncols):
        piv=None
        for i in range(r,len(m)):
            if m[i][c]!=0: piv=i;break
        if piv is None: continue
        m[r],m[piv]=m[piv],m[r]
        pv=m[r][c]
        m[r]=[x/pv for x in m[r]]
        for i in range(len(m)):
            if i!=r and m[i][c]!=0:
                f=m[i][c]
                m[i]=[a-f*b for a,b in zip(m[i],m[r])]
        pivs.append(c); r+=1
        if r==len(m): break
    free=[c for c in range(ncols) if c not in pivs]
    basis=[]
    for fc in free:
        v=[F(0)]*ncols
        v[fc]=F(1)
        for i,pc in enumerate(pivs):
            v[pc]=-m[i][fc]
        basis.append(v)
    return basis
