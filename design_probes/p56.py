import numpy as np, warnings
warnings.simplefilter('ignore')
from geometer import *
rng=np.random.default_rng(110)
def pcl(a,b,tol=1e-6):
    a=np.array(a,complex).ravel(); b=np.array(b,complex).ravel()
    na,nb=np.linalg.norm(a),np.linalg.norm(b)
    return abs(abs(np.vdot(a/na,b/nb))-1)<tol
n=0
for it in range(400):
    shape=(2,2)
    Qm=np.array([np.diag([1.,2,-3])+np.ones((3,3))*k for k in range(4)]).reshape(shape+(3,3))
    A=rng.integers(-3,4,size=shape+(3,)); A[...,2]=1; B=rng.integers(-3,4,size=shape+(3,)); B[...,2]=1
    try: L=join(PointCollection(A),PointCollection(B))
    except Exception: continue
    r=QuadricCollection(Qm).intersect(L)
    for idx in np.ndindex(*shape):
        rs=Conic(Qm[idx]).intersect(join(Point(A[idx]),Point(B[idx])))
        got=[np.array(x.array)[idx] for x in r]
        ok=all(any(pcl(g,y.array) for g in got) for y in rs)
        if not ok:
            n+=1
            if n<4: print(idx, Qm[idx].tolist(), A[idx],B[idx], got, [y.array for y in rs], np.linalg.det(Qm[idx]))
print(n)
