import numpy as np
from geometer import *
l=LineCollection(PointCollection([[0,0,0,1],[1,0,0,1]]),PointCollection([[1,0,0,1],[1,1,0,1]]))
m=LineCollection(PointCollection([[0,0,0,1],[1,0,0,1]]),PointCollection([[0,1,0,1],[1,0,1,1]]))
r=meet(l,m)
print(type(r), r, type(r[0]), r[0]==Point(0,0,0), (r[0]==Point(0,0,0)) is True)
single=meet(Line(Point(0,0,0),Point(1,0,0)),Line(Point(0,0,0),Point(0,1,0)))
print(type(single), r[0]==single, not (r[0]==single))
print(type(r[0]==single))
