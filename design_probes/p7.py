import numpy as np, traceback, collections
from geometer import *
from geometer.shapes import *
rng=np.random.default_rng(5)
def rp(d,k=4): 
    return Point(*rng.integers(-k,k+1,size=d))
def sc(o,s):
    r=o.copy(); r.array=o.array*s; return r
bad=collections.Counter(); ex={}
def rec(name,detail):
    bad[name]+=1; ex.setdefault(name,detail)
scales=[-3,-1,0.5,2,7,-0.25]
N=400
for it in range(N):
    s=rng.choice(scales)
    # polygon contains 2D
    poly=[(0,0),(4,0),(4,4),(2,1),(0,4)]
    P=Polygon(*[Point(*v) for v in poly])
    q=rp(2)
    a=P.contains(q); b=P.contains(sc(q,s))
    if a!=b: rec('Polygon.contains point-scale',(q,s,a,b))
    # scale one vertex
    arr=P.array.astype(float).copy(); i=rng.integers(0,5); arr[i]*=s
    P2=Polygon(arr)
    b=P2.contains(q)
    if a!=b: rec('Polygon.contains vertex-scale',(q,i,s,a,b))
    if not np.isclose(P.area,P2.area): rec('Polygon.area vertex-scale',(i,s,P.area,P2.area))
    T=Triangle(Point(0,0),Point(4,0),Point(0,4)); arr=T.array.astype(float).copy(); arr[i%3]*=s; T2=Triangle(arr)
    a=T.contains(q); b=T2.contains(q); c=T.contains(sc(q,s))
    if a!=b: rec('Triangle.contains vertex-scale',(q,i%3,s,a,b))
    if a!=c: rec('Triangle.contains point-scale',(q,s,a,c))
    S=Segment(Point(0,0),Point(4,4)); arr=S.array.astype(float).copy(); arr[i%2]*=s; S2=Segment(arr)
    q2=Point(*([rng.integers(-1,6)]*2))
    if S.contains(q2)!=S2.contains(q2): rec('Segment.contains vertex-scale',(q2,s))
    if S.contains(q2)!=S.contains(sc(q2,s)): rec('Segment.contains point-scale',(q2,s))
    # dist/angle
    p1,p2,p3=rp(2),rp(2),rp(2)
    if not np.isclose(dist(p1,p2),dist(sc(p1,s),p2)): rec('dist2',(p1,p2,s))
    try:
        a1=angle(p1,p2,p3); a2=angle(sc(p1,s),p2,sc(p3,s))
        if not (np.isclose(a1,a2) or (np.isnan(a1) and np.isnan(a2))): rec('angle2',(p1,p2,p3,s,a1,a2))
    except Exception as e: pass
    p1,p2,p3=rp(3),rp(3),rp(3)
    if not np.isclose(dist(p1,p2),dist(sc(p1,s),p2)): rec('dist3',(p1,p2,s,dist(p1,p2),dist(sc(p1,s),p2)))
    try:
        a1=angle(p1,p2,p3); a2=angle(sc(p1,s),p2,sc(p3,s))
        if not (np.isclose(abs(a1),abs(a2)) or (np.isnan(a1) and np.isnan(a2))): rec('angle3',(p1,p2,p3,s,a1,a2))
    except Exception as e: pass
print(bad)
for k,v in ex.items(): print(k,v)
