import numpy as np, collections, traceback
from geometer import *
rng=np.random.default_rng(13)
bad=collections.Counter(); ex={}; cnt=collections.Counter()
def rec(name,detail): bad[name]+=1; ex.setdefault(name,detail)
def rp(d,k=4): return Point(*rng.integers(-k,k+1,size=d))
for it in range(300):
    try:
        # translation
        for d in (2,3):
            v=rng.integers(-5,6,size=d); p=rp(d)
            r=translation(*v)*p
            if not np.allclose(r.normalized_array[:-1],p.normalized_array[:-1]+v): rec('translation',())
            r=translation(Point(*v))*p
            if not np.allclose(r.normalized_array[:-1],p.normalized_array[:-1]+v): rec('translation pt',())
            sc=rng.integers(-3,4,size=d).astype(float); sc[sc==0]=1.5
            r=scaling(*sc)*p
            if not np.allclose(r.normalized_array[:-1],p.normalized_array[:-1]*sc): rec('scaling',())
        a=rng.uniform(-7,7); b=rng.uniform(-7,7)
        p=rp(2)
        r=(rotation(a)*p).normalized_array
        x,y=p.normalized_array[:2]
        if not np.allclose(r[:2],[np.cos(a)*x-np.sin(a)*y,np.sin(a)*x+np.cos(a)*y]): rec('rot2',())
        if not (rotation(a)*rotation(b)==rotation(a+b)): rec('rot2 add',())
        ax=rng.integers(-3,4,size=3)
        if not ax.any(): continue
        R=rotation(a,axis=Point(*ax))
        M=R.array[:3,:3]
        if not np.allclose(M@M.T,np.eye(3)) or not np.isclose(np.linalg.det(M),1): rec('rot3 orth',())
        if not np.allclose(M@ax,ax): rec('rot3 axis',())
        # angle: trace = 1+2cos a
        if not np.isclose(np.trace(M),1+2*np.cos(a)): rec('rot3 angle',())
        # orientation: right-handed about axis? check sign: for v perp axis, (v x Mv).axis has sign of sin(a)
        v=np.cross(ax,[1,0.3,0.7]); w=M@v
        sgn=np.dot(np.cross(v,w),ax)
        cnt['rot3 sign '+str(np.sign(sgn)==np.sign(np.sin(a)))]+=1
        Rb=rotation(b,axis=Point(*ax))
        if not (R*Rb==rotation(a+b,axis=Point(*ax))): rec('rot3 add',())
        # reflection 2D
        l=Line(*rng.integers(-3,4,size=3))
        if not l.array[:2].any(): continue
        F=reflection(l)
        p=rp(2)
        if not (F*(F*p)==p): rec('refl2 invol',())
        if not (F*p==l.mirror(p)) and not l.contains(p): rec('refl2 mirror',(l,p,F*p,l.mirror(p)))
        bp=l.base_point
        if not (F*bp==bp): rec('refl2 fix',())
        e=Plane(*rng.integers(-3,4,size=4))
        if not e.array[:3].any(): continue
        F=reflection(e); p=rp(3)
        if not (F*(F*p)==p): rec('refl3 invol',())
        if not e.contains(p) and not (F*p==e.mirror(p)): rec('refl3 mirror',(e,p,F*p,e.mirror(p)))
        # fixes plane pointwise
        pr=e.project(p)
        if not (F*pr==pr): rec('refl3 fix',())
        # from_points
        src=[rp(2) for _ in range(4)]; dst=[rp(2) for _ in range(4)]
        T=Transformation.from_points(*zip(src,dst))
        for s_,d_ in zip(src,dst):
            if not (T*s_==d_): rec('from_points2',(src,dst)); break
        src=[rp(3) for _ in range(5)]; dst=[rp(3) for _ in range(5)]
        T=Transformation.from_points(*zip(src,dst))
        for s_,d_ in zip(src,dst):
            if not (T*s_==d_): rec('from_points3',(src,dst)); break
        cnt['n']+=1
    except (np.linalg.LinAlgError,) as e: cnt['linalg']+=1
    except Exception as e:
        rec('EXC '+traceback.format_exc().splitlines()[-1][:80],traceback.format_exc().splitlines()[-4:])
print(cnt,sum(bad.values()))
for k,v in sorted(bad.items()): print(k,v, ex[k])
