import numpy as np, collections, itertools, warnings, traceback
warnings.simplefilter('ignore')
from geometer.utils import *
rng=np.random.default_rng(41)
bad=collections.Counter(); ex={}; cnt=collections.Counter()
def rec(name,detail):
    bad[name]+=1; ex.setdefault(name,[]); 
    if len(ex[name])<4: ex[name].append(detail)
def match(rs,exp,tol=1e-5):
    rs=list(np.atleast_1d(rs)); 
    # every expected root is returned (as a set), and every returned is a root
    for e in exp:
        if not any(abs(r-e)<tol*max(1,abs(e)) for r in rs): return False
    for r in rs:
        if not any(abs(r-e)<tol*max(1,abs(e)) for e in exp): return False
    return True
# roots from chosen roots (incl repeated)
for it in range(3000):
    deg=int(rng.integers(1,4))
    kind=rng.choice(['distinct','double','triple','complex'])
    if kind=='distinct': rs=list(rng.choice(np.arange(-5,6),size=deg,replace=False).astype(float))
    elif kind=='double': 
        a=float(rng.integers(-5,6)); rs=[a,a]+([float(rng.integers(-5,6))] if deg==3 else []); rs=rs[:max(deg,2)]; 
    elif kind=='triple': a=float(rng.integers(-5,6)); rs=[a]*deg
    else:
        if deg<2: continue
        a,b=float(rng.integers(-4,5)),float(rng.integers(1,5)); rs=[a+1j*b,a-1j*b]+([float(rng.integers(-5,6))] if deg==3 else [])
    lead=float(rng.choice([-3,-1,1,2,5]))
    coef=np.real_if_close(lead*np.poly(rs))
    try:
        got=roots(coef)
    except Exception as e: rec('EXC '+kind+' deg%d'%len(rs),(coef.tolist(),repr(e))); continue
    cnt[(kind,len(rs))]+=1
    if not match(got,rs,1e-4): rec(kind+' deg%d'%len(rs),(coef.tolist(),rs,np.asarray(got).tolist()))
print(cnt)
print(sum(bad.values()))
for k,v in bad.items(): print(k,v,ex[k][:2])
