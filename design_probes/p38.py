import numpy as np, collections, itertools, warnings, traceback, sys
warnings.simplefilter('ignore')
import geometer
from geometer import *
from geometer.shapes import *
from geometer.base import *
from geometer.exceptions import *
sys.setrecursionlimit(300)
rng=np.random.default_rng(61)
def scaled(x,s):
    # rebuild object of same class with scaled homogeneous coords (per-object scalar)
    r=x.copy(); r.array=x.array*s
    if isinstance(x,SegmentTensor): r=type(x)(x.array*s) if not isinstance(x,(Segment,)) else Segment(x.array*s)
    elif isinstance(x,Polyhedron): return None
    elif isinstance(x,PolygonTensor):
        try: r=type(x)(x.array*s)
        except Exception: return None
    return r
def pc(a,b,tol=1e-6):
    a=np.asarray(a,complex); b=np.asarray(b,complex)
    if a.shape!=b.shape: return False
    a=a.reshape(-1); b=b.reshape(-1)
    na,nb=np.linalg.norm(a),np.linalg.norm(b)
    if na<1e-12 or nb<1e-12: return na<1e-12 and nb<1e-12
    return abs(abs(np.vdot(a/na,b/nb))-1)<tol
def same(a,b):
    if isinstance(a,Tensor) and isinstance(b,Tensor):
        if type(a)!=type(b): return False
        if isinstance(a,(ProjectiveTensor,)):
            if a.free_indices>0 and not isinstance(a,PolytopeTensor):
                if a.shape!=b.shape: return False
                k=a.free_indices
                A=a.array.reshape((-1,)+a.shape[k:]); B=b.array.reshape((-1,)+b.shape[k:])
                return all(pc(x,y) for x,y in zip(A,B))
            if isinstance(a,PolytopeTensor):
                return bool(a==b)
            return pc(a.array,b.array)
        return np.allclose(a.array,b.array)
    if isinstance(a,(list,tuple)) and isinstance(b,(list,tuple)): return len(a)==len(b) and all(same(x,y) for x,y in zip(a,b))
    try:
        return bool(np.allclose(np.asarray(a,dtype=complex),np.asarray(b,dtype=complex),atol=1e-6,equal_nan=True))
    except Exception: return a==b
def pool(d):
    P=[Point(*rng.integers(-3,4,size=d)) for _ in range(6)]
    o={'p%d'%i:p for i,p in enumerate(P[:3])}
    o['pinf']=Point(list(rng.integers(-3,4,size=d))+[0])
    o['pc']=PointCollection(P[:3])
    o['l']=Line(P[0],P[1]); o['m']=Line(P[0],P[2]); o['lc']=LineCollection(PointCollection(P[:3]),PointCollection(P[3:]))
    o['seg']=Segment(P[0],P[1])
    o['t']=Transformation(np.eye(d+1)+np.triu(np.ones((d+1,d+1)),1))
    if d==2:
        o['poly']=Polygon(Point(0,0),Point(4,0),Point(4,4),Point(2,1),Point(0,4))
        o['tri']=Triangle(Point(0,0),Point(4,0),Point(0,4))
        o['conic']=Conic(np.array([[2.,1,0],[1,3,1],[0,1,-4]]))
    else:
        o['e']=Plane(P[0],P[1],P[2]); o['f']=Plane(P[1],P[2],P[3])
        o['poly']=Polygon(Point(0,0,1),Point(4,0,1),Point(4,4,1),Point(2,1,1),Point(0,4,1))
        o['tri']=Triangle(Point(0,0,1),Point(4,0,1),Point(0,4,2))
        o['quadric']=Quadric(np.diag([1.,2,3,-4])+np.ones((4,4)))
    return o
def catalog(o):
    res=[]
    for n,x in o.items():
        for attr in dir(type(x)):
            if attr.startswith('_') or attr in('copy','array','shape','dtype','T','transpose','tensor_product','expand_dims','from_tensor','from_array','from_points','from_points_and_conics','normalized_array','is_zero'): continue
            a=getattr(type(x),attr,None)
            if isinstance(a,property): res.append((attr,(n,),(lambda x,attr=attr: getattr(x,attr))))
            elif callable(a) and not isinstance(a,type):
                for m,y in o.items():
                    res.append((attr,(n,m),(lambda x,y,attr=attr: getattr(x,attr)(y))))
    for fn in ('join','meet','dist','angle','is_perpendicular','is_coplanar','angle_bisectors'):
        g=getattr(geometer,fn)
        for n,m in itertools.product(o,repeat=2): res.append((fn,(n,m),(lambda x,y,g=g:g(x,y))))
    for n,m in itertools.product(o,repeat=2):
        res.append(('*',(n,m),lambda x,y:x*y)); res.append(('==',(n,m),lambda x,y:x==y))
    return res
viol=collections.Counter(); exv={}; ran=collections.Counter()
for rep in range(6):
  for d in (2,3):
    try: o=pool(d)
    except LinearDependenceError: continue
    for opn,argn,f in catalog(o):
        args=[o[a] for a in argn]
        try: base=f(*args)
        except Exception: continue
        for k in range(len(args)):
            for s in (-1.0,-3.0,0.5,4.0):
                sa=scaled(args[k],s)
                if sa is None: continue
                a2=list(args); a2[k]=sa
                key=(opn,tuple(type(a).__name__ for a in args),k)
                try: r=f(*a2)
                except Exception as e:
                    viol[key+('EXC',)]+=1; exv.setdefault(key+('EXC',),(argn,s,repr(e)[:80])); continue
                ran[key]+=1
                if not same(base,r):
                    viol[key]+=1; exv.setdefault(key,(argn,s,str(base)[:80],str(r)[:80]))
print(sum(ran.values()),len(viol))
for k,v in sorted(viol.items(),key=lambda kv:str(kv[0])): print(k,v,'/',ran.get(k[:3],0),exv[k])
