import numpy as np, collections, traceback, warnings, sys
warnings.simplefilter('ignore')
from fractions import Fraction as F
from geometer import *
from geometer.exceptions import *
rng=np.random.default_rng(16)
bad=collections.Counter(); ex={}; cnt=collections.Counter()
def rec(name,detail): bad[name]+=1; ex.setdefault(name,detail)
def step(name,f):
    try: f(); cnt[name]+=1
    except AssertionError as e: rec(name,e.args)
    except Exception as e: rec('EXC '+name+' '+type(e).__name__,traceback.format_exc().splitlines()[-3:])
def rv(n,k=3):
    while True:
        v=rng.integers(-k,k+1,size=n)
        if v.any(): return v
def crref(x): # params x0..x3, may be None for infinity (point b)
    def df(a,b):
        if a is None and b is None: return 0
        if a is None: return 1   # limit: treat (inf - b) -> 1 with consistent cancellation
        if b is None: return -1
        return a-b
    # use homogeneous params (s,t): point = s*a + t*b ; x = t/s ; inf= (0,1)
    h=[(F(0),F(1)) if v is None else (F(1),F(v)) for v in x]
    d=lambda i,j: h[i][0]*h[j][1]-h[i][1]*h[j][0]
    num=d(0,2)*d(1,3); den=d(0,3)*d(1,2)
    return None if den==0 else num/den
for it in range(600):
  for d in (1,2,3):
    a=rv(d+1); b=rv(d+1)
    if np.linalg.matrix_rank(np.stack([a,b]))<2: continue
    xs=list(rng.choice(np.arange(-4,5),size=4,replace=False)); xs=[int(x) for x in xs]
    if rng.random()<0.3: xs[rng.integers(0,4)]=None
    ref=crref(xs)
    if ref is None: continue
    pts=[Point(b if x is None else a+x*b) for x in xs]
    def f():
        got=crossratio(*pts)
        assert np.isclose(got,float(ref)),(a,b,xs,got,ref)
    step(f'cr pts{d}',f)
    def f():
        A,B,C,D=pts
        v=crossratio(A,B,C,D)
        assert np.isclose(crossratio(B,A,D,C),v) and np.isclose(crossratio(C,D,A,B),v)
        if v!=0: assert np.isclose(crossratio(A,B,D,C),1/v)
        assert np.isclose(crossratio(A,C,B,D),1-v)
    step(f'cr sym{d}',f)
    if d==2:
        o=Point(rv(3))
        if np.linalg.matrix_rank(np.stack([a,b,o.array]))<3: 
            def f():
                try: crossratio(*[Line(o,p) for p in pts]); 
                except (LinearDependenceError,NotConcurrent): pass
            continue
        def f():
            got=crossratio(*pts,o); assert np.isclose(got,float(ref)),('from',a,b,xs,o,got,ref)
        step('cr from_point',f)
        def f():
            ls=[Line(o,p) for p in pts]
            got=crossratio(*ls); assert np.isclose(got,float(ref)),('lines',a,b,xs,o,got,ref,ls)
        step('cr lines2',f)
        def f():
            # harmonic
            dpt=harmonic_set(pts[0],pts[1],pts[2])
            assert join(pts[0],pts[1]).contains(dpt)
            assert np.isclose(crossratio(pts[0],pts[1],pts[2],dpt),-1),(pts,dpt)
        step('harmonic2',f)
    if d==3:
        o1=Point(rv(4)); o2=Point(rv(4))
        if np.linalg.matrix_rank(np.stack([a,b,o1.array,o2.array]))<4: continue
        def f():
            es=[Plane(o1,o2,p) for p in pts]
            got=crossratio(*es); assert np.isclose(got,float(ref)),('planes',a,b,xs,o1,o2,got,ref)
        step('cr planes',f)
        def f():
            ls=[Line(o1,p) for p in pts]
            got=crossratio(*ls); assert np.isclose(got,float(ref)),('lines3',a,b,xs,o1,got,ref)
        step('cr lines3',f)
        def f():
            dpt=harmonic_set(pts[0],pts[1],pts[2])
            assert join(pts[0],pts[1]).contains(dpt)
            assert np.isclose(crossratio(pts[0],pts[1],pts[2],dpt),-1),(pts,dpt)
        step('harmonic3',f)
print(sum(cnt.values()),sum(bad.values()))
for k,v in sorted(bad.items()): print(k,v,'/',cnt[k], ex[k])
