import numpy as np, warnings
warnings.simplefilter('ignore')
from geometer import *
l=Line(3,0,-3); pts=[Point(-2,-4),Point(3,-3),Point(-4,2),Point(4,2)]
C=Conic.from_tangent(l,*pts)
print(C.array, [bool(C.contains(p)) for p in pts], C.is_tangent(l), C.is_degenerate)
# discriminant of restriction
A=C.array
p0=np.array([1,0,1.]); p1=np.array([1,1,1.])  # two points on x=1
a=p1-p0
qa=a@A@a; qb=2*p0@A@a; qc=p0@A@p0
print('disc',qb*qb-4*qa*qc, qa,qb,qc)
print(C.intersect(l))
h=l.array.astype(float); print('dual form', h@np.linalg.inv(A)@h, np.linalg.det(A))
