import numpy as np, collections, traceback, warnings, sys, itertools
warnings.simplefilter('ignore')
from geometer import *
from geometer.exceptions import *
rng=np.random.default_rng(21)
bad=collections.Counter(); ex={}; cnt=collections.Counter()
def rec(name,detail): bad[name]+=1; ex.setdefault(name,detail)
def step(name,f):
    try: f(); cnt[name]+=1
    except AssertionError as e: rec(name,e.args)
    except Exception as e: rec('EXC '+name+' '+type(e).__name__,traceback.format_exc().splitlines()[-3:])
def rp(d,k=4): return Point(*rng.integers(-k,k+1,size=d))
def pc(a,b,tol=1e-6):
    a=np.asarray(a.array,complex); b=np.asarray(b.array,complex)
    a=a/np.linalg.norm(a); b=b/np.linalg.norm(b)
    return abs(abs(np.vdot(a,b))-1)<tol
def genpos(pts):
    return all(abs(np.linalg.det(np.stack([p.array for p in c])))>0.5 for c in itertools.combinations(pts,3))
def onboth(C1,C2,x,tol=1e-6):
    v=np.asarray(x.array,complex); v=v/np.linalg.norm(v)
    return abs(v@C1.array@v)<tol*np.abs(C1.array).max() and abs(v@C2.array@v)<tol*np.abs(C2.array).max()
for it in range(400):
    # two conics through 4 common points: known intersection
    base=[rp(2) for _ in range(4)]
    e1,e2=rp(2),rp(2)
    if not genpos(base+[e1]) or not genpos(base+[e2]): continue
    C1=Conic.from_points(*base,e1); C2=Conic.from_points(*base,e2)
    if C1==C2: continue
    def f():
        res=C1.intersect(C2)
        assert len(res)<=4,('count',len(res))
        for x in res: assert onboth(C1,C2,x),('onboth',base,e1,e2,x)
        for b in base: assert any(pc(b,x) for x in res),('complete',base,e1,e2,res)
    step('4common',f)
    # generic pair: random symmetric matrices
    A=rng.integers(-3,4,size=(3,3)); A=A+A.T; B=rng.integers(-3,4,size=(3,3)); B=B+B.T
    if abs(np.linalg.det(A))<.5 or abs(np.linalg.det(B))<.5: continue
    D1,D2=Conic(A),Conic(B)
    def f():
        res=D1.intersect(D2)
        assert len(res)<=4
        for x in res: assert onboth(D1,D2,x,1e-5),('onboth',A.tolist(),B.tolist(),x)
        # distinctness & count: generic -> 4 distinct
        k=sum(1 for i,x in enumerate(res) if not any(pc(x,y) for y in res[:i]))
        cnt['generic distinct %d'%k]+=1
    step('generic',f)
    # circles
    c1,c2=rp(2),rp(2); r1,r2=float(rng.integers(1,5)),float(rng.integers(1,5))
    if np.array_equal(c1.array,c2.array): continue
    K1,K2=Circle(c1,r1),Circle(c2,r2)
    def f():
        res=K1.intersect(K2)
        assert len(res)<=4
        for x in res: assert onboth(K1,K2,x,1e-5),('onboth circ',c1,r1,c2,r2,x)
        assert any(pc(x,I) for x in res) and any(pc(x,J) for x in res),('IJ',c1,r1,c2,r2,res)
        dd=np.linalg.norm(c1.array[:2]-c2.array[:2])
        nreal=sum(1 for x in res if x.isreal)
        if abs(r1-r2)+1e-6<dd<r1+r2-1e-6: assert nreal==2,('nreal',c1,r1,c2,r2,res)
    step('circles',f)
print(sum(cnt.values()),sum(bad.values()))
print(cnt)
for k,v in sorted(bad.items()): print(k,v,'/',cnt[k], ex[k])
