import numpy as np, warnings
warnings.simplefilter('ignore')
from geometer import *
from geometer.exceptions import *
def t(f):
    try: print(f())
    except Exception as e: print('EXC',type(e).__name__,str(e)[:100])
t(lambda: crossratio(Point(0,0,0),Point(1,0,0),Point(0,1,0),Point(1,1,0)))
t(lambda: crossratio(Point(0,0),Point(1,0),Point(0,1),Point(1,1)))
T=Triangle(Point(0,0,1),Point(4,0,1),Point(0,4,1))
t(lambda: T.contains(Point(1,1,1)))
t(lambda: Polygon.contains(T,Point(1,1,1)))
e=Plane(0,0,1,-1)
print(e.basis_matrix)
f=Plane(0,0,1,-3)
print(dist(e,Point(f.basis_matrix[0,:])), dist(e,Point(f.basis_matrix[1,:])), dist(e,Point(f.basis_matrix[2,:])))
e=Plane(1,2,3,-1); f=Plane(1,2,3,-5)
print(f.basis_matrix)
print([dist(e,Point(r)) for r in f.basis_matrix], 4/np.sqrt(14))
