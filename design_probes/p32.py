import numpy as np, collections, itertools, warnings, traceback
warnings.simplefilter('ignore')
from fractions import Fraction as F
from geometer.utils import *
rng=np.random.default_rng(40)
bad=collections.Counter(); ex={}; cnt=collections.Counter()
def rec(name,detail): bad[name]+=1; ex.setdefault(name,detail)
def exact_det(M):
    M=[[F(int(x)) for x in r] for r in M]; n=len(M); d=F(1)
    for c in range(n):
        p=next((i for i in range(c,n) if M[i][c]!=0),None)
        if p is None: return F(0)
        if p!=c: M[c],M[p]=M[p],M[c]; d=-d
        d*=M[c][c]
        for i in range(c+1,n):
            f=M[i][c]/M[c][c]; M[i]=[a-f*b for a,b in zip(M[i],M[c])]
    return d
for n in range(2,6):
    for batch in [(),(1,),(3,),(63,),(64,),(65,),(2,40),(8,8)]:
        for dtype in ('int','float','complex'):
            A=rng.integers(-4,5,size=batch+(n,n))
            if dtype=='float': A=A.astype(float)
            if dtype=='complex': A=A+1j*rng.integers(-4,5,size=batch+(n,n))
            key=(n,batch,dtype)
            try:
                d=det(A); ref=np.linalg.det(A)
                if d.shape!=ref.shape or not np.allclose(d,ref,atol=1e-6): rec('det',key)
                if dtype!='complex':
                    flat=A.reshape(-1,n,n); df=np.asarray(d).reshape(-1)
                    for M,v in zip(flat[:5],df[:5]):
                        if abs(float(exact_det(M))-v)>1e-6*max(1,abs(v)): rec('det exact',key)
                ad=adjugate(A)
                I=np.eye(n)
                prod=np.matmul(A,ad); exp=np.asarray(ref)[...,None,None]*I
                if ad.shape!=A.shape or not np.allclose(prod,exp,atol=1e-6*max(1,np.abs(exp).max())): rec('adjugate',(key,))
                # inverse on invertible
                if np.all(np.abs(ref)>0.5):
                    iv=inv(A)
                    if not np.allclose(np.matmul(A,iv),np.broadcast_to(I,A.shape),atol=1e-8): rec('inv',key)
                else:
                    try:
                        iv=inv(A); 
                        cnt['inv singular no raise']+=1
                    except np.linalg.LinAlgError: cnt['inv raises']+=1
                cnt['ok']+=1
            except Exception as e:
                rec('EXC '+type(e).__name__,(key,traceback.format_exc().splitlines()[-3:]))
print(cnt,sum(bad.values()))
for k,v in bad.items(): print(k,v,ex[k])
