import sys, time, os
mon=sys.monitoring
TOOL=3
mon.use_tool_id(TOOL,'vmon-reach')
hits=set()
ROOT='/repo/geometer'
def on_line(code,line):
    if code.co_filename.startswith(ROOT): hits.add((code.co_filename[len(ROOT)+1:],code.co_qualname,line))
    return mon.DISABLE
mon.register_callback(TOOL,mon.events.LINE,on_line)
mon.set_events(TOOL,mon.events.LINE)
import numpy as np
from geometer import *
t0=time.time()
for i in range(2000):
    p=Point(i,1,2); q=Point(1,i+1,3); l=join(p,q); e=join(l,Point(0,0,1+i)); e.contains(p)
t1=time.time()-t0
mon.set_events(TOOL,0)
print('with reach',t1,len(hits))
t0=time.time()
for i in range(2000):
    p=Point(i,1,2); q=Point(1,i+1,3); l=join(p,q); e=join(l,Point(0,0,1+i)); e.contains(p)
print('without',time.time()-t0)
fn=sorted({(f,q) for f,q,l in hits})
print(len(fn),fn[:10])
jm=sorted(l for f,q,l in hits if q=='_join_meet_duality'); print(jm)
