import numpy as np, collections, traceback, warnings, sys, itertools
warnings.simplefilter('ignore')
from geometer import *
from geometer.shapes import *
rng=np.random.default_rng(22)
def orient(a,b,c): return (b[0]-a[0])*(c[1]-a[1])-(b[1]-a[1])*(c[0]-a[0])
def onseg(a,b,p): return orient(a,b,p)==0 and min(a[0],b[0])<=p[0]<=max(a[0],b[0]) and min(a[1],b[1])<=p[1]<=max(a[1],b[1])
def inpoly(vs,p):
    n=len(vs)
    for i in range(n):
        if onseg(vs[i],vs[(i+1)%n],p): return True
    # winding/crossing exact
    c=False
    for i in range(n):
        a,b=vs[i],vs[(i+1)%n]
        if (a[1]>p[1])!=(b[1]>p[1]):
            # x of intersection > p.x ?
            # compare p[0] < a[0] + (p[1]-a[1])*(b[0]-a[0])/(b[1]-a[1])
            lhs=(p[0]-a[0])*(b[1]-a[1]); rhs=(p[1]-a[1])*(b[0]-a[0])
            if (b[1]-a[1])>0: 
                if lhs<rhs: c=not c
            else:
                if lhs>rhs: c=not c
    return c
polys={
 'square':[(0,0),(4,0),(4,4),(0,4)],
 'dart':[(0,0),(2,1),(4,0),(2,4)],
 'L':[(0,0),(4,0),(4,2),(2,2),(2,4),(0,4)],
 'tri':[(0,0),(4,1),(1,4)],
 'comb':[(0,0),(6,0),(6,4),(5,4),(5,1),(4,1),(4,4),(3,4),(3,1),(2,1),(2,4),(0,4)],
 'diamond':[(2,0),(4,2),(2,4),(0,2)],
}
bad=collections.Counter(); ex={}
tot=0
for name,vs in polys.items():
    for rot in range(len(vs)):
        for rev in (False,True):
            w=vs[rot:]+vs[:rot]
            if rev: w=w[::-1]
            P=Polygon(*[Point(*v) for v in w])
            pts=[(x,y) for x in range(-1,8) for y in range(-1,6)]
            got=P.contains(PointCollection([Point(*p) for p in pts]))
            for p,g in zip(pts,got):
                tot+=1
                if bool(g)!=inpoly(vs,p):
                    bad[(name,rev)]+=1; ex.setdefault((name,rev),(w,p,bool(g)))
            # single point API
            for p in pts[::7]:
                g=P.contains(Point(*p)); tot+=1
                if bool(g)!=inpoly(vs,p): bad[(name,'single')]+=1; ex.setdefault((name,'single'),(w,p,bool(g)))
            if len(vs)==3:
                T=Triangle(*[Point(*v) for v in w])
                got=T.contains(PointCollection([Point(*p) for p in pts]))
                for p,g in zip(pts,got):
                    tot+=1
                    if bool(g)!=inpoly(vs,p): bad[('Triangle',rev)]+=1; ex.setdefault(('Triangle',rev),(w,p,bool(g)))
print(tot,sum(bad.values()))
for k,v in bad.items(): print(k,v,ex[k])
