import numpy as np, collections, itertools, warnings, traceback
warnings.simplefilter('ignore')
from geometer import *
from geometer.shapes import *
from geometer.exceptions import *
rng=np.random.default_rng(110)
bad=collections.Counter(); ex={}; cnt=collections.Counter()
def rec(name,detail):
    bad[name]+=1; ex.setdefault(name,[]); 
    if len(ex[name])<2: ex[name].append(detail)
def pcl(a,b,tol=1e-6):
    a=np.array(a,complex).ravel(); b=np.array(b,complex).ravel()
    if a.shape!=b.shape: return False
    na,nb=np.linalg.norm(a),np.linalg.norm(b)
    if na<1e-12 or nb<1e-12: return na<1e-12 and nb<1e-12
    return abs(abs(np.vdot(a/na,b/nb))-1)<tol
def cmp_elem(r,idx,rs,kind):
    if kind=='proj': return pcl(np.array(r.array)[idx],rs.array)
    if kind=='num': return np.allclose(np.asarray(r)[idx],rs,atol=1e-7,equal_nan=True)
    if kind=='ang': 
        d=abs((np.asarray(r)[idx]-rs+np.pi/2)%np.pi-np.pi/2); return d<1e-6
    if kind=='angabs':
        d=abs((abs(np.real(np.asarray(r)[idx]))-abs(np.real(rs))+np.pi/2)%np.pi-np.pi/2); return d<1e-6
    if kind=='basis':  # same row space
        A=np.asarray(r)[idx]; B=np.asarray(rs); return np.linalg.matrix_rank(np.vstack([A,B]),tol=1e-7)==np.linalg.matrix_rank(B,tol=1e-7)
    if kind=='projlist': return len(r)==len(rs) and all(any(pcl(np.array(x.array)[idx],y.array) for x in r) for y in rs)
def check(name,op,colls,elems,kind,shape):
    try: r=op(*colls)
    except Exception as e:
        rec('EXC-coll '+name,(shape,repr(e)[:120],traceback.format_exc().splitlines()[-3][:100])); return
    for idx in np.ndindex(*shape):
        try: rs=op(*[e(idx) for e in elems])
        except Exception as e: rec('EXC-single '+name,(repr(e)[:100],)); continue
        try: ok=cmp_elem(r,idx,rs,kind)
        except Exception as e: ok=False; rec('EXC-cmp '+name,(repr(e)[:150],)); continue
        cnt[name]+=1
        if not ok: rec('differ '+name,(shape,idx))
def rv(n,k=3):
    while True:
        v=rng.integers(-k,k+1,size=n)
        if v.any(): return v
for it in range(60):
  for shape in [(2,2),(1,3),(2,1),(1,)]:
    for d in (2,3):
        def arr(): return np.array([np.append(rv(d),1) for _ in range(int(np.prod(shape)))]).reshape(shape+(d+1,))
        A,B,C,D=arr(),arr(),arr(),arr()
        PA,PB,PC,PD=[PointCollection(x) for x in (A,B,C,D)]
        pa=lambda i:Point(A[i]); pb=lambda i:Point(B[i]); pc_=lambda i:Point(C[i]); pd=lambda i:Point(D[i])
        try:
            LAB=join(PA,PB); LAC=join(PA,PC)
        except LinearDependenceError: continue
        lab=lambda i:join(pa(i),pb(i)); lac=lambda i:join(pa(i),pc_(i))
        tag=f'{d}'
        check('join pp'+tag,join,[PA,PB],[pa,pb],'proj',shape)
        check('contains'+tag,lambda l,p:l.contains(p),[LAB,PC],[lab,pc_],'num',shape)
        check('perp off'+tag,lambda l,p:l.perpendicular(p),[LAB,PC],[lab,pc_],'proj',shape)
        check('perp on'+tag,lambda l,p:l.perpendicular(p),[LAB,PA],[lab,pa],'proj',shape)
        check('project'+tag,lambda l,p:l.project(p),[LAB,PC],[lab,pc_],'proj',shape)
        check('mirror'+tag,lambda l,p:l.mirror(p),[LAB,PC],[lab,pc_],'proj',shape)
        check('parallel'+tag,lambda l,p:l.parallel(p),[LAB,PC],[lab,pc_],'proj',shape)
        check('base_point'+tag,lambda l:l.base_point,[LAB],[lab],'proj',shape) if d==2 else None
        check('direction'+tag,lambda l:l.direction,[LAB],[lab],'proj',shape)
        check('basis'+tag,lambda l:l.basis_matrix,[LAB],[lab],'basis',shape)
        check('dist pp'+tag,dist,[PA,PB],[pa,pb],'num',shape)
        check('dist lp'+tag,dist,[LAB,PC],[lab,pc_],'num',shape)
        check('angle ppp'+tag,angle,[PA,PB,PC],[pa,pb,pc_],'ang' if d==2 else 'angabs',shape)
        check('angle ll'+tag,angle,[LAB,LAC],[lab,lac],'ang' if d==2 else 'angabs',shape)
        check('is_perp ll'+tag,is_perpendicular,[LAB,LAC],[lab,lac],'num',shape)
        check('meet ll'+tag,meet,[LAB,LAC],[lab,lac],'proj',shape)
        check('harmonic'+tag,lambda a,b:harmonic_set(a,b,a+(b-a)*3),[PA,PB],[pa,pb],'proj',shape)
        check('seg.contains'+tag,lambda a,b:SegmentCollection(a,b).contains(a+(b-a)*0.5) if isinstance(a,PointCollection) else Segment(a,b).contains(a+(b-a)*0.5),[PA,PB],[pa,pb],'num',shape)
        check('seg.midpoint'+tag,lambda a,b:(SegmentCollection(a,b) if isinstance(a,PointCollection) else Segment(a,b)).midpoint,[PA,PB],[pa,pb],'proj',shape)
        if d==3:
            try: EABC=join(PA,PB,PC)
            except LinearDependenceError: continue
            eabc=lambda i:join(pa(i),pb(i),pc_(i))
            check('join ppp',join,[PA,PB,PC],[pa,pb,pc_],'proj',shape)
            check('join ll3',join,[LAB,LAC],[lab,lac],'proj',shape)
            check('e.project',lambda e,p:e.project(p),[EABC,PD],[eabc,pd],'proj',shape)
            check('e.mirror',lambda e,p:e.mirror(p),[EABC,PD],[eabc,pd],'proj',shape)
            check('e.perp',lambda e,p:e.perpendicular(p),[EABC,PD],[eabc,pd],'proj',shape)
            check('e.basis',lambda e:e.basis_matrix,[EABC],[eabc],'basis',shape)
            check('meet el',meet,[EABC,join(PA,PD)],[eabc,lambda i:join(pa(i),pd(i))],'proj',shape)
            check('dist ep',dist,[EABC,PD],[eabc,pd],'num',shape)
            check('e.general_point',lambda e:e.contains(e.general_point),[EABC],[eabc],'num',shape)
        else:
            check('bisectors',lambda l,m:angle_bisectors(l,m)[0].meet(angle_bisectors(l,m)[1]),[LAB,LAC],[lab,lac],'proj',shape)
            check('is_cocircular',is_cocircular,[PA,PB,PC,PD],[pa,pb,pc_,pd],'num',shape)
            Qm=np.array([np.diag([1.,2,-3])+np.ones((3,3))*k for k in range(int(np.prod(shape)))]).reshape(shape+(3,3))
            QC=QuadricCollection(Qm); q=lambda i:Conic(Qm[i])
            check('q.contains',lambda Q,p:Q.contains(p),[QC,PA],[q,pa],'num',shape)
            check('q.intersect',lambda Q,l:Q.intersect(l),[QC,LAB],[q,lab],'projlist',shape)
            check('q.tangent',lambda Q,p:Q.tangent(p) if isinstance(Q,QuadricCollection) else Line(Q.array.dot(p.array)),[QC,PA],[q,pa],'proj',shape)
print(sum(cnt.values()),sum(bad.values()))
for k,v in sorted(bad.items()): print(k,v,'/',cnt.get(k.split(' ',1)[1],0),ex[k][:1])
