import numpy as np, collections, itertools, warnings
from geometer.base import Tensor
rng=np.random.default_rng(30)
def ref_types(shape,types,index):
    """provenance oracle: returns list of type per result axis using numpy itself on coordinate grids"""
    grids=np.indices(shape)  # grids[k][coords]=coords[k]
    res=[g[index] for g in grids]
    rshape=res[0].shape
    out=[]
    # which index elements are arrays -> we need 'fancy' marking: determine result axes along which >1... use rule:
    # axis r inherits source axis k iff moving along r changes only coordinate k, monotonic with slice semantic, AND r is not produced by an advanced index.
    # Determine advanced-produced axes by re-indexing with a perturbed approach: replace each array index by a same-shape array -> can't know. Use structural approach instead:
    return res,rshape
def struct_ref(shape,types,index):
    # independent structural implementation following numpy docs
    if not isinstance(index,tuple): index=(index,)
    # expand bool arrays
    idx=[]
    for i in index:
        if isinstance(i,(list,np.ndarray)):
            a=np.asarray(i)
            if a.dtype==bool: idx.extend(('adv',x,1) for x in a.nonzero()) if False else idx.append(('bool',a))
            else: idx.append(('adv',a))
        elif i is None: idx.append(('new',))
        elif i is Ellipsis: idx.append(('ell',))
        elif isinstance(i,slice): idx.append(('slice',i))
        else: idx.append(('int',int(i)))
    consumed=sum(1 if k[0] in('adv','slice','int') else (k[1].ndim if k[0]=='bool' else 0) for k in idx)
    if not any(k[0]=='ell' for k in idx): idx.append(('ell',))
    full=[]
    for k in idx:
        if k[0]=='ell': full.extend([('slice',slice(None))]*(len(shape)-consumed))
        else: full.append(k)
    has_array=any(k[0] in('adv','bool') for k in full)
    # walk
    src=0; items=[]  # (kind, srcaxis or None)
    for k in full:
        if k[0]=='new': items.append(('new',None))
        elif k[0]=='slice': items.append(('slice',src)); src+=1
        elif k[0]=='int':
            items.append(('advint' if has_array else 'int',src)); src+=1
        elif k[0]=='adv': items.append(('adv',src,k[1])); src+=1
        elif k[0]=='bool': items.append(('adv',src,k[1])); src+=k[1].ndim
    advpos=[n for n,it in enumerate(items) if it[0] in('adv','advint')]
    out=[]
    if has_array:
        arrs=[ (it[2].nonzero() if it[2].dtype==bool else (it[2],)) if it[0]=='adv' else (np.asarray(shape and 0),) for it in items if it[0] in('adv','advint')]
        flat=[a for t in arrs for a in t]
        bnd=np.broadcast(*flat).ndim
        contiguous = advpos==list(range(advpos[0],advpos[-1]+1))
        if not contiguous:
            out=['coll']*bnd
            for it in items:
                if it[0]=='new': out.append('coll')
                elif it[0]=='slice': out.append(types[it[1]])
        else:
            done=False
            for n,it in enumerate(items):
                if it[0]=='new': out.append('coll')
                elif it[0]=='slice': out.append(types[it[1]])
                elif it[0] in('adv','advint') and not done:
                    out.extend(['coll']*bnd); done=True
    else:
        for it in items:
            if it[0]=='new': out.append('coll')
            elif it[0]=='slice': out.append(types[it[1]])
    return out
def lib_types(t):
    return ['cov' if i in t._covariant_indices else 'con' if i in t._contravariant_indices else 'coll' for i in range(t.rank)]
def rand_index(shape):
    n=len(shape); idx=[]; ax=0
    used_ell=False
    while ax<n:
        c=rng.choice(['int','slice','none','arr','bool','ell','stop'],p=[.2,.25,.1,.15,.1,.1,.1])
        if c=='int': idx.append(int(rng.integers(-shape[ax],shape[ax]))); ax+=1
        elif c=='slice':
            idx.append(slice(None) if rng.random()<.5 else slice(int(rng.integers(0,shape[ax])),None,int(rng.choice([1,2,-1])))); ax+=1
        elif c=='none': idx.append(None)
        elif c=='arr':
            shp=tuple(rng.integers(1,3,size=rng.integers(1,3)))
            idx.append(rng.integers(0,shape[ax],size=shp) if rng.random()<.7 else list(rng.integers(0,shape[ax],size=2))); ax+=1
        elif c=='bool':
            k=1 if rng.random()<.7 or ax+2>n else 2
            idx.append(rng.random(size=shape[ax:ax+k])<.6); ax+=k
        elif c=='ell' and not used_ell:
            idx.append(Ellipsis); used_ell=True; ax=n if rng.random()<.5 else ax+int(rng.integers(0,n-ax+1))
            # after ellipsis, remaining indices apply to last axes: simplify by stopping
            break
        elif c=='stop': break
    return tuple(idx) if len(idx)!=1 or rng.random()<.5 else idx[0]
bad=collections.Counter(); ex={}; n=0; err=0
for it in range(20000):
    r=int(rng.integers(1,5)); shape=tuple(int(x) for x in rng.integers(2,4,size=r))
    nfree=int(rng.integers(0,r)); 
    types=['coll']*nfree+[rng.choice(['cov','con']) for _ in range(r-nfree)]
    t=Tensor(np.arange(np.prod(shape)).reshape(shape),covariant=[i-nfree for i,x in enumerate(types) if x=='cov'],tensor_rank=r-nfree)
    assert lib_types(t)==types,(lib_types(t),types)
    index=rand_index(shape)
    try: expv=t.array[index]
    except Exception as e: err+=1; continue
    try: got=t[index]
    except Exception as e:
        bad['EXC '+type(e).__name__]+=1; ex.setdefault('EXC '+type(e).__name__,(shape,types,index,repr(e))); continue
    n+=1
    if isinstance(expv,np.generic):
        if not isinstance(got,np.generic) or got!=expv: bad['scalar']+=1
        continue
    if not np.array_equal(got.array,expv): bad['value']+=1; ex.setdefault('value',(shape,index)); continue
    try: et=struct_ref(shape,types,index)
    except Exception as e: bad['REFEXC']+=1; ex.setdefault('REFEXC',(shape,types,index,repr(e))); continue
    if len(et)!=expv.ndim: bad['REFBUG']+=1; ex.setdefault('REFBUG',(shape,types,index,et,expv.shape)); continue
    if lib_types(got)!=et: 
        key='types'; bad[key]+=1; ex.setdefault(key,[]); 
        if len(ex[key])<6: ex[key].append((shape,types,index,lib_types(got),et))
print(n,err,sum(bad.values()))
for k,v in bad.items(): print(k,v,ex.get(k))
print('---- classify')
def feats(index):
    if not isinstance(index,tuple): index=(index,)
    has_arr=any(isinstance(i,(list,np.ndarray)) for i in index)
    has_int=any(isinstance(i,(int,np.integer)) and not isinstance(i,bool) for i in index)
    mbool=any(isinstance(i,np.ndarray) and i.dtype==bool and i.ndim>1 for i in index)
    narr=sum(isinstance(i,(list,np.ndarray)) for i in index)
    return (has_arr and has_int, mbool, narr)
cls=collections.Counter(); tot=collections.Counter()
rng=np.random.default_rng(31)
exs={}
for it in range(40000):
    r=int(rng.integers(1,5)); shape=tuple(int(x) for x in rng.integers(2,4,size=r))
    nfree=int(rng.integers(0,r)); 
    types=['coll']*nfree+[rng.choice(['cov','con']) for _ in range(r-nfree)]
    t=Tensor(np.arange(np.prod(shape)).reshape(shape),covariant=[i-nfree for i,x in enumerate(types) if x=='cov'],tensor_rank=r-nfree)
    index=rand_index(shape)
    try: expv=t.array[index]
    except Exception as e: continue
    f=feats(index); tot[f]+=1
    try: got=t[index]
    except Exception as e: cls[(f,'EXC')]+=1; exs.setdefault((f,'EXC'),(shape,types,index)); continue
    if isinstance(expv,np.generic): continue
    et=struct_ref(shape,types,index)
    if lib_types(got)!=et: cls[(f,'types')]+=1; exs.setdefault((f,'types'),(shape,types,index,lib_types(got),et))
for k in sorted(tot): print(k,tot[k],cls.get((k,'types'),0),cls.get((k,'EXC'),0), exs.get((k,'types')) if not k[0] and not k[1] else '')
