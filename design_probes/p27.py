import numpy as np, collections, traceback, warnings, sys, itertools
from fractions import Fraction as F
warnings.simplefilter('ignore')
from geometer import *
from geometer.shapes import *
rng=np.random.default_rng(24)
bad=collections.Counter(); ex={}; cnt=collections.Counter()
def rec(name,detail): bad[name]+=1; ex.setdefault(name,detail)
def frpt(g): return tuple(F(float(np.real(x))).limit_denominator(10000) for x in g.normalized_array[:-1])
# 2D convex polygon & line: expected = boundary points = union over edges of (edge ∩ line) when line not containing edge
def line_seg(p,q,a,b):
    # line through p,q (ints) ; segment a,b ; returns point or None or 'overlap'
    def orient(a,b,c): return (b[0]-a[0])*(c[1]-a[1])-(b[1]-a[1])*(c[0]-a[0])
    da,db=orient(p,q,a),orient(p,q,b)
    if da==0 and db==0: return 'overlap'
    if (da>0 and db>0) or (da<0 and db<0): return None
    t=F(da,da-db); return (a[0]+t*(b[0]-a[0]),a[1]+t*(b[1]-a[1]))
polys={'square':[(0,0),(4,0),(4,4),(0,4)],'dart':[(0,0),(2,1),(4,0),(2,4)],'tri':[(0,0),(4,1),(1,4)],'pent':[(0,0),(3,0),(4,2),(1,4),(-1,2)]}
for name,vs in polys.items():
    P=Polygon(*[Point(*v) for v in vs])
    for it in range(600):
        p=tuple(int(x) for x in rng.integers(-2,6,size=2)); q=tuple(int(x) for x in rng.integers(-2,6,size=2))
        if p==q: continue
        exp=set(); ov=False
        for i in range(len(vs)):
            r=line_seg(p,q,vs[i],vs[(i+1)%len(vs)])
            if r=='overlap': ov=True
            elif r is not None: exp.add(r)
        try:
            got=P.intersect(Line(Point(*p),Point(*q)))
        except Exception as e:
            rec('EXC poly2 line '+type(e).__name__,(name,p,q,traceback.format_exc().splitlines()[-3:])); continue
        cnt['poly2 line'+(' ov' if ov else '')]+=1
        gs=[frpt(g) for g in got]
        if len(gs)!=len(set(gs)): rec('dup poly2 line',(name,p,q,got))
        if set(gs)!=exp: rec('poly2 line'+(' ov' if ov else ''),(name,p,q,sorted(exp),got))
print(cnt,sum(bad.values()))
for k,v in bad.items(): print(k,v,ex[k])
