import numpy as np, collections, traceback, warnings, sys, itertools
from fractions import Fraction as F
warnings.simplefilter('ignore')
from geometer import *
from geometer.shapes import *
rng=np.random.default_rng(25)
bad=collections.Counter(); ex={}; cnt=collections.Counter()
def rec(name,detail): bad[name]+=1; ex.setdefault(name,detail)
def frpt(g): return tuple(F(float(np.real(x))).limit_denominator(10000) for x in g.normalized_array[:-1])
# Cuboid [0,a]x[0,b]x[0,c] and line through integer points: exact slab clipping
A,B,C=2,3,4
cube=Cuboid(Point(0,0,0),Point(A,0,0),Point(0,B,0),Point(0,0,C))
def clip(p,d,seg=False):
    # line p + t d ; returns list of boundary hit points (entry & exit) of box, or [] ; seg: t in [0,1]
    lo,hi=(F(-10**9),F(10**9)) if not seg else (F(0),F(1))
    t0,t1=lo,hi
    for i,m in enumerate((A,B,C)):
        if d[i]==0:
            if p[i]<0 or p[i]>m: return None
        else:
            ta,tb=F(0-p[i],d[i]),F(m-p[i],d[i])
            if ta>tb: ta,tb=tb,ta
            t0=max(t0,ta); t1=min(t1,tb)
    if t0>t1: return None
    return t0,t1
for it in range(1500):
    p=tuple(int(x) for x in rng.integers(-2,6,size=3)); q=tuple(int(x) for x in rng.integers(-2,6,size=3))
    if p==q: continue
    d=tuple(b-a for a,b in zip(p,q))
    for seg in (False,True):
        r=clip(p,d,seg)
        # expected boundary points: points of the line/segment on the surface. If line lies in a face plane -> overlap (skip)
        inface=any(d[i]==0 and p[i] in (0,m) for i,m in enumerate((A,B,C)))
        if inface: cnt['inface skipped']+=1; continue
        exp=set()
        if r is not None:
            t0,t1=r
            for t in (t0,t1):
                x=tuple(p[i]+t*d[i] for i in range(3))
                # on the surface?
                if any(x[i] in (0,m) for i,m in enumerate((A,B,C))): exp.add(x)
        try:
            obj=Segment(Point(*p),Point(*q)) if seg else Line(Point(*p),Point(*q))
            got=cube.intersect(obj)
        except Exception as e:
            rec('EXC cube '+('seg' if seg else 'line')+' '+type(e).__name__,(p,q,traceback.format_exc().splitlines()[-3:])); continue
        cnt['cube '+('seg' if seg else 'line')]+=1
        gs=[frpt(g) for g in got]
        if len(gs)!=len(set(gs)): rec('dup cube',(p,q,seg,got))
        if set(gs)!=exp: rec('cube '+('seg' if seg else 'line'),(p,q,sorted(exp),got))
print(cnt,sum(bad.values()))
for k,v in bad.items(): print(k,v,ex[k])
