import sys; sys.path.insert(0,'/tmp/scratch/deps')
import icontract, numpy as np, threading
class InvariantBroken(Exception): pass
STATE=threading.local()
CNT={'struct':0,'seg':0,'poly':0,'fired':[]}
def install():
    import geometer
    from geometer.base import Tensor
    from geometer.shapes import SegmentTensor, PolygonTensor
    def index_sets_ok(self):
        d=self.__dict__
        if 'array' not in d or '_covariant_indices' not in d or '_contravariant_indices' not in d: return True
        CNT['struct']+=1
        cov,con=d['_covariant_indices'],d['_contravariant_indices']
        r=d['array'].ndim
        if cov & con: return False
        if not all(0<=i<r for i in cov|con): return False
        nfree=r-len(cov)-len(con)
        return all(i>=nfree for i in cov|con)
    def line_supports_vertices(self):
        d=self.__dict__
        if '_line' not in d or 'array' not in d: return True
        if getattr(STATE,'busy',False): return True
        STATE.busy=True
        try:
            CNT['seg']+=1
            L=np.array(d['_line'].array); V=np.array(d['array'])
            if V.ndim<2 or V.shape[-2]!=2: return True
            if L.ndim>=2 and L.shape[-1]==L.shape[-2] and V.shape[-1]==4:
                # 3D contravariant line: L @ v == 0
                r=np.einsum('...ij,...kj->...ki',L,V) if d['_line'].tensor_shape==(0,2) else None
                if r is None: return True
            else:
                r=np.einsum('...j,...kj->...k',L,V)
            scale=np.abs(L).max()*np.abs(V).max()+1e-300
            return bool(np.all(np.abs(r)<=1e-7*scale)) 
        except Exception as e:
            CNT['fired'].append(('segERR',repr(e))); return True
        finally: STATE.busy=False
    def plane_supports_vertices(self):
        d=self.__dict__
        if '_plane' not in d or d['_plane'] is None or 'array' not in d: return True
        CNT['poly']+=1
        try:
            E=np.array(d['_plane'].array); V=np.array(d['array'])
            r=np.einsum('...j,...kj->...k',E,V)
            scale=np.abs(E).max()*np.abs(V).max()+1e-300
            return bool(np.all(np.abs(r)<=1e-7*scale))
        except Exception as e:
            CNT['fired'].append(('polyERR',repr(e))); return True
    seen=set()
    def walk(c):
        if c in seen: return
        seen.add(c)
        for s in c.__subclasses__(): walk(s)
    walk(Tensor)
    # decorate base first
    order=sorted(seen,key=lambda c:len(c.__mro__))
    for c in order:
        if not c.__module__.startswith('geometer'): continue
        try:
            icontract.invariant(index_sets_ok,error=InvariantBroken)(c)
            if issubclass(c,SegmentTensor): icontract.invariant(line_supports_vertices,error=InvariantBroken)(c)
            if issubclass(c,PolygonTensor): icontract.invariant(plane_supports_vertices,error=InvariantBroken)(c)
        except Exception as e:
            CNT['fired'].append(('decorate',c.__name__,repr(e)[:200]))
    print('vplug: decorated',len(order),'classes')
def pytest_configure(config): install()
def pytest_unconfigure(config):
    print('\nvplug counters',{k:(v if k!='fired' else v[:5]) for k,v in CNT.items()})
