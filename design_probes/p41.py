import numpy as np, warnings
warnings.simplefilter('ignore')
from geometer import *
from geometer.exceptions import *
def t(f):
    try: print(f())
    except Exception as e: print('EXC',type(e).__name__,str(e)[:100])
sq=Rectangle(Point(0,0),Point(4,0),Point(4,4),Point(0,4))
t(lambda: (sq.contains(Point(1,2)), dist(Point(1,2),sq), dist(sq,Point(1,2))))
sq3=Rectangle(Point(0,0,1),Point(4,0,1),Point(4,4,1),Point(0,4,1))
t(lambda: (sq3.contains(Point(1,2,1)), dist(Point(1,2,1),sq3), dist(Point(1,2,3),sq3), dist(Point(-3,2,5),sq3)))
cube=Cuboid(Point(0,0,0),Point(2,0,0),Point(0,2,0),Point(0,0,2))
t(lambda: (dist(Point(1,1,1),cube), dist(Point(1,1,0.5),cube), dist(Point(3,1,1),cube)))
t(lambda: (dist(Point(1,2),Point([1,1,0])), dist(Point([1,1,0]),Point(1,2)), dist(Point([1,1,0]),Point([1,2,0])), dist(Point([1,1,0]),Point([2,2,0]))))
t(lambda: (dist(Point(1,2,3),Point([1,1,0,0])), dist(Point([1,1,1,0]),Point(1,2,3)), dist(Point([1,1,0,0]),Point([1,2,0,0]))))
t(lambda: dist(Line(Point(0,0),Point(1,1)),Line(Point(0,1),Point(1,2))))
t(lambda: dist(Line(Point(0,0,0),Point(1,1,0)),Line(Point(0,1,0),Point(1,2,0))))
t(lambda: dist(Segment(Point(0,0),Point(1,1)),Point(2,2)))
t(lambda: dist(Point(5,5),Segment(Point(0,0),Point(1,1))))
