import numpy as np, collections, traceback, warnings, itertools
from fractions import Fraction as F
warnings.simplefilter('ignore')
from geometer import *
from geometer.shapes import *
rng=np.random.default_rng(71)
bad=collections.Counter(); ex={}; cnt=collections.Counter()
def rec(name,detail):
    bad[name]+=1; ex.setdefault(name,[]); 
    if len(ex[name])<3: ex[name].append(detail)
# rays: a finite, direction d (inf endpoint): contains p iff p = a + t d, t>=0  (or p == d at inf)
for it in range(2000):
    d_=int(rng.choice([2,3]))
    a=rng.integers(-3,4,size=d_); dv=rng.integers(-2,3,size=d_)
    if not dv.any(): continue
    order=rng.random()<0.5
    A=Point(*a); D=Point(list(dv)+[0])
    S=Segment(A,D) if order else Segment(D,A)
    t=int(rng.integers(-3,4)); off=rng.random()<0.3
    p=a+t*dv
    if off:
        p=p+ (np.array([-dv[1],dv[0]]+[0]*(d_-2)) if (dv[:2].any()) else np.array([1]+[0]*(d_-1)))
    exp=(t>=0) and not off
    try:
        got=bool(S.contains(Point(*p)))
    except Exception as e: rec('EXC ray',(a,dv,p,repr(e))); continue
    cnt['ray%d'%d_]+=1
    if got!=exp: rec('ray%d order%d'%(d_,order),(a.tolist(),dv.tolist(),p.tolist(),t,off,got))
    # the infinite endpoint itself and the opposite direction
    if not bool(S.contains(D)): rec('ray inf endpoint',(a,dv))
    g=bool(S.contains(Point(list(-dv)+[0])))
    cnt['ray -d']+=1
    # -d is the same projective point as d -> must be True
    if not g: rec('ray inf endpoint negated',(a.tolist(),dv.tolist()))
    # other infinite point
    od=np.roll(dv,1).copy(); od[0]+=1
    if np.linalg.matrix_rank(np.stack([dv,od]))==2:
        if bool(S.contains(Point(list(od)+[0]))): rec('ray other inf',(a,dv,od))
# 3D finite segments
for it in range(2000):
    a=rng.integers(-3,4,size=3); b=rng.integers(-3,4,size=3)
    if np.array_equal(a,b): continue
    S=Segment(Point(*a),Point(*b))
    num=int(rng.integers(-2,7)); t=F(num,4)
    p=[F(int(a[i]))+t*(int(b[i])-int(a[i])) for i in range(3)]
    got=bool(S.contains(Point(*[float(x) for x in p])))
    cnt['seg3']+=1
    if got!=(0<=t<=1): rec('seg3',(a.tolist(),b.tolist(),t,got))
print(cnt,sum(bad.values()))
for k,v in bad.items(): print(k,v,ex[k][:2])
