import numpy as np, collections, itertools, warnings, traceback
warnings.simplefilter('ignore')
from geometer import *
from geometer.shapes import *
from geometer.curve import QuadricTensor
from geometer.exceptions import *
rng=np.random.default_rng(51)
bad=collections.Counter(); ex={}; cnt=collections.Counter()
def rec(name,detail):
    bad[name]+=1; ex.setdefault(name,[]); 
    if len(ex[name])<3: ex[name].append(detail)
def rv(n,k=3):
    while True:
        v=rng.integers(-k,k+1,size=n)
        if v.any(): return v
def pc(a,b,tol=1e-6):
    a=np.asarray(a.array,complex).ravel(); b=np.asarray(b.array,complex).ravel()
    a=a/np.linalg.norm(a); b=b/np.linalg.norm(b)
    return abs(abs(np.vdot(a,b))-1)<tol
def same(a,b):
    if isinstance(a,np.ndarray) or np.isscalar(a) or isinstance(a,np.generic):
        return np.allclose(a,b,atol=1e-7,equal_nan=True)
    if isinstance(a,(list,tuple)): return len(a)==len(b) and all(same(x,y) for x,y in zip(a,b))
    return pc(a,b)
def step(name,f):
    try: f(); cnt[name]+=1
    except AssertionError as e: rec(name,e.args)
    except Exception as e: rec('EXC '+name+' '+type(e).__name__,traceback.format_exc().splitlines()[-3:])
N=3
for it in range(100):
  for d in (2,3):
    Qs=[]
    for i in range(N):
        A=rng.integers(-3,4,size=(d+1,d+1)); A=A+A.T
        while abs(np.linalg.det(A))<.5: A=rng.integers(-3,4,size=(d+1,d+1)); A=A+A.T
        Qs.append(Quadric(A))
    QC=QuadricCollection(Qs)
    Ps=[Point(*rv(d)) for _ in range(N)]; Rs=[Point(*rv(d)) for _ in range(N)]
    try: Ls=[Line(p,r) for p,r in zip(Ps,Rs)]
    except LinearDependenceError: continue
    PCo=PointCollection(Ps); LC=LineCollection(PCo,PointCollection(Rs))
    def f():
        r=QC.contains(PCo); 
        for i in range(N): assert bool(r[i])==bool(Qs[i].contains(Ps[i]))
        r=QC.contains(Ps[0])
        for i in range(N): assert bool(r[i])==bool(Qs[i].contains(Ps[0]))
    step(f'q.contains{d}',f)
    def f():
        r=QC.intersect(LC)
        for i in range(N):
            s=Qs[i].intersect(Ls[i])
            got=[x[i] for x in r]
            assert all(any(pc(u,v) for v in got) for u in s) and all(any(pc(u,v) for v in s) for u in got),('coll',i,got,s)
        r=QC.intersect(Ls[0])
        for i in range(N):
            s=Qs[i].intersect(Ls[0]); got=[x[i] for x in r]
            assert all(any(pc(u,v) for v in got) for u in s) and all(any(pc(u,v) for v in s) for u in got),('bl',i,got,s)
        r=Qs[0].intersect(LC)
        for i in range(N):
            s=Qs[0].intersect(Ls[i]); got=[x[i] for x in r]
            assert all(any(pc(u,v) for v in got) for u in s) and all(any(pc(u,v) for v in s) for u in got),('bq',i,got,s)
    step(f'q.intersect{d}',f)
    def f():
        r=QC.tangent(PCo)
        for i in range(N): assert pc(r[i],Qs[i].tangent(Ps[i])) if d==3 else pc(r[i],QuadricTensor.tangent(Qs[i],Ps[i]))
        dd=QC.dual
        for i in range(N): assert dd[i]==Qs[i].dual, 'dual'
        assert dd.is_dual
        r=QC.is_degenerate
        for i in range(N): assert bool(r[i])==bool(Qs[i].is_degenerate)
    step(f'q.tangent{d}',f)
    if d==2:
        def f():
            g=[Line(rv(3)) for _ in range(N)]; h=[Line(rv(3)) for _ in range(N)]
            if any(a==b for a,b in zip(g,h)): return
            Cs=[Conic.from_lines(a,b) for a,b in zip(g,h)]
            comp=QuadricCollection(Cs).components
            for i in range(N):
                a,b=comp[0][i],comp[1][i]
                assert (a==g[i] and b==h[i]) or (a==h[i] and b==g[i]),('comp',g[i],h[i],a,b)
        step('q.components2',f)
    # transformations
    def f():
        Ts=[]
        for i in range(N):
            M=rng.integers(-3,4,size=(d+1,d+1))
            while abs(np.linalg.det(M))<.5: M=rng.integers(-3,4,size=(d+1,d+1))
            Ts.append(Transformation(M))
        TC=TransformationCollection(Ts)
        r=TC*PCo
        for i in range(N): assert r[i]==Ts[i]*Ps[i]
        r=TC*LC
        for i in range(N): assert r[i]==Ts[i]*Ls[i]
        r=TC*Ps[0]
        for i in range(N): assert r[i]==Ts[i]*Ps[0]
        r=Ts[0]*PCo
        for i in range(N): assert r[i]==Ts[0]*Ps[i]
        r=TC*QC
        for i in range(N): assert r[i]==Ts[i]*Qs[i],'tq'
        r=TC*TC
        for i in range(N): assert r[i]==Ts[i]*Ts[i]
        r=TC.inverse()
        for i in range(N): assert r[i]==Ts[i].inverse()
        for k in (-2,0,1,3):
            r=TC**k
            for i in range(N): assert r[i]==Ts[i]**k,('pow',k)
    step(f'transform{d}',f)
    def f():
        SC=SegmentCollection(PCo,PointCollection(Rs)); Ss=[Segment(p,r) for p,r in zip(Ps,Rs)]
        X=PointCollection([p+(r-p)*float(rng.choice([-0.5,0,0.5,1,1.5])) for p,r in zip(Ps,Rs)])
        r=SC.contains(X)
        for i in range(N): assert bool(r[i])==bool(Ss[i].contains(X[i])),'contains'
        r=SC.midpoint
        for i in range(N): assert r[i]==Ss[i].midpoint,'mid'
        r=SC.length
        for i in range(N): assert np.isclose(r[i],Ss[i].length)
        r=SC.contains(X[0])
        for i in range(N): assert bool(r[i])==bool(Ss[i].contains(X[0])),'contains bcast'
    step(f'segment{d}',f)
print(sum(cnt.values()),sum(bad.values()))
for k,v in sorted(bad.items()): print(k,v,ex[k][:1])
