import numpy as np, warnings
warnings.simplefilter('ignore')
from geometer import *
A=np.array([[1.0, 0.0, 1.0], [0.0, 1.0, 1.0], [1.0, 1.0, 1.0]])
Q=Conic(A)
l=join(Point([0.,0,1]),Point([-2.,1,0]))
print(l, Q.is_degenerate)
res=Q.intersect(l)
for x in res:
    v=x.array; print(x.array, v@A@v, l.array@v, Q.contains(x), l.contains(x))
Q=Circle(Point(-1,-1),1); print(Q.array/Q.array[0,0])
res=Q.intersect(l)
for x in res:
    v=x.array; print(x.array, v@Q.array@v, l.array@v, Q.contains(x), l.contains(x))
