import numpy as np, warnings, itertools, traceback
warnings.simplefilter('ignore')
from geometer import *
def t(c,a,b,th):
    E=Ellipse(Point(*c),a,b)
    e=np.sqrt(abs(a*a-b*b)); dv=np.array([e,0]) if a>b else np.array([0,e])
    exp=[Point(*(np.array(c)+dv)),Point(*(np.array(c)-dv))]
    bound=Point(c[0]+a*np.cos(th),c[1]+b*np.sin(th))
    try:
        C=Conic.from_foci(exp[0],exp[1],bound)
        okc=(C==E)
        if not okc: okc=(bool(C.contains(bound)), C.is_degenerate, np.round(C.array/np.abs(C.array).max(),3).tolist())
    except Exception as ex: okc='EXC '+repr(ex)
    return okc
for c in [(0,0),(0,1),(2,2),(1,-1)]:
    for a,b in [(2,3),(3,2)]:
        print(c,a,b,[t(c,a,b,th) for th in (0,np.pi/2,1.0,4.0)])
