import numpy as np, warnings, itertools
warnings.simplefilter('ignore')
from geometer import *
def cone_ok(v,b,r):
    K=Cone(Point(*v),Point(*b),r)
    v=np.array(v,float); b=np.array(b,float)
    ax=b-v; h=np.linalg.norm(ax); ax/=h
    u=np.cross(ax,[1,0,0]) if abs(ax[0])<0.9 else np.cross(ax,[0,1,0]); u/=np.linalg.norm(u); w=np.cross(ax,u)
    ok=True
    for th in (0.3,1.7,4.0):
        x=v+(h*ax+r*(np.cos(th)*u+np.sin(th)*w))
        ok&=bool(K.contains(Point(*x)))
    return ok
res={}
for d in itertools.product([-1,0,1],repeat=3):
    if not any(d): continue
    res[d]=cone_ok((0,0,0),d,1.0)
print({k:v for k,v in res.items() if not v})
print(sum(res.values()),len(res))
res2={}
for d in itertools.product([-2,-1,1,2],repeat=3):
    res2[d]=cone_ok((1,2,3),tuple(np.add((1,2,3),d)),2.0)
print([k for k,v in res2.items() if not v][:20], sum(res2.values()),len(res2))
