import numpy as np, collections, warnings, itertools
warnings.simplefilter('ignore')
from geometer import *
from geometer.exceptions import *
# 4 lines through vertex o with slopes; expected cr from slopes
def test(o,dirs):
    ls=[Line(Point(*o),Point(*o)+Point(*d)) for d in dirs]
    # expected: cross ratio of direction params: use dets
    D=lambda u,v:u[0]*v[1]-u[1]*v[0]
    a,b,c,d=dirs
    ref=D(a,c)*D(b,d)/(D(a,d)*D(b,c))
    try: got=crossratio(*ls)
    except Exception as e: got=repr(e)
    return ref,got,[l.base_point for l in ls]
dirs=[(1,0),(1,1),(1,2),(1,-3)]
for o in [(0,0),(0,-3),(2,0),(1,1),(3,-2),(0,5)]:
    print(o,test(o,dirs)[:2])
dirs=[(0,1),(1,1),(1,2),(1,-3)]
for o in [(0,0),(0,-3),(2,0),(1,1),(3,-2),(0,5)]:
    print(o,test(o,dirs)[:2])
dirs=[(2,1),(1,1),(1,2),(1,-3)]
for o in [(0,0),(0,-3),(2,0),(1,1),(3,-2),(0,5)]:
    r=test(o,dirs); print(o,r[:2])
