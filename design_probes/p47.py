import numpy as np, collections, itertools, warnings, traceback, string
warnings.simplefilter('ignore')
from geometer.base import *
from geometer.exceptions import *
rng=np.random.default_rng(80)
bad=collections.Counter(); ex={}; cnt=collections.Counter()
def rec(name,detail):
    bad[name]+=1; ex.setdefault(name,[]); 
    if len(ex[name])<3: ex[name].append(detail)
def types(t): return ['cov' if i in t._covariant_indices else 'con' if i in t._contravariant_indices else 'coll' for i in range(t.rank)]
def mk(shape,tp):
    nfree=sum(1 for x in tp if x=='coll')
    return Tensor(rng.integers(-3,4,size=shape),covariant=[i-nfree for i,x in enumerate(tp) if x=='cov'],tensor_rank=len(shape)-nfree)
# transpose
for it in range(2000):
    r=int(rng.integers(1,5)); nfree=int(rng.integers(0,r)); d=int(rng.integers(2,4))
    shape=tuple(int(x) for x in rng.integers(2,4,size=nfree))+(d,)*(r-nfree)
    tp=['coll']*nfree+[str(rng.choice(['cov','con'])) for _ in range(r-nfree)]
    t=mk(shape,tp); assert types(t)==tp
    # default transpose
    tt=t.transpose(); perm=list(range(nfree))+list(reversed(range(nfree,r)))
    if not np.array_equal(tt.array,t.array.transpose(perm)) or types(tt)!=[tp[j] for j in perm]: rec('transpose default',(tp,types(tt)))
    if not np.array_equal(t.T.array,tt.array): rec('T',())
    # full perm of tensor axes
    p2=list(range(nfree))+list(nfree+rng.permutation(r-nfree))
    tt=t.transpose(p2)
    if not np.array_equal(tt.array,t.array.transpose(p2)) or types(tt)!=[tp[j] for j in p2]: rec('transpose perm',(tp,p2,types(tt)))
    cnt['transpose']+=1
    # copy
    c=t.copy()
    if types(c)!=tp or c.array is not t.array or type(c)!=type(t): rec('copy',())
    # tensor_product (no free)
    if nfree==0:
        r2=int(rng.integers(1,3)); tp2=[str(rng.choice(['cov','con'])) for _ in range(r2)]; u=mk((d,)*r2,tp2)
        tp_=t.tensor_product(u)
        cov1=[i for i,x in enumerate(tp) if x=='cov']; con1=[i for i,x in enumerate(tp) if x=='con']
        cov2=[i for i,x in enumerate(tp2) if x=='cov']; con2=[i for i,x in enumerate(tp2) if x=='con']
        la=string.ascii_lowercase[:r]; lb=string.ascii_lowercase[r:r+r2]
        out=''.join(la[i] for i in cov1)+''.join(lb[i] for i in cov2)+''.join(la[i] for i in con1)+''.join(lb[i] for i in con2)
        ref=np.einsum(f'{la},{lb}->{out}',t.array,u.array)
        if not np.array_equal(tp_.array,ref) or tp_.tensor_shape!=(len(cov1)+len(cov2),len(con1)+len(con2)) or types(tp_)!=['cov']*(len(cov1)+len(cov2))+['con']*(len(con1)+len(con2)): rec('tensor_product',(tp,tp2))
        cnt['tp']+=1
    # expand_dims on collection
    if nfree>0:
        tc=TensorCollection(t,copy=False); 
        for ax in range(-r-1,nfree+1):
            try:
                e=tc.expand_dims(ax)
            except ValueError: 
                cnt['expand ValueError']+=1; continue
            axp=ax if ax>=0 else ax+r+1
            ref=np.expand_dims(t.array,axp)
            exp_t=tp[:axp]+['coll']+tp[axp:]
            if not np.array_equal(e.array,ref) or types(e)!=exp_t: rec('expand_dims',(tp,ax,types(e),exp_t))
            cnt['expand']+=1
print(cnt,sum(bad.values()))
for k,v in bad.items(): print(k,v,ex[k][:2])
