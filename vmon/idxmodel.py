"""Structural reference model of numpy indexing: which source axis each result axis comes from.

index_mapping(index, shape) -> (mapping, predicted_shape, features)
  mapping: list with one entry per result axis: the source axis it came from, or None for an axis created by
  None/newaxis or by advanced (integer/boolean array) indexing.
The model is self-validating: callers compare predicted_shape with the shape numpy actually returns and discard the
case as an oracle bug when they differ.
"""
from __future__ import annotations

import numpy as np


class Unsupported(Exception):
    pass


def _is_int(x):
    return isinstance(x, (int, np.integer)) and not isinstance(x, (bool, np.bool_))


def index_mapping(index, shape):
    ndim = len(shape)
    idx = index if isinstance(index, tuple) else (index,)
    if idx and isinstance(idx[0], (bool, np.bool_)) and all(it is Ellipsis or (isinstance(it, slice) and it == slice(None)) for it in idx[1:]) \
            and sum(1 for it in idx[1:] if it is Ellipsis) <= 1:
        # a leading scalar boolean (a 0-d mask) followed by full slices only: like None, but the new axis has length 1 (True) or 0 (False)
        mapping, pshape, feat = index_mapping((None,) + tuple(idx[1:]), shape)
        pshape = (1 if idx[0] else 0,) + tuple(pshape[1:])
        return mapping, pshape, {**feat, "scalar_bool": True}
    items = []  # (kind, payload, consumed axes)
    n_ell = 0
    for it in idx:
        if it is Ellipsis:
            n_ell += 1
            items.append(("ellipsis", None, 0))
        elif it is None:
            items.append(("none", None, 0))
        elif isinstance(it, slice):
            items.append(("slice", it, 1))
        elif isinstance(it, (bool, np.bool_)):
            raise Unsupported("scalar boolean index")
        elif _is_int(it):
            items.append(("int", int(it), 1))
        else:
            a = np.asarray(it)
            if a.dtype == bool:
                if a.ndim == 0:
                    raise Unsupported("0-d boolean index")
                items.append(("bool", a, a.ndim))
            elif a.dtype.kind in "iu":
                if a.ndim == 0:
                    items.append(("int", int(a), 1))
                else:
                    items.append(("arr", a, 1))
            else:
                raise Unsupported(f"index dtype {a.dtype}")
    if n_ell > 1:
        raise Unsupported("more than one ellipsis")
    consumed = sum(c for _, _, c in items)
    if consumed > ndim:
        raise Unsupported("too many indices")
    # expand the ellipsis / pad with full slices
    fill = ndim - consumed
    expanded = []
    seen_ell = False
    for k, p, c in items:
        if k == "ellipsis":
            expanded.extend([("slice", slice(None), 1)] * fill)
            if fill == 0:
                expanded.append(("sep", None, 0))  # an ellipsis separates advanced indices even when it expands to nothing
            seen_ell = True
        else:
            expanded.append((k, p, c))
    if not seen_ell:
        expanded.extend([("slice", slice(None), 1)] * fill)
    has_array = any(k in ("arr", "bool") for k, _, _ in expanded)
    adv_pos = [i for i, (k, _, _) in enumerate(expanded) if k in ("arr", "bool") or (k == "int" and has_array)]
    # broadcast shape of the advanced indices
    bshape = ()
    if has_array:
        shapes = []
        for i in adv_pos:
            k, p, c = expanded[i]
            if k == "arr":
                shapes.append(p.shape)
            elif k == "bool":
                shapes.append((int(np.count_nonzero(p)),))
            else:
                shapes.append(())
        bshape = np.broadcast_shapes(*shapes)
    adjacent = bool(adv_pos) and adv_pos == list(range(adv_pos[0], adv_pos[-1] + 1))
    mapping = []
    pshape = []
    axis = 0
    placed = False
    for i, (k, p, c) in enumerate(expanded):
        if has_array and i in adv_pos:
            if adjacent and not placed:
                mapping.extend([None] * len(bshape))
                pshape.extend(bshape)
                placed = True
            if k == "bool":
                if tuple(shape[axis:axis + c]) != p.shape:
                    raise Unsupported("boolean mask shape mismatch")
            axis += c
            continue
        if k == "int":
            axis += 1
        elif k == "none":
            mapping.append(None)
            pshape.append(1)
        elif k == "slice":
            mapping.append(axis)
            pshape.append(len(range(*p.indices(shape[axis]))))
            axis += 1
    if has_array and not adjacent:
        mapping = [None] * len(bshape) + mapping
        pshape = list(bshape) + pshape
    feats = {
        "n_int": sum(1 for k, _, _ in expanded if k == "int"),
        "n_arr": sum(1 for k, _, _ in expanded if k == "arr"),
        "n_bool": sum(1 for k, _, _ in expanded if k == "bool"),
        "n_bool_nd": sum(1 for k, p, _ in expanded if k == "bool" and p.ndim > 1),
        "n_none": sum(1 for k, _, _ in expanded if k == "none"),
        "ellipsis": n_ell > 0,
        "adjacent": adjacent,
        "int_with_array": has_array and any(k == "int" for k, _, _ in expanded),
        "separated": has_array and not adjacent,
        "zero_width_ellipsis": any(k == "sep" for k, _, _ in expanded),
        "bcast_ndim": len(bshape),
    }
    return mapping, tuple(pshape), feats
