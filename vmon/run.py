"""Check runner:  python -m vmon.run <PROP> <quick|thorough> [--replay FILE] [--shard K/N --out PATH]

Parent mode: spawns N worker processes (one per shard, plain subprocess with a timeout), optionally one more
that runs the repository's own tests under the property's monitors, merges the partial results, matches
violations against known_findings.json, writes evidence/<PROP>.json and prints the verdict lines.
Exit 0 = held on everything judged (known findings are printed); 1 = unlisted violation; 2 = inconclusive.
"""
from __future__ import annotations

import argparse
import importlib
import json
import os
import shutil
import subprocess
import sys
import time
import zlib

import numpy as np

from . import REPO, VERIF_DIR, setup_paths
from . import core


def case_rng(seed, group, i):
    return np.random.default_rng([int(seed) & 0xFFFFFFFF, zlib.crc32(group.encode()), int(i)])


def load_prop(prop):
    return importlib.import_module(f"vmon.props.{prop.lower()}")


def load_findings(prop, mod):
    path = os.path.join(VERIF_DIR, "known_findings.json")
    out = []
    if os.path.exists(path):
        with open(path) as f:
            data = json.load(f)
        for e in data.get("findings", []):
            if e.get("property") == prop and e.get("status") == "open":
                fn = getattr(mod, "CLASSIFIERS", {}).get(e["classifier"])
                if fn is None:
                    raise RuntimeError(f"known finding {e['key']}: classifier {e['classifier']} not defined in {mod.__name__}")
                out.append({"key": e["key"], "classifier": fn, "what": e.get("what", "")})
    return out


def group_count(g, tier):
    n = g["quick"] if tier == "quick" else g["thorough"]
    return n() if callable(n) else n


def run_cases(ctx, mod, tier, seed, shard, nshards, only=None, deadline=None):
    timed_out = []
    for g in mod.GROUPS:
        if only is not None and g["name"] != only[0]:
            continue
        n = group_count(g, tier)
        idx = [only[1]] if only is not None else range(shard, n, nshards)
        for i in idx:
            if deadline is not None and time.time() > deadline:
                timed_out.append(g["name"])
                break
            ctx.case = (g["name"], i)
            rng = case_rng(seed, g["name"], i)
            try:
                g["fn"](ctx, rng, i)
            except Exception:
                import traceback

                ctx.oracle_error("workload:" + g["name"], traceback.format_exc())
            ctx.note(("cases_per_group", g["name"]))
    ctx.case = None
    return timed_out


def worker(args):
    setup_paths()
    mod = load_prop(args.prop)
    ctx = core.Ctx(args.prop, args.tier, args.seed, findings=load_findings(args.prop, mod))
    core.STATE.ctx = ctx
    mod.install(ctx)
    k, n = (int(x) for x in args.shard.split("/"))
    budget = float(os.environ.get("VMON_WORKER_BUDGET", "0") or 0)
    deadline = time.time() + budget if budget > 0 else None
    timed_out = run_cases(ctx, mod, args.tier, args.seed, k, n, deadline=deadline)
    core.STATE.ctx = None
    part = ctx.partial()
    part["budget_exhausted_groups"] = timed_out
    np.save(args.out + ".dig.npy", np.fromiter(ctx.digests, dtype=np.uint64, count=len(ctx.digests)))
    core.dump_json(part, args.out)
    return 0


def replay(args):
    setup_paths()
    with open(args.replay) as f:
        rec = json.load(f)
    prop = rec["property"]
    mod = load_prop(prop)
    ctx = core.Ctx(prop, rec.get("tier", "quick"), rec.get("seed", 0), findings=load_findings(prop, mod))
    core.STATE.ctx = ctx
    mod.install(ctx)
    case = rec.get("case")
    if not case or case.startswith("repo_tests"):
        print(f"replay: case {case!r} comes from the repository's tests run under the monitors; re-run: ./check {prop} quick")
        return 2
    g, i = case.rsplit("#", 1)
    run_cases(ctx, mod, ctx.tier, ctx.seed, 0, 1, only=(g, int(i)))
    core.STATE.ctx = None
    print(json.dumps({"counters": ctx.counters, "violations": ctx.violations, "known": ctx.known_hits}, indent=1, default=repr)[:6000])
    if ctx.n_violations:
        print(f"VIOLATION property={prop} replay={args.replay}")
        return 1
    print("replay: no unlisted violation reproduced")
    return 0


def parent(args):
    t0 = time.time()
    setup_paths()
    mod = load_prop(args.prop)
    prop, tier, seed = args.prop, args.tier, args.seed
    findings = load_findings(prop, mod)
    nshards = int(os.environ.get("VMON_SHARDS", "0") or 0) or (mod.SHARDS[0] if tier == "quick" else mod.SHARDS[1])
    work = os.path.join(VERIF_DIR, ".work", f"{prop}-{tier}-{os.getpid()}")
    os.makedirs(work, exist_ok=True)
    env = dict(os.environ)
    env["PYTHONPATH"] = VERIF_DIR + os.pathsep + env.get("PYTHONPATH", "")
    env.setdefault("PYTHONHASHSEED", "0")
    env["VERIF_REPO"] = REPO
    timeout = float(os.environ.get("VMON_TIMEOUT", "0") or 0) or (900 if tier == "quick" else 5400)
    procs = []
    for k in range(nshards):
        out = os.path.join(work, f"shard{k}.json")
        cmd = [sys.executable, "-m", "vmon.run", prop, tier, "--seed", str(seed), "--shard", f"{k}/{nshards}", "--out", out]
        procs.append((f"shard{k}", out, subprocess.Popen(cmd, env=env, cwd=VERIF_DIR, stdout=subprocess.PIPE, stderr=subprocess.STDOUT)))
    if getattr(mod, "REPO_TESTS", True):
        out = os.path.join(work, "repotests.json")
        env2 = dict(env)
        env2.update({"VMON_PROP": prop, "VMON_TIER": tier, "VMON_SEED": str(seed), "VMON_OUT": out})
        cmd = [sys.executable, "-m", "pytest", "-q", "-x", "-p", "no:cacheprovider", "-p", "vmon.pytest_plugin", "--timeout=900", os.path.join(REPO, "tests")]
        procs.append(("repotests", out, subprocess.Popen(cmd, env=env2, cwd=REPO, stdout=subprocess.PIPE, stderr=subprocess.STDOUT)))

    inconclusive = []
    parts = []
    digs = []
    repo_tests_status = None
    for name, out, p in procs:
        try:
            stdout, _ = p.communicate(timeout=max(1.0, timeout - (time.time() - t0)))
        except subprocess.TimeoutExpired:
            p.kill()
            p.communicate()
            inconclusive.append(f"{name}: timed out after {timeout:.0f}s")
            continue
        text = stdout.decode(errors="replace")
        if name == "repotests":
            repo_tests_status = {"exit": p.returncode, "tail": text.strip().splitlines()[-1:] if text.strip() else []}
        if not os.path.exists(out):
            inconclusive.append(f"{name}: no result file (exit {p.returncode}): {text[-400:]}")
            continue
        if name != "repotests" and p.returncode != 0:
            inconclusive.append(f"{name}: exit {p.returncode}: {text[-400:]}")
            continue
        with open(out) as f:
            part = json.load(f)
        parts.append(part)
        if part.get("budget_exhausted_groups"):
            inconclusive.append(f"{name}: budget exhausted in groups {part['budget_exhausted_groups']}")
        if os.path.exists(out + ".dig.npy"):
            digs.append(np.load(out + ".dig.npy"))
    shutil.rmtree(work, ignore_errors=True)
    try:
        os.rmdir(os.path.join(VERIF_DIR, ".work"))
    except OSError:
        pass

    merged = core.merge_partials(parts)
    distinct = int(len(np.unique(np.concatenate(digs)))) if digs else 0
    counters = merged["counters"]
    evaluations = sum(c["judged"] for c in counters.values())

    # deciding monitors must have rendered verdicts
    required = getattr(mod, "REQUIRED", [])
    for m in required:
        if counters.get(m, {}).get("judged", 0) == 0:
            inconclusive.append(f"deciding monitor {m} rendered no verdict")
    if merged["n_oracle_errors"]:
        inconclusive.append(f"{merged['n_oracle_errors']} oracle/workload errors (first: {merged['oracle_errors'][0]['where']})")
    if evaluations == 0:
        inconclusive.append("no verdicts at all")

    # replay files for unlisted violations
    replay_dir = os.environ.get("VMON_REPLAY_DIR") or os.path.join(VERIF_DIR, "replays")
    lines = []
    for n, v in enumerate(merged["violations"][:10]):
        os.makedirs(replay_dir, exist_ok=True)
        path = os.path.join(replay_dir, f"{prop}-{tier}-{seed}-{n}.json")
        core.dump_json(v, path)
        lines.append(f"VIOLATION property={prop} replay={path}")
        lines.append(f"  what: {v['monitor']}: {v['what']} (case {v['case']})")
    for f in findings:
        n = merged["known_hits"].get(f["key"], 0)
        if n:
            lines.append(f"KNOWN-FINDING: property={prop} {f['key']}: {f['what']} ({n} occurrences this run)")

    samples = []
    for m, s in merged["samples"].items():
        samples.extend(s[:2])
    samples = samples[:24]
    if not samples:
        samples = [{"note": "no judged case"}]

    evidence = {
        "property_id": prop,
        "tier": tier,
        "seed": int(seed),
        "level": "exploration",
        "coverage": {
            "evaluations": int(evaluations),
            "distinct_nontrivial": distinct,
            "rule": getattr(mod, "RULE", ""),
            "samples": samples,
            "exhaustive": False,
            "monitors": counters,
            "observed": merged["extra"],
            "known_findings_hit": merged["known_hits"],
            "known_finding_samples": merged["known_samples"],
            "missing_attach_points": merged["missing"],
            "repo_tests_under_monitors": repo_tests_status,
            "shards": nshards,
            "inconclusive": inconclusive,
            "exhaustive_subruns": getattr(mod, "EXHAUSTIVE", {}).get(tier, []),
        },
        "assumptions": getattr(mod, "ASSUMPTIONS", []),
        "wall_s": round(time.time() - t0, 2),
        "violations": int(merged["n_violations"]),
    }
    core.dump_json(evidence, os.path.join(os.environ.get("VMON_EVIDENCE_DIR") or os.path.join(VERIF_DIR, "evidence"), f"{prop}.json"))

    for line in lines:
        print(line)
    nj = {m: c["judged"] for m, c in counters.items()}
    print(f"{prop} {tier} seed={seed}: {evaluations} verdicts, {distinct} distinct non-trivial cases, "
          f"{merged['n_violations']} unlisted violations, known={merged['known_hits']}, wall={time.time()-t0:.1f}s")
    print(f"  per monitor: {nj}")
    if merged["n_violations"]:
        return 1
    if inconclusive:
        print("INCONCLUSIVE: " + "; ".join(inconclusive))
        for e in merged["oracle_errors"][:2]:
            print(e["where"], e["case"])
            print(e["traceback"])
        return 2
    return 0


def main(argv=None):
    ap = argparse.ArgumentParser()
    ap.add_argument("prop")
    ap.add_argument("tier", nargs="?", default=os.environ.get("VERIF_TIER", "quick"), choices=["quick", "thorough"])
    ap.add_argument("--seed", type=int, default=int(os.environ.get("VERIF_SEED", "0") or 0))
    ap.add_argument("--replay")
    ap.add_argument("--shard")
    ap.add_argument("--out")
    args = ap.parse_args(argv)
    args.prop = args.prop.upper()
    if args.replay:
        return replay(args)
    if args.shard:
        return worker(args)
    return parent(args)


if __name__ == "__main__":
    try:
        rc = main()
    except SystemExit:
        raise
    except BaseException:  # an internal error of the machinery is never reported as a violation (exit 1)
        import traceback

        traceback.print_exc()
        print("INTERNAL-ERROR: the check machinery crashed; no verdict")
        rc = 3
    sys.exit(rc)
