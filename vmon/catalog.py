"""Object pools and the brute-force catalogue of public operations (used by C12, C03, C04, C06, C07).

build_pool(rng, dim, ...) -> list of (name, object): single objects, collections, polytopes, quadrics, transformations.
enumerate_calls(pool, rng, ...) -> list of CallSpec: every public property read and method call of every pool object with
pool objects (and a few scalars) as arguments, plus the module-level functions of the geometer namespace.
"""
from __future__ import annotations

import functools
import inspect
import itertools

import numpy as np

from . import gen


class CallSpec:
    __slots__ = ("desc", "kind", "name", "owner", "args", "fn")

    def __init__(self, desc, kind, name, owner, args, fn=None):
        self.desc = desc  # printable
        self.kind = kind  # 'prop' | 'method' | 'func'
        self.name = name
        self.owner = owner  # (pool name, object) or None
        self.args = args  # list of (pool name, object)
        self.fn = fn

    def run(self):
        if self.kind == "prop":
            return getattr(self.owner[1], self.name)
        if self.kind == "method":
            return getattr(self.owner[1], self.name)(*[a[1] for a in self.args])
        return self.fn(*[a[1] for a in self.args])

    def operands(self):
        out = [a[1] for a in self.args]
        if self.owner is not None:
            out.insert(0, self.owner[1])
        return out


SKIP_ATTRS = {"__init__", "__new__", "__setitem__", "__class__", "__init_subclass__", "__subclasshook__", "__getattribute__", "__setattr__", "__delattr__",
              "__dir__", "__reduce__", "__reduce_ex__", "__sizeof__", "__format__", "__getstate__", "__weakref__", "__dict__", "__module__", "__doc__",
              "__annotations__", "__abstractmethods__", "__orig_bases__", "__parameters__", "__slots__", "__hash__", "__class_getitem__", "__array_function__",
              "__array_ufunc__", "__array__", "__iter__", "__len__", "__copy__", "__repr__", "__str__", "__pow__", "__getitem__", "__apply__"}
DUNDER_BINARY = ["__add__", "__radd__", "__sub__", "__rsub__", "__mul__", "__rmul__", "__truediv__", "__eq__"]
DUNDER_UNARY = ["__neg__", "__repr__", "__len__", "__copy__"]


def _int_points(rng, dim, n, hi=4, shape=()):
    a = gen.coords(rng, shape + (n, dim), hi, "int")
    return np.concatenate([a, np.ones(shape + (n, 1), dtype=np.int64)], axis=-1)


def _rescale_elements(rng, obj, factors):
    """The same collection with every element multiplied by its own factor (hostile representatives)."""
    k = obj.free_indices
    lam = np.array([factors[int(i)] for i in rng.integers(0, len(factors), size=int(np.prod(obj.shape[:k])))], dtype=float).reshape(obj.shape[:k] + (1,) * (obj.rank - k))
    new = obj.copy()
    new.array = obj.array * lam
    return new


def build_pool(rng, dim, **kw):
    """A pool of objects in general position; random draws that happen to be degenerate (coincident defining points) are re-drawn."""
    from geometer.exceptions import GeometryException

    for _ in range(20):
        try:
            return _build_pool(rng, dim, **kw)
        except GeometryException:
            continue
    raise RuntimeError("no pool in general position")


def _regular(ms):
    """Symmetric integer matrices made regular (a dual quadric needs an inverse): singular ones get a multiple of the identity added."""
    ms = np.array(ms)
    n = ms.shape[-1]
    flat = ms.reshape(-1, n, n)
    for k in range(len(flat)):
        j = 1
        while abs(np.linalg.det(flat[k])) < 0.5:
            flat[k] = flat[k] + j * np.eye(n, dtype=flat.dtype)
            j += 1
    return flat.reshape(ms.shape)


def _build_pool(rng, dim, with_collections=True, with_polytopes=True, with_quadrics=True, with_transforms=True, cshape=(3,), hostile_scales=False):
    """A pool of finite, real, mostly integer-coordinate objects in general position of the given dimension (2 or 3)."""
    import geometer as g
    from fractions import Fraction

    n = dim + 1
    pool = []

    def gp(k):
        # k points in general position (every (dim+1)-subset independent)
        from . import exact as X

        for _ in range(200):
            a = _int_points(rng, dim, k, 5)
            ok = all(X.rank([X.vec(a[i]) for i in c]) == min(len(c), n) for c in itertools.combinations(range(k), min(k, n)))
            if ok and len({tuple(r) for r in a}) == k:
                return a
        raise RuntimeError("no general position")

    pts = gp(5)
    for i in range(4):
        pool.append((f"p{i}", g.Point(pts[i])))
    pool.append(("p_scaled", g.Point(pts[4] * -3)))
    inf = np.append(gen.nonzero_vec(rng, dim, 3), 0)
    pool.append(("p_inf", g.Point(inf)))
    if dim == 2:
        pool.append(("l0", g.Line(g.Point(pts[0]), g.Point(pts[1]))))
        pool.append(("l1", g.Line(g.Point(pts[2]), g.Point(pts[3]))))
        pool.append(("l2", g.Line(gen.nonzero_vec(rng, 3, 4))))
        pool.append(("l_vert", g.Line(1, 0, -int(pts[0][0]))))
    else:
        pool.append(("l0", g.Line(g.Point(pts[0]), g.Point(pts[1]))))
        pool.append(("l1", g.Line(g.Point(pts[0]), g.Point(pts[2]))))  # meets l0 in p0
        pool.append(("l2", g.Line(g.Point(pts[2]), g.Point(pts[3]))))  # skew to l0
        pool.append(("e0", g.Plane(g.Point(pts[0]), g.Point(pts[1]), g.Point(pts[2]))))
        pool.append(("e1", g.Plane(gen.nonzero_vec(rng, 4, 4))))
        pool.append(("e2", g.Plane(g.Point(pts[1]), g.Point(pts[2]), g.Point(pts[3]))))
    if with_collections:
        cp = _int_points(rng, dim, 1, 5, cshape)[..., 0, :]
        cq = _int_points(rng, dim, 1, 5, cshape)[..., 0, :]
        cq[..., 0] += 11  # distinct from cp
        pool.append(("pc0", g.PointCollection(cp)))
        pool.append(("pc1", g.PointCollection(cq)))
        pool.append(("lc0", g.join(g.PointCollection(cp), g.PointCollection(cq))))
        if dim == 2:
            pool.append(("lc1", g.LineCollection(gen.coords(rng, cshape + (3,), 4, "int") + np.array([0, 0, 7]))))
        else:
            h = gen.coords(rng, cshape + (4,), 4, "int")
            h[..., 0] += 6
            pool.append(("ec0", g.PlaneCollection(h)))
    if with_collections and hostile_scales:
        # every element of the point / line / plane collections in its own homogeneous scale (ratios up to 1e6)
        for k, (nm, ob) in enumerate(pool):
            if nm in ("pc0", "pc1", "lc0", "lc1", "ec0"):
                pool[k] = (nm, _rescale_elements(rng, ob, [1.0, -3.0, 0.5, 7.0, 1e3, 1e-3, -40.0]))
    if with_polytopes:
        if dim == 2:
            a, b, c = pts[0], pts[1], pts[2]
            pool.append(("seg0", g.Segment(g.Point(a), g.Point(b))))
            pool.append(("seg1", g.Segment(g.Point(c), g.Point(pts[3]))))
            pool.append(("tri0", g.Triangle(g.Point(a), g.Point(b), g.Point(c))))
            x0, y0 = int(rng.integers(-3, 4)), int(rng.integers(-3, 4))
            w, h_ = int(rng.integers(1, 5)), int(rng.integers(1, 5))
            pool.append(("rect0", g.Rectangle(g.Point(x0, y0), g.Point(x0 + w, y0), g.Point(x0 + w, y0 + h_), g.Point(x0, y0 + h_))))
            pool.append(("poly0", g.Polygon(g.Point(0, 0), g.Point(4, 0), g.Point(4, 4), g.Point(2, 1), g.Point(0, 4))))
            if with_collections:
                sa = _int_points(rng, 2, 2, 5, cshape)
                sa[..., 1, 0] += 7
                pool.append(("segc0", g.SegmentCollection(sa)))
        else:
            a, b, c, d = pts[0], pts[1], pts[2], pts[3]
            pool.append(("seg0", g.Segment(g.Point(a), g.Point(b))))
            pool.append(("seg1", g.Segment(g.Point(c), g.Point(d))))
            pool.append(("tri0", g.Triangle(g.Point(a), g.Point(b), g.Point(c))))
            pool.append(("tet0", g.Simplex(g.Point(a), g.Point(b), g.Point(c), g.Point(d))))
            o = gen.coords(rng, (3,), 3, "int")
            s = rng.integers(1, 4, size=3)
            pool.append(("cube0", g.Cuboid(g.Point(*o), g.Point(*(o + [s[0], 0, 0])), g.Point(*(o + [0, s[1], 0])), g.Point(*(o + [0, 0, s[2]])))))
            z = int(rng.integers(-2, 3))
            pool.append(("poly0", g.Polygon(g.Point(0, 0, z), g.Point(4, 0, z), g.Point(4, 4, z), g.Point(2, 1, z), g.Point(0, 4, z))))
            if with_collections:
                pa = np.array([[[0, 0, 1, 1], [2, 0, 1, 1], [2, 2, 1, 1], [0, 2, 1, 1]], [[0, 0, 3, 1], [1, 0, 3, 1], [1, 1, 3, 1], [0, 1, 3, 1]]])
                pool.append(("polyc0", g.PolygonCollection(pa)))
                sa = _int_points(rng, 3, 2, 5, (2,))
                sa[..., 1, 0] += 7
                pool.append(("segc0", g.SegmentCollection(sa)))
    if with_quadrics:
        if dim == 2:
            pool.append(("circ0", g.Circle(g.Point(int(rng.integers(-3, 4)), int(rng.integers(-3, 4))), int(rng.integers(1, 5)))))
            pool.append(("ell0", g.Ellipse(g.Point(1, -2), 3, 2)))
            m = gen.coords(rng, (3, 3), 3, "int")
            m = m + m.T + np.diag([5, -7, 3])
            pool.append(("conic0", g.Conic(m)))
            pool.append(("dconic0", g.Conic.from_lines(g.Line(1, 2, 3), g.Line(2, -1, 1))))
            pool.append(("dualconic0", g.Conic(m + np.diag([2, 0, -1]), is_dual=True)))  # a dual conic (a set of tangent lines)
            if with_collections:
                qs = gen.coords(rng, cshape + (3, 3), 3, "int")
                qs = qs + np.swapaxes(qs, -1, -2) + np.diag([5, -7, 3])
                pool.append(("qc0", g.QuadricCollection(qs)))
                pool.append(("dualqc0", g.QuadricCollection(_regular(qs + np.diag([1, 2, 0])), is_dual=True)))
        else:
            pool.append(("sph0", g.Sphere(g.Point(1, -1, 2), 3)))
            m = gen.coords(rng, (4, 4), 3, "int")
            m = m + m.T + np.diag([5, -7, 3, 2])
            pool.append(("quad0", g.Quadric(m)))
            pool.append(("cone0", g.Cone(g.Point(0, 1, 0), g.Point(1, 2, 3), 2)))
            pool.append(("cyl0", g.Cylinder(g.Point(1, 0, 0), g.Point(1, 1, 2), 1.5)))
            pool.append(("dualquad0", g.Quadric(m + np.diag([2, 0, -1, 1]), is_dual=True)))  # a dual quadric (a set of tangent planes)
            if with_collections:
                qs = gen.coords(rng, cshape + (4, 4), 3, "int")
                qs = qs + np.swapaxes(qs, -1, -2) + np.diag([5, -7, 3, 2])
                pool.append(("qc0", g.QuadricCollection(qs)))
                pool.append(("dualqc0", g.QuadricCollection(_regular(qs + np.diag([1, 2, 0, 1])), is_dual=True)))
    if with_transforms:
        m = gen.invertible_int_matrix(rng, n, 2)
        pool.append(("t0", g.Transformation(m)))
        pool.append(("t_rot", g.rotation(0.7) if dim == 2 else g.rotation(0.7, axis=g.Point(1, 2, 2))))
        pool.append(("t_trans", g.translation(*[int(x) for x in rng.integers(-3, 4, size=dim)])))
        if with_collections:
            ms = np.stack([gen.invertible_int_matrix(rng, n, 2) for _ in range(int(np.prod(cshape)))]).reshape(cshape + (n, n))
            pool.append(("tc0", g.TransformationCollection(ms)))
    return pool


SCALARS = [("s2", 2), ("s-1", -1), ("s.5", 0.5), ("s0", 0)]


def public_members(obj):
    """(name, kind) for every public attribute of obj's class: 'prop' or 'method'."""
    out = []
    cls = type(obj)
    seen = set()
    for c in cls.__mro__:
        if c.__module__.split(".")[0] != "geometer":
            continue
        for name, raw in c.__dict__.items():
            if name in seen:
                continue
            seen.add(name)
            if name in SKIP_ATTRS:
                continue
            if name.startswith("_") and not (name.startswith("__") and name.endswith("__")):
                continue
            if isinstance(raw, (property, functools.cached_property)):
                out.append((name, "prop"))
            elif isinstance(raw, (classmethod, staticmethod)):
                continue
            elif callable(raw):
                out.append((name, "method"))
    return out


def _arity(fn):
    """(min, max) number of positional arguments after self."""
    try:
        sig = inspect.signature(fn)
    except (TypeError, ValueError):
        return 1, 1
    lo = hi = 0
    for p in sig.parameters.values():
        if p.kind == p.VAR_POSITIONAL:
            return lo, max(hi, 3)
        if p.kind in (p.POSITIONAL_ONLY, p.POSITIONAL_OR_KEYWORD):
            hi += 1
            if p.default is p.empty:
                lo += 1
    return lo, hi


def enumerate_calls(pool, rng, per_method_pairs=12, funcs=True, func_samples=40, include_scalars=True):
    import geometer as g

    specs = []
    argpool = list(pool) + (SCALARS if include_scalars else [])
    for name, obj in pool:
        for attr, kind in public_members(obj):
            if kind == "prop":
                specs.append(CallSpec(f"{name}.{attr}", "prop", attr, (name, obj), []))
                continue
            bound = getattr(obj, attr)
            lo, hi = _arity(bound)
            if attr in DUNDER_BINARY:
                lo = hi = 1
            if lo == 0:
                specs.append(CallSpec(f"{name}.{attr}()", "method", attr, (name, obj), []))
            if hi >= 1 and lo <= 1:
                for a in argpool:
                    specs.append(CallSpec(f"{name}.{attr}({a[0]})", "method", attr, (name, obj), [a]))
            if hi >= 2 and lo <= 2:
                for _ in range(per_method_pairs):
                    a = argpool[int(rng.integers(0, len(argpool)))]
                    b = argpool[int(rng.integers(0, len(argpool)))]
                    specs.append(CallSpec(f"{name}.{attr}({a[0]},{b[0]})", "method", attr, (name, obj), [a, b]))
    if funcs:
        fnames = ["join", "meet", "dist", "angle", "angle_bisectors", "crossratio", "harmonic_set", "is_cocircular", "is_collinear", "is_concurrent",
                  "is_coplanar", "is_perpendicular", "translation", "reflection", "identity"]
        for fname in fnames:
            fn = getattr(g, fname, None)
            if fn is None:
                continue
            lo, hi = _arity(fn)
            lo = max(lo, 1)
            for k in range(lo, min(hi, 4) + 1):
                for _ in range(func_samples):
                    args = [pool[int(rng.integers(0, len(pool)))] for _ in range(k)]
                    specs.append(CallSpec(f"{fname}({','.join(a[0] for a in args)})", "func", fname, None, args, fn))
    return specs


def reachable_arrays(obj):
    """All numpy buffers reachable from a pool object: its array, cached supporting line/plane arrays, up the .base chain."""
    out = []
    seen = set()

    def add(a):
        while isinstance(a, np.ndarray) and id(a) not in seen:
            seen.add(id(a))
            out.append(a)
            a = a.base

    def walk(o, depth=0):
        if depth > 3:
            return
        d = getattr(o, "__dict__", None)
        if d is None:
            return
        for k, v in d.items():
            if isinstance(v, np.ndarray):
                add(v)
            elif hasattr(v, "__dict__") and hasattr(v, "array"):
                walk(v, depth + 1)

    walk(obj)
    return out
