"""Exact linear algebra over Q and Q(i) -- the reference arithmetic of the oracles.

Nothing in this module imports geometer or uses numpy for arithmetic; numpy is only
used to read numbers out of arrays.  Floats are converted with Fraction(float), which
is lossless, so for integer / dyadic inputs every reference value is exact.
"""
from __future__ import annotations

from fractions import Fraction as F
from itertools import combinations, permutations

import numpy as np


class GQ:
    """Gaussian rational a + b i."""

    __slots__ = ("re", "im")

    def __init__(self, re=0, im=0):
        self.re = re if isinstance(re, F) else F(re)
        self.im = im if isinstance(im, F) else F(im)

    @staticmethod
    def of(x):
        if isinstance(x, GQ):
            return x
        if isinstance(x, (complex, np.complexfloating)):
            return GQ(F(float(x.real)), F(float(x.imag)))
        if isinstance(x, F):
            return GQ(x, F(0))
        if isinstance(x, (int, np.integer, np.bool_, bool)):
            return GQ(F(int(x)), F(0))
        return GQ(F(float(x)), F(0))

    def __add__(self, o):
        o = GQ.of(o)
        return GQ(self.re + o.re, self.im + o.im)

    __radd__ = __add__

    def __sub__(self, o):
        o = GQ.of(o)
        return GQ(self.re - o.re, self.im - o.im)

    def __rsub__(self, o):
        return GQ.of(o) - self

    def __neg__(self):
        return GQ(-self.re, -self.im)

    def __mul__(self, o):
        o = GQ.of(o)
        return GQ(self.re * o.re - self.im * o.im, self.re * o.im + self.im * o.re)

    __rmul__ = __mul__

    def conj(self):
        return GQ(self.re, -self.im)

    def norm2(self):
        return self.re * self.re + self.im * self.im

    def __truediv__(self, o):
        o = GQ.of(o)
        d = o.norm2()
        n = self * o.conj()
        return GQ(n.re / d, n.im / d)

    def __rtruediv__(self, o):
        return GQ.of(o) / self

    def __eq__(self, o):
        o = GQ.of(o)
        return self.re == o.re and self.im == o.im

    def __hash__(self):
        return hash((self.re, self.im))

    def __bool__(self):
        return self.re != 0 or self.im != 0

    def __complex__(self):
        return complex(float(self.re), float(self.im))

    def __repr__(self):
        return f"({self.re}+{self.im}i)"

    def is_real(self):
        return self.im == 0


def num(x):
    """Exact scalar (Fraction if real, GQ if it has an imaginary part)."""
    if isinstance(x, (F, GQ)):
        return x
    if isinstance(x, (complex, np.complexfloating)):
        if x.imag == 0:
            return F(float(x.real))
        return GQ.of(x)
    if isinstance(x, (int, np.integer, bool, np.bool_)):
        return F(int(x))
    return F(float(x))


def vec(a):
    """1-D array-like -> list of exact scalars."""
    a = np.asarray(a)
    return [num(x) for x in a.ravel().tolist()] if a.dtype.kind != "c" else [num(complex(x)) for x in a.ravel()]


def mat(a):
    a = np.asarray(a)
    assert a.ndim == 2, a.shape
    return [vec(r) for r in a]


def is_zero(x):
    return not bool(x) if isinstance(x, GQ) else x == 0


def tocomplex(v):
    if isinstance(v, np.ndarray):
        return v.astype(complex)
    return np.array([complex(x) if isinstance(x, GQ) else float(x) for x in v], dtype=complex)


def tofloat(v):
    return np.array([float(x) for x in v], dtype=float)


def _conj(x):
    return x.conj() if isinstance(x, GQ) else x


def rref(rows):
    """Reduced row echelon form.  Returns (matrix, pivot columns)."""
    m = [list(r) for r in rows]
    if not m:
        return m, []
    ncols = len(m[0])
    r = 0
    pivs = []
    for c in range(ncols):
        piv = None
        for i in range(r, len(m)):
            if not is_zero(m[i][c]):
                piv = i
                break
        if piv is None:
            continue
        m[r], m[piv] = m[piv], m[r]
        pv = m[r][c]
        m[r] = [x / pv for x in m[r]]
        for i in range(len(m)):
            if i != r and not is_zero(m[i][c]):
                f = m[i][c]
                m[i] = [a - f * b for a, b in zip(m[i], m[r])]
        pivs.append(c)
        r += 1
        if r == len(m):
            break
    return m, pivs


def rank(rows):
    if not rows:
        return 0
    return len(rref(rows)[1])


def nullspace(rows, ncols=None):
    """Basis of {x : rows @ x = 0} (bilinear pairing, no conjugation)."""
    if not rows:
        return [[F(int(i == j)) for j in range(ncols)] for i in range(ncols)]
    m, pivs = rref(rows)
    ncols = len(rows[0])
    free = [c for c in range(ncols) if c not in pivs]
    basis = []
    for fc in free:
        v = [F(0)] * ncols
        v[fc] = F(1)
        for i, pc in enumerate(pivs):
            v[pc] = -m[i][fc]
        basis.append(v)
    return basis


def rowspace(rows):
    m, pivs = rref(rows)
    return [m[i] for i in range(len(pivs))]


def det(m):
    n = len(m)
    m = [list(r) for r in m]
    d = F(1)
    for c in range(n):
        piv = None
        for i in range(c, n):
            if not is_zero(m[i][c]):
                piv = i
                break
        if piv is None:
            return F(0)
        if piv != c:
            m[c], m[piv] = m[piv], m[c]
            d = -d
        pv = m[c][c]
        d = d * pv
        for i in range(c + 1, n):
            if not is_zero(m[i][c]):
                f = m[i][c] / pv
                m[i] = [a - f * b for a, b in zip(m[i], m[c])]
    return d


def minor(m, i, j):
    return [[m[r][c] for c in range(len(m)) if c != j] for r in range(len(m)) if r != i]


def adjugate(m):
    n = len(m)
    if n == 1:
        return [[F(1)]]
    return [[(-1) ** (i + j) * det(minor(m, j, i)) for j in range(n)] for i in range(n)]


def matmul(a, b):
    return [[sum((a[i][k] * b[k][j] for k in range(len(b))), F(0)) for j in range(len(b[0]))] for i in range(len(a))]


def matvec(a, v):
    return [sum((a[i][k] * v[k] for k in range(len(v))), F(0)) for i in range(len(a))]


def transpose(a):
    return [list(r) for r in zip(*a)]


def dot(u, v):
    return sum((a * b for a, b in zip(u, v)), F(0))


def inverse(m):
    d = det(m)
    if is_zero(d):
        raise ZeroDivisionError("singular")
    return [[x / d for x in r] for r in adjugate(m)]


def identity(n):
    return [[F(int(i == j)) for j in range(n)] for i in range(n)]


def is_multiple(u, v):
    """Exact: u and v (flat lists) span a space of dimension <= 1, and zero pattern rule:
    returns True iff u = s*v or v = s*u for some scalar s (the zero vector is a multiple of everything)."""
    return rank([list(u), list(v)]) <= 1


def proj_equal(u, v):
    """Exact projective equality of two non-zero coordinate vectors."""
    if all(is_zero(x) for x in u) or all(is_zero(x) for x in v):
        return False
    return rank([list(u), list(v)]) == 1


def cross3(u, v):
    return [u[1] * v[2] - u[2] * v[1], u[2] * v[0] - u[0] * v[2], u[0] * v[1] - u[1] * v[0]]


def perm_parity(p):
    """+1 / -1 for a permutation given as a tuple, 0 if not a permutation; by cycle decomposition."""
    n = len(p)
    if sorted(p) != list(range(n)):
        return 0
    seen = [False] * n
    sign = 1
    for i in range(n):
        if not seen[i]:
            j = i
            ln = 0
            while not seen[j]:
                seen[j] = True
                j = p[j]
                ln += 1
            if ln % 2 == 0:
                sign = -sign
    return sign


def solve_in_basis(basis, v):
    """Coefficients c with sum c_i basis_i = v (exact), or None if v is not in the span."""
    k = len(basis)
    n = len(v)
    rows = [[basis[j][i] for j in range(k)] + [v[i]] for i in range(n)]
    m, pivs = rref(rows)
    if k in pivs:
        return None
    if len(pivs) < k:
        return None  # basis not independent
    return [m[i][k] for i in range(k)]


# ---------------------------------------------------------------------------------
# comparison of a floating result with an exact reference
# ---------------------------------------------------------------------------------

def proj_residual(a, ref):
    """Relative residual of the float vector `a` against the reference direction `ref` (both flat),
    minimised over the projective scale:  min_s |a - s ref| / |a|.  0 = projectively equal."""
    a = np.asarray(a, dtype=complex).ravel()
    b = np.asarray(ref, dtype=complex).ravel()
    na = np.linalg.norm(a)
    nb = np.linalg.norm(b)
    if na == 0 or nb == 0 or not np.isfinite(na) or not np.isfinite(nb):
        return float("inf")
    a = a / na
    b = b / nb
    s = np.vdot(b, a)
    return float(np.linalg.norm(a - s * b))


def subspace_residual(vecs, basis):
    """max over float vectors of the distance to the span of the exact/float basis (orthonormalised by QR)."""
    B = np.array([np.asarray(b, dtype=complex).ravel() for b in basis]).T
    q, _ = np.linalg.qr(B)
    worst = 0.0
    for v in vecs:
        v = np.asarray(v, dtype=complex).ravel()
        nv = np.linalg.norm(v)
        if nv == 0 or not np.isfinite(nv):
            return float("inf")
        v = v / nv
        r = v - q @ (q.conj().T @ v)
        worst = max(worst, float(np.linalg.norm(r)))
    return worst
