"""C19 -- tensor arithmetic and index bookkeeping follow the array semantics."""
from __future__ import annotations

import numpy as np

from .. import core, gen
from .. import ref as R
from ..idxmodel import Unsupported, index_mapping

RULE = ("tensors of rank 1-4 (shapes 2-3 per axis, every index-type pattern, 0-2 collection axes) x random valid numpy index expressions "
        "(integers, slices with steps, None, Ellipsis, integer arrays of rank 1-2, lists, 1-D and n-D boolean masks, in any order), judged "
        "against a structural model of numpy indexing that is validated per case against the shape numpy returns; operand pairings "
        "tensor/point/line/quadric x tensor/array/python and numpy scalars, left and right, operators and numpy ufuncs; transpose / T / "
        "tensor_product / expand_dims / copy. Also every __getitem__ and arithmetic call made by the repository's tests. "
        "Non-trivial = an index expression other than a single integer or an operand pairing with a non-scalar; distinct by digest."
        " Arithmetic results must have numpy's result dtype, a buffer of their own and must leave the operands' bytes unchanged; the neutral scalars 1, 1.0, np.int64(1), 1+0j, 0, -1, True are part of the operand pairings; tensors whose free axis is not the leading one (results of indexing with None / an integer array after a tensor axis) are operands too; T and transpose() are read on every kind of library object; -p, np.negative(p) and (p-p)-p on points must be p*(-1) (directions reversed); leading scalar boolean indices (Python bool, numpy.bool_); copy.copy / copy.deepcopy / pickle round trips / .copy() of every kind of object (tensors, collections, dual quadrics, circles, spheres, segments, triangles, cuboids): class, bytes, index types, duality and vertices preserved, deep copies own their buffer; n-D boolean masks spelled as nested lists; histories: an object that was an operand of a transformation collection / expand_dims / T / copy / arithmetic keeps its own index types and indexes as before.")
SHARDS = (8, 16)
REQUIRED = ["getitem", "arith", "point_arith", "ufunc", "transpose", "expand_dims", "copy", "arith.operands", "copy.roundtrip", "history"]
ASSUMPTIONS = ["numpy indexing/ufunc semantics are the reference", "the structural index model is validated per case against numpy's result shape"]
EXHAUSTIVE = {"quick": [], "thorough": []}


def _types_of(t):
    return sorted(int(i) for i in t._covariant_indices), sorted(int(i) for i in t._contravariant_indices)


def _struct_ok(t):
    cov, con = t._covariant_indices, t._contravariant_indices
    if cov & con:
        return "covariant and contravariant index sets intersect"
    if any((not isinstance(i, (int, np.integer))) or i < 0 or i >= t.array.ndim for i in cov | con):
        return "index set outside range(rank)"
    return None


# ---------------------------------------------------------------------------------
# __getitem__
# ---------------------------------------------------------------------------------

def post_getitem(ctx, call):
    from geometer.base import Tensor

    self, index = call.args[0], call.args[1]
    try:
        want_arr = self.array[index]
    except Exception:
        ctx.skip("getitem", "invalid index for numpy")
        return
    try:
        mapping, pshape, feat = index_mapping(index, self.shape)
    except Unsupported as e:
        ctx.skip("getitem", f"index form not modelled: {e}")
        return
    except Exception:
        ctx.skip("getitem", "index form not modelled")
        return
    feat = dict(feat)
    nonfree = self._covariant_indices | self._contravariant_indices
    feat["tensor_axes_intact"] = all(s in mapping and pshape[mapping.index(s)] == self.shape[s] for s in nonfree)
    k = len(nonfree)
    tail = list(range(self.rank - k, self.rank))
    feat["trailing_intact"] = sorted(nonfree) == tail and (k == 0 or (mapping[-k:] == tail and tuple(pshape[-k:]) == tuple(self.shape[-k:])))
    feat["cls"] = type(self).__name__
    feat["level"] = call.name
    if np.shape(want_arr) != tuple(pshape):
        ctx.skip("getitem", "oracle-bug: model shape differs from numpy")
        ctx.note(("oracle_bug", repr(index)[:80]))
        return
    simple = isinstance(index, (int, np.integer))
    # what the frozen model of the pinned (known-defective) bookkeeping yields for this expression: used by the known-finding classifiers only
    from .c19_known import frozen_types

    frozen = frozen_types(index, self.shape, set(self._covariant_indices), set(self._contravariant_indices))
    if call.exc is not None:
        feat["matches_frozen_model"] = isinstance(frozen, str) and frozen == type(call.exc).__name__
        ctx.judge("getitem", False, [self, _idx_desc(index)], what=f"{call.name} raised {type(call.exc).__name__}: {call.exc} for an index numpy accepts", feat=feat,
                  op="__getitem__", nontrivial=not simple)
        return
    res = call.result
    if not isinstance(res, Tensor):
        ok = np.ndim(want_arr) == 0 and (res == want_arr or (res != res and want_arr != want_arr))
        ctx.judge("getitem", bool(ok), [self, _idx_desc(index)], what="scalar result differs from array[index]", feat=feat, op="__getitem__", nontrivial=False)
        return
    cov = [r for r, s in enumerate(mapping) if s is not None and s in self._covariant_indices]
    con = [r for r, s in enumerate(mapping) if s is not None and s in self._contravariant_indices]
    ok, why = True, ""
    if res.array.shape != np.shape(want_arr) or not np.array_equal(res.array, want_arr, equal_nan=True):
        ok, why = False, "values differ from array[index]"
    elif _types_of(res) != (cov, con):
        ok, why = False, f"index types {_types_of(res)} != expected {(cov, con)} (mapping {mapping})"
    else:
        s = _struct_ok(res)
        if s:
            ok, why = False, s
    ctx.note(("getitem_class", type(self).__name__))
    if not ok:
        feat["matches_frozen_model"] = (not isinstance(frozen, str)) and tuple(frozen) == _types_of(res)
    ctx.judge("getitem", ok, [self, _idx_desc(index)], what=why, feat=feat, op="__getitem__", nontrivial=not simple, expected=[cov, con], observed=_types_of(res))


def _idx_desc(index):
    idx = index if isinstance(index, tuple) else (index,)
    out = []
    for it in idx:
        if it is Ellipsis:
            out.append("...")
        elif it is None:
            out.append("None")
        elif isinstance(it, slice):
            out.append(f"{it.start}:{it.stop}:{it.step}")
        elif isinstance(it, (int, np.integer)):
            out.append(int(it))
        else:
            a = np.asarray(it)
            out.append({"array": a.tolist(), "dtype": str(a.dtype), "list": isinstance(it, list)})
    return out


# ---------------------------------------------------------------------------------
# arithmetic
# ---------------------------------------------------------------------------------

OPS = {
    "__add__": lambda a, b: a + b,
    "__radd__": lambda a, b: b + a,
    "__sub__": lambda a, b: a - b,
    "__rsub__": lambda a, b: b - a,
    "__mul__": lambda a, b: a * b,
    "__rmul__": lambda a, b: b * a,
    "__truediv__": lambda a, b: a / b,
}


def _is_scalar(x):
    from geometer.utils import is_numerical_scalar

    return is_numerical_scalar(x)


def post_arith(ctx, call):
    """Base-class elementwise arithmetic (Tensor.__add__ & co): reached directly for generic tensors, lines, planes,
    quadrics, transformations and through the fall-through of the point/quadric overrides."""
    from geometer.base import Tensor

    name = call.name.split(".")[-1]
    self = call.args[0]
    other = call.args[1] if len(call.args) > 1 else None
    if name in ("__mul__", "__rmul__", "__truediv__") and not _is_scalar(other):
        return  # tensor contraction: C05
    from geometer.point import PointLikeTensor

    if isinstance(self, PointLikeTensor) and name in ("__rmul__", "__neg__", "__rsub__", "__radd__"):
        return  # these dispatch to the point overrides (affine arithmetic), judged there
    if call.exc is not None:
        ctx.skip("arith", "raised")
        return
    res = call.result
    if res is NotImplemented:
        return
    oarr = other.array if isinstance(other, Tensor) else other
    try:
        with np.errstate(all="ignore"):
            want = -self.array if name == "__neg__" else OPS[name](self.array, np.asarray(oarr) if not _is_scalar(oarr) else oarr)
    except Exception:
        ctx.skip("arith", "numpy rejects the operands")
        return
    want = np.asarray(want)
    offset = want.ndim - self.rank
    cov = sorted(i + offset for i in self._covariant_indices)
    con = sorted(i + offset for i in self._contravariant_indices)
    ok, why = True, ""
    if not isinstance(res, Tensor):
        ok, why = False, f"result is {type(res).__name__}, not a Tensor"
    elif res.array.shape != want.shape or not np.allclose(res.array, want, rtol=1e-14, atol=0, equal_nan=True):
        ok, why = False, "values differ from the elementwise numpy result"
    elif _types_of(res) != (cov, con):
        ok, why = False, f"index types {_types_of(res)} != those of the tensor operand {(cov, con)}"
    elif res.array.dtype != want.dtype:
        ok, why = False, f"dtype {res.array.dtype} != dtype {want.dtype} of the elementwise numpy result"
    elif np.shares_memory(res.array, self.array) or (isinstance(oarr, np.ndarray) and np.shares_memory(res.array, oarr)):
        ok, why = False, "the result shares its buffer with an operand (an elementwise operation returns a new array)"
    ctx.note(("arith_pairing", f"{type(self).__name__}.{name}({type(other).__name__})"))
    ctx.judge("arith", ok, [self, other], what=f"{name}: {why}", op=name, feat={"op": name, "cls": type(self).__name__, "other": type(other).__name__},
              nontrivial=not _is_scalar(other), expected=[cov, con])


def _cart(arr):
    """(cartesian part, finite flag) per point of a homogeneous coordinate array, the library's notion of infinite
    (|last coordinate| <= 1e-8) included; directions of infinite points are the raw leading coordinates."""
    a = np.asarray(arr)
    z = a[..., -1:]
    inf = np.isclose(z, 0, atol=1e-8)
    with np.errstate(all="ignore"):
        c = np.where(inf, a[..., :-1], a[..., :-1] / np.where(inf, 1, z))
    return c, ~inf[..., 0]


def post_point_arith(ctx, call):
    """PointLikeTensor.__add__/__sub__/__mul__/__truediv__: affine vector arithmetic."""
    from geometer.point import PointLikeTensor, PointTensor
    from geometer.shapes import PolytopeTensor

    name = call.name.split(".")[-1]
    self, other = call.args[0], call.args[1]
    if isinstance(self, PolytopeTensor) or isinstance(other, PolytopeTensor):
        ctx.skip("point_arith", "polytope operand (translation: C06/C08)")
        return
    if name in ("__add__", "__sub__"):
        if not isinstance(other, PointLikeTensor):
            return  # falls through to the base class: judged there
    elif not _is_scalar(other):
        return
    if call.exc is not None:
        ctx.judge("point_arith", False, [self, other], what=f"{name} raised {type(call.exc).__name__}: {call.exc}", op=name)
        return
    res = call.result
    if not (R.finite(self.array) and (not isinstance(other, PointLikeTensor) or R.finite(other.array))):
        ctx.skip("point_arith", "non-finite")
        return
    if np.iscomplexobj(self.array) or (isinstance(other, PointLikeTensor) and np.iscomplexobj(other.array)):
        ctx.skip("point_arith", "complex points")
        return
    c1, f1 = _cart(self.array)
    if name in ("__add__", "__sub__"):
        c2, f2 = _cart(other.array)
        try:
            want_c = c1 + c2 if name == "__add__" else c1 - c2
            want_f = f1 | f2
        except ValueError:
            ctx.skip("point_arith", "shapes do not broadcast")
            return
    else:
        if other == 0 and name == "__truediv__":
            ctx.skip("point_arith", "division by zero")
            return
        want_c = c1 * other if name == "__mul__" else c1 / other
        want_f = f1
    ok, why = True, ""
    if not isinstance(res, PointTensor):
        ok, why = False, f"result is {type(res).__name__}, not a point"
    else:
        rc, rf = _cart(res.array)
        want_f = np.broadcast_to(want_f, want_c.shape[:-1])
        if rc.shape != want_c.shape:
            ok, why = False, f"shape {rc.shape} != {want_c.shape}"
        elif not np.array_equal(rf, want_f):
            ok, why = False, "finite/infinite pattern differs from the affine model"
        elif not np.allclose(rc, want_c, rtol=1e-12, atol=1e-12):
            ok, why = False, "coordinates differ from the affine vector result"
        elif res.tensor_shape != (1, 0):
            ok, why = False, "result is not a covariant 1-tensor"
    ctx.note(("point_arith_case", f"{name}:{'inf' if not np.all(f1) else 'fin'}"))
    ctx.judge("point_arith", ok, [self, other], what=f"{name}: {why}", op=name, feat={"op": name}, nontrivial=True, expected=want_c)


UFUNC_TO_OP = {"add": "+", "subtract": "-", "multiply": "*", "true_divide": "/", "divide": "/", "negative": "neg"}


def post_ufunc(ctx, call):
    from geometer.base import Tensor

    self, ufunc, method = call.args[0], call.args[1], call.args[2]
    inputs = call.args[3:]
    if method != "__call__" or ufunc.__name__ not in UFUNC_TO_OP or call.kwargs:
        ctx.skip("ufunc", "other ufunc / method / keyword arguments")
        return
    op = UFUNC_TO_OP[ufunc.__name__]
    try:
        if op == "neg":
            want = -inputs[0]
        elif op == "+":
            want = inputs[0] + inputs[1]
        elif op == "-":
            want = inputs[0] - inputs[1]
        elif op == "*":
            want = inputs[0] * inputs[1]
        else:
            want = inputs[0] / inputs[1]
        wexc = None
    except Exception as e:
        want, wexc = None, e
    if call.exc is not None or wexc is not None:
        ok = (call.exc is not None) == (wexc is not None)
        ctx.judge("ufunc", ok, list(inputs), what=f"np.{ufunc.__name__} and the operator disagree about raising ({type(call.exc).__name__} vs {type(wexc).__name__})", op=f"np.{ufunc.__name__}",
                  nontrivial=True)
        return
    res = call.result
    if res is NotImplemented:
        ctx.skip("ufunc", "NotImplemented")
        return
    ok = type(res) is type(want)
    if ok and isinstance(res, Tensor):
        ok = res.array.shape == want.array.shape and np.allclose(res.array, want.array, rtol=1e-14, atol=0, equal_nan=True) and _types_of(res) == _types_of(want)
    elif ok:
        ok = bool(np.all(np.asarray(res) == np.asarray(want)))
    ctx.judge("ufunc", bool(ok), list(inputs), what=f"np.{ufunc.__name__}(...) differs from the operator {op}", op=f"np.{ufunc.__name__}", nontrivial=True)


# ---------------------------------------------------------------------------------
# transpose / expand_dims / copy
# ---------------------------------------------------------------------------------

def post_transpose(ctx, call):
    if call.exc is not None:
        ctx.skip("transpose", "raised")
        return
    self = call.args[0]
    perm = call.kwargs.get("perm", call.args[1] if len(call.args) > 1 else None)
    res = call.result
    rank = self.rank
    f = self.free_indices
    cands = []
    if perm is None:
        cands.append(list(range(f)) + list(reversed(range(f, rank))))
    else:
        perm = list(perm)
        if len(perm) == rank:
            cands.append(perm)
        else:
            # cycle notation: accept either orientation of the cycle
            a = list(range(rank))
            b = list(range(rank))
            for k in range(len(perm)):
                i, j = perm[k], perm[(k + 1) % len(perm)]
                a[i] = j
                b[j] = i
            cands.extend([a, b])
    ok, why = False, "array is not the transposed array"
    for P in cands:
        try:
            want = self.array.transpose(P)
        except Exception:
            continue
        if want.shape == res.array.shape and np.array_equal(want, res.array, equal_nan=True):
            cov = sorted(i for i, j in enumerate(P) if j in self._covariant_indices)
            con = sorted(i for i, j in enumerate(P) if j in self._contravariant_indices)
            if _types_of(res) == (cov, con):
                ok = True
                break
            why = f"index types {_types_of(res)} do not follow the permuted axes {(cov, con)}"
    ctx.judge("transpose", ok, [self, perm], what=why, op="transpose", nontrivial=rank > 1)


def post_expand_dims(ctx, call):
    self, axis = call.args[0], call.args[1]
    if call.exc is not None:
        ctx.skip("expand_dims", "raised")
        return
    res = call.result
    try:
        want = np.expand_dims(self.array, axis)
    except Exception:
        ctx.skip("expand_dims", "numpy rejects the axis")
        return
    ax = axis if axis >= 0 else axis + self.rank + 1
    cov = sorted(i + 1 if i >= ax else i for i in self._covariant_indices)
    con = sorted(i + 1 if i >= ax else i for i in self._contravariant_indices)
    ok = res.array.shape == want.shape and np.array_equal(res.array, want, equal_nan=True) and _types_of(res) == (cov, con) and type(res) is type(self)
    extra = ""
    line = getattr(res, "_line", None)
    if ok and line is not None and hasattr(self, "_line") and call.name.startswith("SegmentCollection"):
        # the cached supporting lines must keep describing the expanded segments
        ok = line.shape[: line.free_indices] == res.array.shape[: res.array.ndim - 2]
        extra = " (cached supporting line has the wrong collection shape)"
    ctx.judge("expand_dims", bool(ok), [self, axis], what="expand_dims differs from numpy.expand_dims with a new collection axis" + extra, op="expand_dims", nontrivial=True)


def post_copy(ctx, call):
    if call.exc is not None:
        return
    self, res = call.args[0], call.result
    ok = type(res) is type(self) and res is not self and res.array is self.array and _types_of(res) == _types_of(self) and set(res.__dict__) == set(self.__dict__)
    ctx.judge("copy", bool(ok), [self], what="copy is not a same-class shallow copy with the same index types", op="copy", nontrivial=False)


def _operand_bytes(ctx, call):
    """pre-hook: the bytes of every array operand (array semantics: a binary operator never changes its operands)."""
    out = []
    for a in call.args:
        arr = getattr(a, "array", a if isinstance(a, np.ndarray) else None)
        out.append(None if arr is None else (arr, arr.dtype.str, arr.shape, arr.tobytes()))
    return out


def _with_operands_unchanged(post):
    def both(ctx, call):
        post(ctx, call)
        for k, rec in enumerate(call.pre or []):
            if rec is None:
                continue
            arr, dt, shape, raw = rec
            if arr.dtype.str != dt or arr.shape != shape or arr.tobytes() != raw:
                ctx.judge("arith.operands", False, [np.frombuffer(raw, dtype=dt).reshape(shape), arr], what=f"{call.name} changed the array of its operand {k} in place", op=call.name,
                          feat={"op": call.name, "arg": k}, nontrivial=True)
                return
        if call.pre:
            ctx.judge("arith.operands", True, [], op=call.name, nontrivial=False)

    return both


def install(ctx):
    import geometer.base as B
    import geometer.point as P

    core.wrap_method_everywhere(B.Tensor, "__getitem__", post_getitem)
    for n in ("__add__", "__radd__", "__sub__", "__rsub__", "__mul__", "__rmul__", "__truediv__", "__neg__"):
        core.wrap_method(B.Tensor, n, _with_operands_unchanged(post_arith), pre=_operand_bytes)
    for n in ("__add__", "__sub__", "__mul__", "__truediv__"):
        core.wrap_method(P.PointLikeTensor, n, _with_operands_unchanged(post_point_arith), pre=_operand_bytes)
    core.wrap_method(B.Tensor, "__array_ufunc__", post_ufunc)
    core.wrap_method(B.Tensor, "transpose", post_transpose)
    core.wrap_method_everywhere(B.TensorCollection, "expand_dims", post_expand_dims)
    core.wrap_method(B.Tensor, "copy", post_copy)


# ---------------------------------------------------------------------------------
# workload
# ---------------------------------------------------------------------------------

def _rand_index(rng, shape):
    """A random valid numpy index expression for an array of the given shape."""
    ndim = len(shape)
    style = int(rng.integers(0, 10))
    if style == 0:
        return int(rng.integers(-shape[0], shape[0]))
    items = []
    axis = 0
    used_ell = False
    while axis < ndim:
        r = rng.random()
        d = shape[axis]
        if r < 0.18:
            items.append(int(rng.integers(-d, d)))
            axis += 1
        elif r < 0.40:
            start = gen.pick(rng, [None, 0, 1, -1, -d])
            stop = gen.pick(rng, [None, d, -1, 1, d + 2])
            step = gen.pick(rng, [None, 1, 2, -1])
            items.append(slice(start, stop, step))
            axis += 1
        elif r < 0.50:
            items.append(None)
        elif r < 0.58 and not used_ell:
            items.append(Ellipsis)
            used_ell = True
            # the ellipsis swallows a random number of axes
            axis += int(rng.integers(0, ndim - axis + 1))
        elif r < 0.74:
            k = int(rng.integers(1, 4))
            arr = rng.integers(-d, d, size=(k,) if rng.random() < 0.7 else (2, k))
            items.append(arr.tolist() if rng.random() < 0.3 and arr.ndim == 1 else arr)
            axis += 1
        elif r < 0.86:
            m = rng.random(d) < 0.6
            items.append(m.tolist() if rng.random() < 0.3 else m)
            axis += 1
        elif r < 0.93 and axis + 2 <= ndim:
            m = rng.random(shape[axis:axis + 2]) < 0.6
            items.append(m.tolist() if rng.random() < 0.35 else m)  # an n-D mask may be spelled as a nested list
            axis += 2
        else:
            break
    # advanced indices must broadcast: make 1-D ones the same length
    arrs = [i for i, it in enumerate(items) if isinstance(it, (list, np.ndarray))]
    if len(arrs) > 1:
        try:
            shapes = []
            for i in arrs:
                a = np.asarray(items[i])
                shapes.append((int(np.count_nonzero(a)),) if a.dtype == bool else a.shape)
            np.broadcast_shapes(*shapes)
        except ValueError:
            # keep only the first array index, turn the others into slices
            for i in arrs[1:]:
                a = np.asarray(items[i])
                if a.dtype == bool and a.ndim > 1:
                    items[i:i + 1] = [slice(None)] * a.ndim
                else:
                    items[i] = slice(None)
    if len(items) == 1 and rng.random() < 0.5:
        return items[0]
    return tuple(items)


def _rand_tensor(rng, kind):
    from geometer.base import Tensor, TensorCollection
    import geometer as g

    if kind == 0:
        rank = int(rng.integers(1, 5))
        shape = tuple(int(x) for x in rng.integers(2, 4, size=rank))
        tr = int(rng.integers(0, rank + 1))
        ncov = int(rng.integers(0, tr + 1))
        cov = sorted(rng.choice(tr, size=ncov, replace=False).tolist()) if tr else []
        arr = gen.coords(rng, shape, 9, gen.pick(rng, ["int", "float", "gauss"]))
        return Tensor(arr, covariant=cov, tensor_rank=tr)
    cshape = gen.pick(rng, [(), (2,), (3,), (2, 3), (1, 2)])
    if kind == 1:
        return g.PointCollection(gen.coords(rng, cshape + (3,), 9, "int")) if cshape else g.Point(gen.coords(rng, (3,), 9, "int"))
    if kind == 2:
        return g.LineCollection(gen.coords(rng, cshape + (3,), 9, "int")) if cshape else g.Line(gen.coords(rng, (3,), 9, "int"))
    if kind == 3:
        return g.PlaneCollection(gen.coords(rng, cshape + (4,), 9, "float")) if cshape else g.Plane(gen.coords(rng, (4,), 9, "int"))
    if kind == 4:
        m = gen.coords(rng, cshape + (3, 3), 5, "int")
        m = m + np.swapaxes(m, -1, -2)
        dual = bool(rng.integers(0, 2))
        return g.QuadricCollection(m, is_dual=dual) if cshape else g.Quadric(m, is_dual=dual)
    if kind == 5:
        m = gen.coords(rng, cshape + (3, 3), 5, "float")
        return g.TransformationCollection(m) if cshape else g.Transformation(m)
    if kind == 6:
        # 3D lines
        p = gen.coords(rng, cshape + (4,), 5, "int")
        q = gen.coords(rng, cshape + (4,), 5, "int")
        q[..., 0] += 11
        return g.join(g.PointCollection(p), g.PointCollection(q)) if cshape else g.join(g.Point(p), g.Point(q))
    if kind == 7:
        return g.PointCollection(gen.coords(rng, cshape + (4,), 9, "float")) if cshape else g.Point(gen.coords(rng, (4,), 9, "float"))
    raise ValueError(kind)


def g_getitem(ctx, rng, i):
    t = _rand_tensor(rng, [0, 0, 0, 1, 2, 3, 4, 5, 6, 7][i % 10])
    for _ in range(4):
        idx = _rand_index(rng, t.shape)
        try:
            t.array[idx]
        except Exception:
            continue
        try:
            t[idx]
        except Exception:
            pass  # judged by the monitor
    # boolean scalars (Python and numpy) are 0-d masks: they insert an axis of length 1 or 0
    if i % 10 < 3:
        for idx in (True, False, np.True_, (True,), (True, Ellipsis), (np.False_, slice(None))):
            try:
                t.array[idx]
            except Exception:
                continue
            try:
                t[idx]
            except Exception:
                pass  # judged by the monitor


def g_getitem_structured(ctx, rng, i):
    """Index forms the library uses itself, on every class: t[i], t[mask], t[..., k], t[:, None], iteration."""
    t = _rand_tensor(rng, 1 + i % 7)
    f = t.free_indices
    forms = [0, -1, slice(None), Ellipsis, (Ellipsis, 0), (Ellipsis, slice(0, 2)), None, (None, Ellipsis), (Ellipsis, None)]
    if f >= 1:
        m = rng.random(t.shape[0]) < 0.5
        forms += [m, np.flatnonzero(m), [0], (slice(None), None), slice(0, 1), (slice(None, None, -1),)]
        for x in t:
            pass
    if f >= 2:
        m2 = rng.random(t.shape[:2]) < 0.5
        forms += [m2, (0, 0), (slice(None), 0), (0, slice(None)), (np.array([0, 1]), np.array([1, 0])), (slice(None), np.array([0, 1]))]
    for idx in forms:
        try:
            t[idx]
        except Exception:
            pass
    # separated array indices behind an axis that survives (numpy moves the broadcast axis to the front): rank-4 / rank-5 tensors of every
    # index-type pattern, the array indices as arrays, lists and masks, separated by a slice or by an Ellipsis that covers an axis
    from geometer.base import Tensor

    rank = 4 + i % 2
    shape = tuple(int(x) for x in rng.integers(2, 4, size=rank))
    tr = int(rng.integers(0, rank + 1))
    cov = sorted(rng.choice(tr, size=int(rng.integers(0, tr + 1)), replace=False).tolist()) if tr else []
    t4 = Tensor(gen.coords(rng, shape, 9, "int"), covariant=cov, tensor_rank=tr)
    a1 = rng.integers(0, shape[1], size=2)
    a3 = rng.integers(0, shape[3], size=2)
    m1 = np.zeros(shape[1], dtype=bool)
    m1[: 2] = True
    pats = [(slice(None), a1, slice(None), a3), (slice(0, 2), a1.tolist(), slice(None), a3), (slice(None), a1, Ellipsis, a3), (slice(None), m1, slice(None), a3),
            (slice(None, None, -1), a1, slice(1, None), a3.tolist()), (a1 % shape[0], slice(None), a3 % shape[2], slice(None)), (slice(None), slice(None), a1 % shape[2], a3),
            (Ellipsis, a1 % shape[-3], slice(None), a3 % shape[-1])]
    for idx in pats:
        try:
            t4[idx]
        except Exception:
            pass


def _rand_operand(rng, t, kind):
    """Second operand for arithmetic with tensor t."""
    if kind == 0:
        return int(rng.integers(-5, 6)) or 2
    if kind == 1:
        return float(np.round(rng.uniform(-4, 4), 2)) or 1.5
    if kind == 2:
        return np.float64(rng.uniform(-3, 3))
    if kind == 3:
        return np.int64(rng.integers(1, 5))
    if kind == 4:
        return gen.coords(rng, t.shape, 5, "int")
    if kind == 5:
        return gen.coords(rng, t.shape[-1:], 5, "float")
    if kind == 6:
        return gen.coords(rng, (2,) + t.shape, 5, "int")  # broadcasting adds a leading axis
    if kind == 7:
        return np.array(3)  # 0-d array
    raise ValueError(kind)


def g_arith(ctx, rng, i):
    t = _rand_tensor(rng, [0, 2, 3, 4, 5, 6, 1, 7][i % 8])
    if i % 5 == 3 and type(t).__name__ == "Tensor" and t.rank - t.free_indices >= 1 and t.free_indices == 0:
        # a tensor whose free axis is not the leading one (what indexing with None / an integer array after a tensor axis returns)
        r = t.rank
        pos = int(rng.integers(1, r + 1))
        ix = [slice(None)] * r
        if rng.integers(0, 2) and pos < r:
            ix[pos] = [0, 1, 0]
            ix = ix[: pos + 1]
        else:
            ix.insert(pos, None)
        try:
            t = t[tuple(ix)]
        except Exception:
            pass
    o = _rand_operand(rng, t, (i // 8) % 8)
    fns = [lambda: t + o, lambda: o + t, lambda: t - o, lambda: o - t, lambda: -t, lambda: np.add(t, o), lambda: np.subtract(t, o), lambda: np.subtract(o, t),
           lambda: np.negative(t)]
    if np.ndim(o) == 0:
        fns += [lambda: t * o, lambda: o * t, lambda: t / o, lambda: np.multiply(t, o), lambda: np.multiply(o, t), lambda: np.true_divide(t, o)]
    # the neutral and other special scalars in every numeric type (a shortcut for them must still behave like the elementwise operation)
    for s in (1, 1.0, np.int64(1), np.float64(1.0), 1 + 0j, 0, -1, np.array(1.0), True):
        fns += [lambda s=s: t * s, lambda s=s: s * t, lambda s=s: np.multiply(t, s)]
        if s not in (0, False):
            fns += [lambda s=s: t / s, lambda s=s: np.true_divide(t, s)]
        fns += [lambda s=s: t + s * 0, lambda s=s: t - s * 0]
    for f in fns:
        try:
            f()
        except Exception:
            pass
    # tensor (+|-) tensor of the same kind
    t2 = t.copy()
    try:
        t + t2
        t - t2
    except Exception:
        pass


def g_point_arith(ctx, rng, i):
    import geometer as g

    dim = 2 + i % 2
    cs1 = gen.pick(rng, [(), (), (3,), (2, 2)])
    cs2 = gen.pick(rng, [(), cs1])

    def pts(cs):
        a = gen.coords(rng, cs + (dim + 1,), 6, gen.pick(rng, ["int", "float"])).astype(float)
        w = rng.choice([1.0, 2.0, -1.0, 0.0, 0.5], size=cs + (1,), p=[0.4, 0.15, 0.15, 0.2, 0.1])
        a[..., -1:] = w
        # cartesian part scaled so that the point is (x*w, w)
        a[..., :-1] = np.where(w != 0, a[..., :-1] * w, a[..., :-1])
        if not np.any(a[..., :-1] != 0):
            a[..., 0] = 1
        return g.PointCollection(a) if cs else g.Point(a)

    p, q = pts(cs1), pts(cs2)
    c = gen.pick(rng, [2, -3, 0.5, np.float64(1.5), np.int64(4)])
    for f in (lambda: p + q, lambda: p - q, lambda: q - p, lambda: p * c, lambda: c * p, lambda: p / c, lambda: np.add(p, q), lambda: np.subtract(p, q),
              lambda: np.multiply(p, c), lambda: np.true_divide(p, c), lambda: -p, lambda: p + np.ones(dim + 1), lambda: p - 1):
        try:
            f()
        except Exception:
            pass
    # unary minus is the multiplication by -1 (affine for points: a direction is reversed, a finite point reflected in the origin), in every spelling
    for name, f_ in (("-p", lambda: -p), ("np.negative(p)", lambda: np.negative(p)), ("0 - p ... p - p - p", lambda: (p - p) - p)):
        try:
            got, want = f_(), p * (-1)
            ga, wa = np.asarray(got.array, dtype=complex), np.asarray(want.array, dtype=complex)
            if name.startswith("0"):
                # compared as points: finite points by their Cartesian part, directions by their coordinates
                inf = np.isclose(wa[..., -1], 0)
                ok = ga.shape == wa.shape and np.allclose(np.where(inf[..., None], ga, ga / np.where(inf, 1, ga[..., -1])[..., None]), np.where(inf[..., None], wa, wa / np.where(inf, 1, wa[..., -1])[..., None]), atol=1e-9)
            else:
                ok = ga.shape == wa.shape and np.allclose(ga, wa, rtol=1e-12, atol=0) and type(got) is type(want)
            ctx.judge("point_arith", bool(ok), [p], what=f"{name} is not p * (-1): {np.asarray(got.array).tolist()} vs {np.asarray(want.array).tolist()}"[:300], op="__neg__ (points)",
                      feat={"op": "__neg__", "spelling": name}, nontrivial=True)
        except Exception as e:  # noqa: BLE001
            ctx.judge("point_arith", False, [p], what=f"{name} raised {type(e).__name__}: {str(e)[:80]}", op="__neg__ (points)", feat={"op": "__neg__", "exc": type(e).__name__})


def g_transpose(ctx, rng, i):
    from geometer.base import Tensor

    t = _rand_tensor(rng, 0)
    t.T
    t.transpose()
    rank = t.rank
    if t.free_indices == 0:
        perm = rng.permutation(rank).tolist()
        t.transpose(perm)
        if rank >= 3:
            cyc = rng.choice(rank, size=int(rng.integers(2, rank)), replace=False).tolist()
            t.transpose(cyc)
    t.copy()
    a = _rand_tensor(rng, 1 + i % 7)
    a.copy()
    # the transposed tensor of every kind of library object (the T attribute and the method must agree and be judged by the monitor)
    for form in ("T", "transpose"):
        try:
            r = a.T if form == "T" else a.transpose()
        except Exception as e:
            ctx.judge("transpose", False, [a], what=f"{type(a).__name__}.{form} raised {type(e).__name__}: {e}", op="transpose", feat={"cls": type(a).__name__, "form": form})
            continue
        f_ = a.free_indices
        want = a.array.transpose(list(range(f_)) + list(reversed(range(f_, a.rank))))
        ok = isinstance(r, Tensor) and r.array.shape == want.shape and np.array_equal(r.array, want, equal_nan=True)
        ctx.judge("transpose", bool(ok), [a], what=f"{type(a).__name__}.{form} is {type(r).__name__} {str(r)[:40]!r}, not the transposed tensor", op="transpose",
                  feat={"cls": type(a).__name__, "form": form}, nontrivial=a.rank - f_ > 1)
    if a.free_indices > 0:
        for ax in range(-a.rank - 1, a.free_indices + 1):
            try:
                a.expand_dims(ax)
            except (ValueError, IndexError):
                pass
    # segment collections carry a cached line
    import geometer as g

    if i % 3 == 0:
        pa = gen.coords(rng, (3, 3), 5, "int")
        pb = pa + np.array([1, 2, 0])
        pa[:, -1] = 1
        pb[:, -1] = 1
        s = g.SegmentCollection(np.stack([pa, pb], axis=-2))
        for ax in (0, 1, -4, -3):
            try:
                s.expand_dims(ax)
            except (ValueError, IndexError):
                pass


def _rand_object(rng, i):
    """every kind of library object that is a Tensor, polytopes and named quadrics included."""
    import geometer as g

    k = i % 13
    if k < 8:
        return _rand_tensor(rng, k)
    if k == 8:
        c = g.Circle(g.Point(*gen.coords(rng, (2,), 5, "int").tolist()), int(rng.integers(1, 6)))
        return c.dual if i % 2 else c
    if k == 9:
        return g.Sphere(g.Point(*gen.coords(rng, (3,), 5, "int").tolist()), int(rng.integers(1, 6)))
    v = gen.coords(rng, (3, 3), 7, "int")
    v[:, -1] = 1
    if k == 10:
        return g.Segment(g.Point(v[0]), g.Point(v[1] + np.array([9, 0, 0])))
    if k == 11:
        v[1, 0] += 11
        v[2, 1] += 13
        return g.Triangle(*[g.Point(x) for x in v])
    a = g.Point(*gen.coords(rng, (3,), 4, "int").tolist())
    return g.Cuboid(a, a + g.Point(2, 0, 0), a + g.Point(0, 3, 0), a + g.Point(0, 0, 5))


def g_copies(ctx, rng, i):
    """copy.copy / copy.deepcopy / pickle round trip / .copy(): same class, same array, same index types, same attributes; deep copies own
    their data (an in-place edit of the copy leaves the original's bytes alone) and keep answering like the original."""
    import copy as _copy
    import pickle

    o = _rand_object(rng, i)
    if i % 3 == 0 and hasattr(o, "vertices"):
        o.vertices  # a history: cached attributes must not make the copies differ
    raw = o.array.tobytes()
    routes = (("copy.copy", _copy.copy, False), ("copy.deepcopy", _copy.deepcopy, True), ("pickle", lambda x: pickle.loads(pickle.dumps(x)), True),
              (".copy()", lambda x: x.copy(), False))
    for name, f, deep in routes:
        feat = {"route": name, "cls": type(o).__name__}
        try:
            r = f(o)
        except Exception as e:
            ctx.judge("copy.roundtrip", False, [o], what=f"{name} of a {type(o).__name__} raised {type(e).__name__}: {e}", op=name, feat=feat)
            continue
        ok = type(r) is type(o) and r is not o and r.array.dtype == o.array.dtype and r.array.shape == o.array.shape and r.array.tobytes() == raw
        ok = ok and _types_of(r) == _types_of(o) and getattr(r, "is_dual", None) == getattr(o, "is_dual", None)
        ok = ok and r.shape == o.shape and r.rank == o.rank and r.free_indices == o.free_indices
        what = f"{name} of a {type(o).__name__} differs from the original in class, array, index types or duality"
        if ok and deep:
            ok = not np.shares_memory(r.array, o.array)
            what = f"{name} of a {type(o).__name__} shares its coordinate buffer with the original"
            if ok and r.array.flags.writeable and r.array.size:
                r.array.flat[0] += 1
                ok = o.array.tobytes() == raw
                r.array.flat[0] -= 1
                what = f"editing the {name} of a {type(o).__name__} in place changed the original"
        if ok and hasattr(o, "vertices"):
            # the copy keeps answering like the original (vertices / edges are rebuilt or carried, never lost)
            try:
                va, vb = r.vertices, o.vertices
                if isinstance(vb, list):
                    ok = isinstance(va, list) and len(va) == len(vb) and all(type(x) is type(y) and np.array_equal(x.array, y.array) for x, y in zip(va, vb))
                else:
                    ok = type(va) is type(vb) and np.array_equal(va.array, vb.array)
            except Exception as e:
                ok = False
                feat = dict(feat, exc=type(e).__name__)
            what = f"the {name} of a {type(o).__name__} has other vertices than the original"
        ctx.judge("copy.roundtrip", bool(ok), [o], what=what, op=name, feat=feat, nontrivial=True)
    if o.array.tobytes() != raw:
        ctx.judge("copy.roundtrip", False, [o], what=f"copying a {type(o).__name__} changed its coordinate bytes", op="copy", feat={"cls": type(o).__name__})


def g_history(ctx, rng, i):
    """index bookkeeping of an object must survive being an operand: after a transformation collection was applied to it, after expand_dims /
    transpose / copy / indexing / arithmetic that return new tensors, the object itself still has its index types and indexes like before."""
    import geometer as g

    o = _rand_object(rng, i) if i % 2 else _rand_tensor(rng, 1 + i % 7)
    before = _types_of(o)
    raw = o.array.tobytes()
    n = o.array.shape[-1]
    steps = []
    for _ in range(int(rng.integers(1, 4))):
        k = int(rng.integers(0, 6))
        try:
            if k == 0 and n in (3, 4) and not isinstance(o, g.TransformationCollection):
                cs = gen.pick(rng, [(2,), (3,), (2, 2), (1,)])
                m = gen.coords(rng, cs + (n, n), 3, "int") + 7 * np.eye(n, dtype=int)
                steps.append("TransformationCollection%s * o" % (cs,))
                g.TransformationCollection(m) * o
            elif k == 1 and o.free_indices > 0:
                steps.append("o.expand_dims")
                o.expand_dims(int(rng.integers(0, o.free_indices + 1)))
            elif k == 2:
                steps.append("o.T")
                o.T
            elif k == 3:
                steps.append("o.copy()[None]")
                o.copy()[None]
            elif k == 4:
                steps.append("o * 2 + o")
                o * 2 + o
            else:
                steps.append("o[...]")
                o[...]
        except Exception:
            pass  # judged by the monitors of those calls; here only the state of o afterwards counts
    feat = {"cls": type(o).__name__, "steps": steps}
    ok = _types_of(o) == before and o.array.tobytes() == raw
    ctx.judge("history", bool(ok), [o, steps], what=f"after {steps} the operand's own index types changed from {before} to {_types_of(o)}", op="history", feat=feat)
    # and it still indexes / adds like a fresh object of the same data (these calls are judged by post_getitem / post_arith as well)
    try:
        r = o[None]
        ok2 = r.array.shape == (1,) + o.array.shape and _struct_ok(r) is None
        what = f"after {steps}: o[None] has shape {r.array.shape} / index types {_types_of(r)}"
    except Exception as e:
        ok2, what = False, f"after {steps}: o[None] raised {type(e).__name__}: {e}"
    ctx.judge("history", bool(ok2), [o, steps, "None"], what=what, op="history", feat=feat)


_tolerant = core.tolerant

g_getitem, g_getitem_structured, g_arith, g_point_arith, g_transpose, g_copies, g_history = (_tolerant(f) for f in (g_getitem, g_getitem_structured, g_arith, g_point_arith, g_transpose, g_copies, g_history))

GROUPS = [
    {"name": "getitem", "fn": g_getitem, "quick": 6000, "thorough": 80000},
    {"name": "getitem_structured", "fn": g_getitem_structured, "quick": 700, "thorough": 7000},
    {"name": "arith", "fn": g_arith, "quick": 1280, "thorough": 12800},
    {"name": "point_arith", "fn": g_point_arith, "quick": 800, "thorough": 8000},
    {"name": "transpose", "fn": g_transpose, "quick": 600, "thorough": 6000},
    {"name": "copies", "fn": g_copies, "quick": 390, "thorough": 3900},
    {"name": "history", "fn": g_history, "quick": 1200, "thorough": 12000},
]


# ---------------------------------------------------------------------------------
# known-finding classifiers (mechanism = class of the index expression)
# ---------------------------------------------------------------------------------

def _is_getitem(rec):
    # only failures of the index *bookkeeping* (wrong index types, or an exception out of the bookkeeping / re-wrapping code);
    # a wrong value (result differs from array[index]) is never a known finding
    return rec["monitor"] == "getitem" and not rec["what"].startswith("values differ")


def _frozen(rec, feat):
    """The observed wrong index types / exception are exactly those of the frozen model of the pinned bookkeeping (c19_known.py), or the
    failure is a follow-up of them (a subclass re-wrap raising on a tensor whose index types the base class got wrong)."""
    return bool(feat.get("matches_frozen_model")) or (feat.get("level") != "Tensor.__getitem__" and " raised " in rec["what"])


def k1_int_with_array(rec, feat):
    """An integer index in the same expression as an integer/boolean array index."""
    return _is_getitem(rec) and bool(feat.get("int_with_array")) and _frozen(rec, feat)


def k3_separated_arrays(rec, feat):
    """Array indices separated from each other (numpy moves the broadcast axes to the front) in an expression that also contains a None or an
    Ellipsis that expands to no axis: the bookkeeping removes source axes by value from a list whose positions were shifted by the None /
    does not see the empty Ellipsis as a separator.  Separated array indices without None and without an empty Ellipsis are handled
    correctly by the library and are therefore NOT covered by this finding."""
    return (_is_getitem(rec) and bool(feat.get("separated")) and not feat.get("int_with_array")
            and (feat.get("n_none", 0) > 0 or bool(feat.get("zero_width_ellipsis"))) and _frozen(rec, feat))


def k4_ellipsis_with_ndmask(rec, feat):
    """An Ellipsis in the same expression as a boolean mask with more than one dimension."""
    return (_is_getitem(rec) and bool(feat.get("ellipsis")) and feat.get("n_bool_nd", 0) > 0 and not feat.get("int_with_array")
            and "Too many indices" in rec["what"])


def k5_rewrap_of_cut_tensor_axes(rec, feat):
    """The index changes the trailing coordinate axes of a geometric object (slices them, or appends an axis behind them) and the
    subclass override of __getitem__ raises ValueError while re-wrapping the result in its own class; the base Tensor.__getitem__
    handles the same index correctly."""
    return (_is_getitem(rec) and feat.get("level") != "Tensor.__getitem__" and " raised ValueError" in rec["what"] and not feat.get("trailing_intact")
            and not feat.get("int_with_array") and not feat.get("separated"))


def k6_scalar_boolean(rec, feat):
    """A scalar boolean (Python bool, numpy.bool_ or a 0-d boolean array) as the leading index: numpy inserts an axis of length 1 / 0 in
    front, the library's bookkeeping treats it as an integer (Python bool) or as a mask that consumes an axis: the index types of the
    result are not shifted by the inserted axis, or the call raises IndexError / TensorComputationError-free ValueError."""
    return _is_getitem(rec) and feat.get("scalar_bool") is True


CLASSIFIERS = {"k1_int_with_array": k1_int_with_array, "k3_separated_arrays": k3_separated_arrays, "k4_ellipsis_with_ndmask": k4_ellipsis_with_ndmask,
               "k5_rewrap_of_cut_tensor_axes": k5_rewrap_of_cut_tensor_axes, "k6_scalar_boolean": k6_scalar_boolean}
