"""C06 -- transformations act as a group on every kind of object."""
from __future__ import annotations

import numpy as np

from .. import catalog, core, gen, xform
from .. import exact as X
from .. import ref as R
from . import c04 as S

RULE = ("every call of TransformationTensor.apply (workload, library-internal and in the repository's tests) is compared element by element with "
        "the reference action model (matrix on covariant indices, exact rational inverse on contravariant ones; polytopes vertex-wise, class, pdim "
        "and cached supporting line/plane checked); inverse and ** against exact matrix algebra; recorded histories of random words over "
        "{s, t, s^-1, t^-1} (length <= 8) applied step by step to every object kind are compared with the image under the reference product "
        "matrix, words reducing to the identity must return the original, (s*t)*x vs s*(t*x). Matrices: integer (entries <= 3, incl. genuinely "
        "projective last rows), rational-free floats, rotations/translations; 2D and 3D; single objects and collections. "
        "Non-trivial = transformation is not a multiple of the identity; distinct by (matrix, object) digest."
        " Also: index types of every image (trailing axes, shifted by the collection axes), transformation collections with more axes than the collection they act on (applied twice), batches of 64-80 matrices with two and three collection axes, exponents 27, 30, -30 on rotations / translations / shears, in-place edited transformations; unipotent matrices whose nilpotent part does not square to zero; transformations built from a tensor stored with the contravariant index first (transpose(), covariant=[1]); translations by 4e-9 raised to 2^31 and doubled 30 times, composed with ordinary maps (no factor may be dropped).")
SHARDS = (8, 16)
REQUIRED = ["apply", "inverse", "pow", "word"]
ASSUMPTIONS = ["numpy tensordot/linalg trusted for the float reference; exact inverse for integer matrices",
               "integer matrices are kept so small that products fit into int64"]
EXHAUSTIVE = {"quick": [], "thorough": []}


def _elem_matrix(t, pos, cshape):
    cs = tuple(t.shape[: t.free_indices])
    if not cs:
        return np.array(t.array, copy=True)
    p = pos[len(cshape) - len(cs):]
    p = tuple(0 if cs[i] == 1 else p[i] for i in range(len(cs)))
    return np.array(t.array[p], copy=True)


def check_image(ctx, monitor, t, obj, res, opname, what_prefix="", tol_scale=1.0):
    """Compare res with the reference image of obj under t (element by element). Returns True if judged ok."""
    from geometer.shapes import PolygonTensor, PolytopeTensor, SegmentTensor
    from geometer.transformation import TransformationTensor

    if isinstance(obj, TransformationTensor) and not isinstance(res, TransformationTensor):
        ctx.judge(monitor, False, [t, obj], what=f"{what_prefix}composition is a {type(res).__name__}", op=opname)
        return False
    feat = {"op": opname, "cls": type(obj).__name__, "dim": int(obj.shape[-1]) - 1, "tcoll": t.free_indices > 0}
    if not isinstance(obj, TransformationTensor) and type(res) is not type(obj):
        # transforming a single object with a collection of transformations yields a collection
        if not (t.free_indices > 0 and type(res).__name__.startswith(type(obj).__name__.replace("Collection", ""))):
            ctx.judge(monitor, False, [t, obj], what=f"{what_prefix}result is a {type(res).__name__}, operand a {type(obj).__name__}", op=opname, feat=feat)
            return False
    if getattr(res, "pdim", None) != getattr(obj, "pdim", None) or getattr(res, "is_dual", None) != getattr(obj, "is_dual", None):
        ctx.judge(monitor, False, [t, obj], what=f"{what_prefix}pdim / is_dual not preserved", op=opname, feat=feat)
        return False
    try:
        cshape = np.broadcast_shapes(tuple(t.shape[: t.free_indices]), S.coll_shape(obj))
    except ValueError:
        ctx.skip(monitor, "collection shapes do not align")
        return None
    rk = S.coll_axes(res)
    if S.coll_shape(res) != tuple(cshape):
        ctx.judge(monitor, False, [t, obj], what=f"{what_prefix}result collection shape {S.coll_shape(res)} != {tuple(cshape)}", op=opname, feat=feat)
        return False
    if not isinstance(obj, PolytopeTensor):
        # the result is of the same kind as the operand: the same numbers of covariant / contravariant indices, on the trailing axes
        k = len(cshape)
        off = res.rank - obj.rank
        want_cov, want_con = {i + off for i in obj._covariant_indices}, {i + off for i in obj._contravariant_indices}
        if set(res._covariant_indices) != want_cov or set(res._contravariant_indices) != want_con or min(want_cov | want_con, default=k) < k:
            ctx.judge(monitor, False, [t, obj], what=f"{what_prefix}index types of the result (covariant {sorted(res._covariant_indices)}, contravariant {sorted(res._contravariant_indices)}) are not "
                      f"those of the operand shifted behind the {k} collection axes (covariant {sorted(want_cov)}, contravariant {sorted(want_con)})", op=opname, feat=feat)
            return False
    ok_all = True
    for pos in R.positions(tuple(cshape), 16):
        M = _elem_matrix(t, pos, cshape)
        want, cond = xform.expected_image(M, obj, pos, cshape)
        if want is None or cond > 1e8:
            ctx.skip(monitor, "singular / ill-conditioned matrix")
            continue
        got = np.asarray(res.array[pos] if cshape else res.array)
        tol = 1e-9 * max(1.0, cond) * tol_scale
        if got.shape != want.shape:
            ok, why = False, f"element shape {got.shape} != {want.shape}"
        elif isinstance(obj, PolytopeTensor):
            g2, w2 = got.reshape(-1, got.shape[-1]), want.reshape(-1, want.shape[-1])
            bad = [k for k, (x, y) in enumerate(zip(g2, w2)) if X.proj_residual(x, y) > tol]
            ok, why = not bad, f"vertices {bad[:4]} are not the images of the original vertices (in order)"
        else:
            r = X.proj_residual(got, want)
            ok, why = r <= tol, f"image differs from the reference action (residual {r:.3g})"
        if ok and isinstance(res, SegmentTensor):
            ln = res.__dict__.get("_line")
            la = np.asarray(ln.array[pos] if cshape else ln.array) if ln is not None else None
            if la is None or not np.any(la != 0):
                ok, why = False, "cached supporting line missing / zero"
            else:
                v = got.reshape(-1, got.shape[-1]).astype(complex)
                vn = v / np.linalg.norm(v, axis=1, keepdims=True)
                ln_ = la / np.linalg.norm(la)
                inc = np.abs(ln_ @ vn.T).max() if la.ndim == 1 else max(np.abs(ln_ @ x).max() for x in vn)
                sv = np.linalg.svd(vn[:2], compute_uv=False)
                gapv = max(float(sv[-1] / sv[0]), 1e-12)
                if inc > 1e-9 * max(1.0, cond) / gapv:
                    ok, why = False, "cached supporting line is not incident with the transformed vertices"
        if ok and isinstance(res, PolygonTensor) and res.shape[-1] == 4:
            pl = res.__dict__.get("_plane")
            pa = np.asarray(pl.array[pos] if cshape else pl.array) if pl is not None else None
            if pa is None or not np.any(pa != 0):
                ok, why = False, "cached supporting plane missing / zero"
            else:
                v = got.reshape(-1, 4).astype(complex)
                vn = v / np.linalg.norm(v, axis=1, keepdims=True)
                # the plane through three nearly dependent homogeneous vectors (a small polygon far from the origin of R^4) is ill-conditioned
                sv = np.linalg.svd(vn[:3], compute_uv=False)
                gapv = max(float(sv[-1] / sv[0]), 1e-12)
                if np.abs(vn @ (pa / np.linalg.norm(pa))).max() > 1e-9 * max(1.0, cond) / gapv:
                    ok, why = False, "cached supporting plane is not incident with the transformed vertices"
        nontriv = X.proj_residual(M.ravel(), np.eye(M.shape[0]).ravel()) > 1e-9
        ctx.judge(monitor, ok, [M, obj], what=what_prefix + why, op=opname, feat=feat, nontrivial=nontriv, expected=want, observed=got)
        ok_all = ok_all and ok
    ctx.note(("applied_to", f"{type(obj).__name__}:dim{feat['dim']}"))
    return ok_all


def post_apply(ctx, call):
    t, obj = call.args[0], call.args[1]
    if not S._is_tensor(obj) or not hasattr(obj, "__apply__"):
        return
    from geometer.base import ProjectiveTensor
    from geometer.shapes import PolytopeTensor

    if not isinstance(obj, ProjectiveTensor):
        ctx.skip("apply", "generic tensor operand")
        return
    if obj.shape[-1] != t.shape[-1] or not (R.finite(t.array) and R.finite(obj.array)):
        ctx.skip("apply", "dimension mismatch / non-finite")
        return
    if t.free_indices > 0 and isinstance(obj, PolytopeTensor):
        ctx.skip("apply", "transformation collection applied to a polytope (outside the domain)")
        return
    if call.exc is not None:
        Mi, cond = xform._inv(t.array) if t.free_indices == 0 else (1, 1.0)
        if _tiny_representative(obj, t) and type(call.exc).__name__ in ("LinearDependenceError", "NotCoplanar"):
            ctx.skip("apply", "operand or image in a representative below 1e-2 (the library's absolute tolerances: stated domain limit)")
        elif Mi is not None and cond < 1e8:
            ctx.judge("apply", False, [t, obj], what=f"apply raised {type(call.exc).__name__}: {call.exc}", op="apply", feat={"cls": type(obj).__name__, "exc": type(call.exc).__name__})
        return
    check_image(ctx, "apply", t, obj, call.result, "apply")


def _tiny_representative(obj, t):
    """The operand, or its image under t, has a position whose homogeneous coordinates are all below 1e-2 in modulus."""
    try:
        a = np.abs(np.asarray(obj.array, dtype=complex))
        rows = a.reshape(-1, a.shape[-1]).max(axis=-1)
        m = np.abs(np.asarray(t.array, dtype=complex)).max()
        return bool(rows.min() < 1e-2 or rows.min() * m < 1e-2)
    except Exception:
        return False


def post_inverse(ctx, call):
    if call.exc is not None:
        return
    t, res = call.args[0], call.result
    if not R.finite(t.array):
        return
    ok = type(res) is type(t) and res.array.shape == t.array.shape and res.tensor_shape == (1, 1)
    fs = tuple(t.shape[: t.free_indices])
    for pos in R.positions(fs, 16):
        M = t.array[pos] if fs else t.array
        Mi, cond = xform._inv(M)
        if Mi is None or cond > 1e8:
            ctx.skip("inverse", "singular / ill-conditioned")
            continue
        got = res.array[pos] if fs else res.array
        r = X.proj_residual(np.asarray(got).ravel(), Mi.ravel()) if ok else 1.0
        ctx.judge("inverse", ok and r <= 1e-9 * max(1.0, cond), [M], what=f"inverse differs from the exact inverse (residual {r:.3g})", op="inverse",
                  nontrivial=X.proj_residual(np.asarray(M).ravel(), np.eye(M.shape[0]).ravel()) > 1e-9)


def post_pow(ctx, call):
    t, power = call.args[0], call.args[1]
    if not isinstance(power, (int, np.integer)) or not R.finite(t.array) or abs(power) > 64:
        return
    if call.exc is not None:
        Mi, cond = xform._inv(np.asarray(t.array).reshape((-1,) + t.shape[-2:])[0])
        if Mi is not None and cond < 1e3:
            ctx.judge("pow", False, [t, int(power)], what=f"t**{power} raised {type(call.exc).__name__}: {str(call.exc)[:100]}", op="__pow__", feat={"power": int(power), "exc": type(call.exc).__name__},
                      nontrivial=True)
        return
    res = call.result
    from geometer.transformation import TransformationTensor

    if not isinstance(res, TransformationTensor):
        ctx.judge("pow", False, [t, int(power)], what=f"t**{power} is a {type(res).__name__}", op="__pow__")
        return
    fs = tuple(t.shape[: t.free_indices])
    if tuple(res.shape[: res.free_indices]) != fs:
        ctx.judge("pow", False, [t, int(power)], what=f"t**{power}: collection shape {res.shape[:res.free_indices]} != {fs}", op="__pow__")
        return
    for pos in R.positions(fs, 8):
        M = np.asarray(t.array[pos] if fs else t.array)
        base = M
        if power < 0:
            base, cond = xform._inv(M)
            if base is None or cond > 1e6:
                ctx.skip("pow", "singular")
                continue
        want = np.linalg.matrix_power(np.asarray(base, dtype=complex), abs(int(power)))
        got = np.asarray(res.array[pos] if fs else res.array)
        r = X.proj_residual(got.ravel(), want.ravel())
        ctx.judge("pow", r <= 1e-8, [M, int(power)], what=f"t**{power} differs from the {abs(power)}-fold product (residual {r:.3g})", op="__pow__", nontrivial=power not in (0, 1),
                  feat={"power": int(power)})


def install(ctx):
    import geometer.transformation as T

    core.wrap_method(T.TransformationTensor, "apply", post_apply)
    core.wrap_method(T.TransformationTensor, "inverse", post_inverse)
    core.wrap_method(T.TransformationTensor, "__pow__", post_pow)


# ---------------------------------------------------------------------------------
# workload
# ---------------------------------------------------------------------------------

def _rand_matrix(rng, n, kind):
    import geometer as g

    if kind == 0:
        return gen.invertible_int_matrix(rng, n, 3)
    if kind == 1:
        return gen.invertible_int_matrix(rng, n, 2, affine=True)
    if kind == 2:
        return gen.unimodular(rng, n)
    if kind == 3:
        m = rng.uniform(-2, 2, size=(n, n)) + 3 * np.eye(n)
        return m
    if kind == 4:
        a = float(rng.uniform(-3, 3))
        return (g.rotation(a) if n == 3 else g.rotation(a, axis=g.Point(*gen.nonzero_vec(rng, 3, 3)))).array
    return g.translation(*[int(x) for x in rng.integers(-4, 5, size=n - 1)]).array


def _transformables(pool):
    from geometer.transformation import TransformationTensor

    return [(n, o) for n, o in pool if S._is_tensor(o) and not isinstance(o, TransformationTensor) and not n.startswith("p_inf")]


def g_words(ctx, rng, i):
    """Histories: random words over {s,t,s^-1,t^-1} applied step by step; the final object must be the image under the reference product."""
    import geometer as g
    from geometer.shapes import PolytopeTensor

    dim = 2 + i % 2
    n = dim + 1
    pool = catalog.build_pool(rng, dim, cshape=[(3,), (2, 2)][(i // 2) % 2], with_transforms=False)
    def well_conditioned(kind):
        # long words amplify rounding errors with the square of the condition number per step (contravariant objects): keep it moderate
        for _ in range(50):
            m = _rand_matrix(rng, n, kind)
            if np.linalg.cond(np.asarray(m, dtype=float)) <= 30:
                return m
        return np.eye(n) + np.triu(np.ones((n, n)), 1)

    ms, mt = well_conditioned((i // 4) % 3), well_conditioned((i // 12) % 6)
    s = g.Transformation(ms)
    t = g.Transformation(mt)
    if i % 5 == 2:
        # the same (1, 1)-tensor handed over in the other storage layout: contravariant index first (what transpose() returns)
        from geometer.base import Tensor

        s = g.Transformation(Tensor(np.asarray(ms).T, covariant=[1]))
        t = g.Transformation(g.Transformation(mt).transpose())
    gens = {"s": s, "t": t, "S": s.inverse(), "T": t.inverse()}
    mats = {"s": np.asarray(ms), "t": np.asarray(mt)}
    si, _ = xform._inv(mats["s"])
    ti, _ = xform._inv(mats["t"])
    mats["S"], mats["T"] = si, ti
    conds = {k: float(np.linalg.cond(np.asarray(v, dtype=complex))) for k, v in mats.items()}
    objs = _transformables(pool)
    for name, obj in objs:
        L = int(rng.integers(1, 9))
        word = "".join(rng.choice(list("stST"), size=L))
        if rng.random() < 0.3:
            # a word that reduces to the identity
            half = "".join(rng.choice(list("stST"), size=max(1, L // 2)))
            word = half + half[::-1].swapcase()
        cur = obj
        prod = np.eye(n, dtype=complex)
        ok_run = True
        amp = 1.0 + sum(conds[ch] ** 2 for ch in word)  # error amplification along the history
        for ch in reversed(word):  # the word w = a1 a2 ... ak acts as a1(a2(...ak(x)))
            try:
                cur = gens[ch] * cur if rng.random() < 0.5 else gens[ch].apply(cur)
            except Exception as e:
                if _tiny_representative(cur, gens[ch]) and type(e).__name__ in ("LinearDependenceError", "NotCoplanar"):
                    # the homogeneous coordinates have shrunk along the history (inverse matrices with entries 1/det): the dependence tests of
                    # the library are absolute -- stated domain limit
                    ctx.skip("word", "representative below 1e-2 along the history (absolute tolerances: stated domain limit)")
                else:
                    ctx.judge("word", False, [obj, word], what=f"applying {ch} of the word {word} raised {type(e).__name__}: {e}", op="word", feat={"cls": type(obj).__name__})
                ok_run = False
                break
            prod = mats[ch].astype(complex) @ prod
        if not ok_run:
            continue
        P = g.Transformation(prod)
        check_image(ctx, "word", P, obj, cur, "word", what_prefix=f"word {word} on {name}: ", tol_scale=amp)
    # (s*t)*x == s*(t*x)
    st = s * t
    for name, obj in objs[:: max(1, len(objs) // 8)]:
        a = st * obj
        b = s * (t * obj)
        P = g.Transformation(mats["s"].astype(complex) @ mats["t"].astype(complex))
        check_image(ctx, "word", P, obj, a, "(s*t)*x", what_prefix=f"(s*t)*{name}: ")
        check_image(ctx, "word", P, obj, b, "s*(t*x)", what_prefix=f"s*(t*{name}): ")
    # history with the documented mutator: the matrix is edited in place between two applications (stale caches must not survive)
    te = g.Transformation(np.array(mats["t"], copy=True))
    for name, obj in objs[:: max(1, len(objs) // 5)]:
        te.apply(obj)
    te[0, n - 1] = te.array[0, n - 1] + 2
    te[n - 1, 0] = te.array[n - 1, 0] + (1 if abs(np.linalg.det(np.asarray(te.array, dtype=float))) > 0.5 else 0)
    if abs(np.linalg.det(np.asarray(te.array, dtype=float))) > 0.5:
        for name, obj in objs[:: max(1, len(objs) // 5)]:
            te.apply(obj)
            te * obj
    ident = g.identity(dim)
    for name, obj in objs[:: max(1, len(objs) // 6)]:
        check_image(ctx, "word", ident, obj, ident * obj, "identity", what_prefix=f"identity*{name}: ")


def g_powers(ctx, rng, i):
    import geometer as g

    dim = 2 + i % 2
    n = dim + 1
    m = _rand_matrix(rng, n, (i // 2) % 6)
    t = g.Transformation(m)
    for k in (-3, -2, -1, 0, 1, 2, 3, 5):
        try:
            t ** k
        except Exception as e:
            ctx.judge("pow", False, [m, k], what=f"t**{k} raised {type(e).__name__}: {e}", op="__pow__")
    t.inverse()
    # exponents of numpy integer types (what iterating over np.arange yields)
    for k in (np.int64(2), np.int32(-1), np.int64(0), np.uint8(3)):
        try:
            t ** k
        except Exception as e:
            ctx.judge("pow", False, [m, int(k)], what=f"t**{type(k).__name__}({int(k)}) raised {type(e).__name__}: {str(e)[:100]}", op="__pow__", feat={"power_type": type(k).__name__})
    # larger exponents on maps whose powers stay moderate: rotations, translations, unimodular shears
    big = [g.rotation(float(rng.uniform(-1, 1))) if dim == 2 else g.rotation(float(rng.uniform(-1, 1)), axis=g.Point(*gen.nonzero_vec(rng, 3, 2).tolist())),
           g.translation(*gen.coords(rng, (dim,), 3, "int").tolist())]
    sh = np.eye(n, dtype=int)
    sh[0, 1] = int(rng.integers(1, 3))
    big.append(g.Transformation(sh))
    # maps next to the identity (tiny translations / rotations) raised to large powers and composed in long chains: nothing may be dropped
    eps_v = np.array([gen.pick(rng, [4e-9, 2.5e-9, -7e-9])] + [0.0] * (dim - 1))
    t_eps = g.translation(*eps_v.tolist())
    for k in (2 ** 31, 2 ** 24 + 3, 10 ** 6):
        try:
            img = (t_eps ** k) * g.Point(*([0.0] * dim))
            got = np.real(np.asarray(img.normalized_array, dtype=complex))[:-1]
            ok = np.allclose(got, k * eps_v, rtol=1e-6, atol=1e-12)
            ctx.judge("pow", bool(ok), [eps_v, k], what=f"translation({eps_v[0]:g}, ...) ** {k} moves the origin to {got.tolist()} instead of {(k * eps_v).tolist()}", op="__pow__ (near identity)",
                      feat={"near_identity": True}, nontrivial=True)
        except Exception as e:  # noqa: BLE001
            ctx.judge("pow", False, [eps_v, k], what=f"translation(tiny) ** {k} raised {type(e).__name__}: {str(e)[:80]}", op="__pow__ (near identity)", feat={"near_identity": True, "exc": type(e).__name__})
    try:
        c_ = t_eps
        for _ in range(30):
            c_ = c_ * c_  # repeated doubling: 2**30 steps
        got = np.real(np.asarray((c_ * g.Point(*([0.0] * dim))).normalized_array, dtype=complex))[:-1]
        ctx.judge("word", bool(np.allclose(got, 2 ** 30 * eps_v, rtol=1e-6, atol=1e-12)), [eps_v], what=f"30 doublings of a tiny translation move the origin to {got.tolist()} instead of {(2 ** 30 * eps_v).tolist()}",
                  op="composition (near identity)", feat={"near_identity": True}, nontrivial=True)
        s_big = g.Transformation(_rand_matrix(rng, n, 0))
        p_ = g.Point(gen.finite_point(rng, dim))
        lhs, rhs = (s_big * t_eps) * p_, s_big * (t_eps * p_)
        r_ = X.proj_residual(np.asarray(lhs.array, dtype=complex), np.asarray(rhs.array, dtype=complex))
        ctx.judge("word", r_ <= 1e-12, [eps_v], what=f"(s*t)*p differs from s*(t*p) for a tiny translation t (residual {r_:.3g})", op="composition (near identity)", feat={"near_identity": True}, nontrivial=True)
    except Exception as e:  # noqa: BLE001
        ctx.judge("word", False, [eps_v], what=f"composition with a tiny translation raised {type(e).__name__}: {str(e)[:80]}", op="composition (near identity)", feat={"near_identity": True, "exc": type(e).__name__})
    # unipotent maps whose nilpotent part does not square to zero (a shear combined with a translation), integer and float
    un = np.eye(n) + np.triu(gen.coords(rng, (n, n), 2, "int"), 1)
    for j in range(n - 1):
        if un[j, j + 1] == 0:
            un[j, j + 1] = 1
    for tu in (g.Transformation(un.astype(int)), g.Transformation(un * gen.pick(rng, [1.0, 2.0, -0.5]))):
        for k in (2, 3, -1, -2, 5):
            try:
                tu ** k
            except Exception:
                pass  # judged by the monitor
    for tb_ in big:
        for k in (27, 30, -30):
            try:
                tb_ ** k
            except Exception:
                pass  # judged by the monitor
    ms = np.stack([_rand_matrix(rng, n, (i // 2 + j) % 4) for j in range(4)]).astype(float)
    for shape in ((4,), (2, 2)):
        tc = g.TransformationCollection(ms.reshape(shape + (n, n)))
        for k in (-2, -1, 0, 1, 2, 3):
            try:
                tc ** k
            except Exception as e:
                ctx.judge("pow", False, [ms, k], what=f"collection**{k} raised {type(e).__name__}: {e}", op="__pow__")
        tc.inverse()
        # collection of transformations on single objects and matching collections
        p = g.Point(gen.finite_point(rng, dim))
        tc * p
        tc.apply(g.PointCollection(np.stack([gen.finite_point(rng, dim, w=1) for _ in range(4)]).reshape(shape + (n,))))
        h = gen.nonzero_vec(rng, n, 5)
        tc * (g.Line(h) if dim == 2 else g.Plane(h))
        tc * t
        t * tc
    # one transformation on large collections (64 ... 200 elements, one and two axes) of points, hyperplanes, 3D lines and quadrics,
    # and the group laws on them
    s2 = g.Transformation(_rand_matrix(rng, n, (i // 2 + 1) % 4))
    for shape in ((64,), (70,), (8, 25))[i % 3:][:2]:
        kk = int(np.prod(shape))
        big_p = g.PointCollection(np.stack([gen.finite_point(rng, dim, w=1) for _ in range(kk)]).reshape(shape + (n,)))
        big_h = (g.LineCollection if dim == 2 else g.PlaneCollection)(np.stack([gen.nonzero_vec(rng, n, 5) for _ in range(kk)]).reshape(shape + (n,)))
        objs_ = [big_p, big_h]
        if dim == 3:
            objs_.append(g.join(big_p, g.PointCollection(np.asarray(big_p.array) + np.append(gen.nonzero_vec(rng, 3, 3), 0))))
        for x in objs_:
            try:
                y = t * x
                (s2 * t) * x
                s2 * y
                t.inverse() * y
            except Exception as e:
                ctx.judge("apply", False, [t, x], what=f"transformation of a collection of shape {shape} raised {type(e).__name__}: {e}", op="apply")
    # a transformation collection with more collection axes than the collection it acts on; the image is transformed again
    tc2 = g.TransformationCollection(np.stack([ms, ms[::-1]]))  # shape (2, 4)
    pc = g.PointCollection(np.stack([gen.finite_point(rng, dim, w=1) for _ in range(4)]))
    hc = (g.LineCollection if dim == 2 else g.PlaneCollection)(np.stack([gen.nonzero_vec(rng, n, 5) for _ in range(4)]))
    for x in (pc, hc):
        try:
            y = tc2 * x
            t * y
            tc2.inverse() * y
        except Exception as e:
            ctx.judge("apply", False, [tc2, x], what=f"(2,4) transformations applied to a (4,) collection, then transformed again: raised {type(e).__name__}: {e}", op="apply")
    # inverse on batches on both sides of the 64-matrix switch
    for cnt in (63, 64, 65):
        big = np.stack([_rand_matrix(rng, n, j % 4) for j in range(cnt)]).astype(float)
        g.TransformationCollection(big).inverse()
    # ... and with two or more collection axes (the batched kernels index the determinant per matrix)
    big = np.stack([_rand_matrix(rng, n, j % 4) for j in range(80)]).astype(float)
    for shape in ((8, 8), (16, 4), (4, 16), (2, 40), (2, 4, 8))[i % 5:][:2]:
        cnt = int(np.prod(shape))
        tb = g.TransformationCollection(big[:cnt].reshape(shape + (n, n)))
        tb.inverse()
        tb ** -1
        h = gen.nonzero_vec(rng, n, 5)
        tb * (g.Line(h) if dim == 2 else g.Plane(h))


GROUPS = [
    {"name": "words", "fn": g_words, "quick": 96, "thorough": 1440},
    {"name": "powers", "fn": g_powers, "quick": 72, "thorough": 720},
]
