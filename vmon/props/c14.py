"""C14 -- quadric-line intersection, tangents, polars and duals are mutually consistent."""
from __future__ import annotations

import math

import numpy as np

from .. import core, gen
from .. import exact as X
from .. import ref as R
from . import c04 as S

RULE = ("postconditions on QuadricTensor.intersect / Conic.intersect(line), tangent, is_tangent, polar, dual on every call: returned points lie on "
        "quadric and line (relative residuals), completeness against the roots of the quadratic form restricted to two basis points of the line "
        "(as a set; coincident pair once or twice; sqrt(eps) tolerance at double roots), tangent(at) = polar hyperplane containing the point / two "
        "tangents through an outside point with vanishing discriminant, is_tangent(h) <=> h^T adj(A) h = 0 exactly on integer data, dual.dual == self "
        "with alternating flags for every class. Workload: random symmetric integer matrices (definite, indefinite, rank deficient), circles, "
        "spheres, cones, cylinders x secants through two rational points, exact tangents (polars of rational points), lines missing the real locus, "
        "lines through the origin and at infinity; single and collection. Non-trivial: matrix with off-diagonal entries or centre off the origin; "
        "distinct by operand digest."
        " Also: quadrics moved by a transformation / translation after their dual or tangency was asked for, collections with per-element scales between 0.002 and 1000, 3D lines that carry rounding noise (rotated forth and back); dual.dual is the same kind of object as the quadric; the dual taken first and moved afterwards (t*q, q+v, q-v with non-orthogonal t) is the dual of the moved quadric; complex (Gaussian integer) lines of the plane and of space.")
SHARDS = (8, 16)
REQUIRED = ["intersect", "tangent", "is_tangent", "polar", "dual"]
ASSUMPTIONS = ["complex lines in 3D are outside the claimed domain", "secants that nearly coincide with a generator of a cone are ill-conditioned (not judged)"]
EXHAUSTIVE = {"quick": [], "thorough": []}


def _on_q(M, x):
    x = np.asarray(x, dtype=complex)
    M = np.asarray(M, dtype=complex)
    return abs(x @ M @ x) / max(1e-300, np.linalg.norm(M) * np.linalg.norm(x) ** 2)


def _line_basis(line, e):
    """Two orthonormal points spanning the single line element e (2D: coordinates, 3D: matrix)."""
    kind = R.kind_of(line)
    s = R.nsub_from_array(kind if kind != "hyper" else "hyper", e, line.tensor_shape)
    if s is None or s.dim != 2:
        return None
    return np.array(s.B), np.array(s.A)


def _small_det_regular(M):
    """Mechanism feature of finding F34: a regular matrix (relative to its size) whose determinant is below the absolute tolerance 1e-8."""
    try:
        Ms = np.asarray(M, dtype=complex).reshape((-1,) + np.shape(M)[-2:])
        dets = np.abs(np.linalg.det(Ms))
        scl = np.abs(Ms).max(axis=(-2, -1)) ** Ms.shape[-1]
        return bool(np.any((dets <= 1.5e-8) & (dets > 1e-12 * scl)))
    except Exception:
        return None


def post_intersect(ctx, call):
    from geometer.curve import QuadricTensor
    from geometer.point import LineTensor

    self, other = call.args[0], call.args[1]
    if not isinstance(other, LineTensor) or not isinstance(self, QuadricTensor):
        return
    if self.is_dual:
        ctx.skip("intersect", "dual quadric")
        return
    if not (R.finite(self.array) and R.finite(other.array)):
        return
    if np.abs(self.array).max() < 1e-12:
        ctx.skip("intersect", "numerically zero matrix (the section plane of an internal 3D reduction lies in the quadric)")
        return
    dim = self.shape[-1] - 1
    try:
        cshape = np.broadcast_shapes(S.coll_shape(self), S.coll_shape(other))
    except ValueError:
        return
    feat = {"cls": type(self).__name__, "dim": dim, "coll": bool(cshape)}
    # mechanism feature of finding F34: a regular quadric whose determinant is below the library's absolute tolerance 1e-8
    try:
        Ms = np.asarray(self.array, dtype=complex).reshape((-1,) + self.shape[-2:])
        dets = np.abs(np.linalg.det(Ms))
        scl = np.abs(Ms).max(axis=(-2, -1)) ** self.shape[-1]
        feat["small_det_regular"] = bool(np.any((dets <= 1.5e-8) & (dets > 1e-12 * scl)))
    except Exception:
        feat["small_det_regular"] = None
    if call.exc is not None:
        # a line contained in the quadric has infinitely many common points: not judged
        for pos in R.positions(tuple(cshape), 12):
            M = np.asarray(R.element_array(self, pos, cshape), dtype=complex)
            lb = _line_basis(other, R.element_array(other, pos, cshape))
            if lb is None or np.abs(M).max() < 1e-12:
                ctx.skip("intersect", "degenerate operand")
                return
            p, q = lb[0][0], lb[0][1]
            if max(abs(p @ M @ p), abs(p @ M @ q), abs(q @ M @ q)) <= 1e-9 * np.linalg.norm(M):
                ctx.skip("intersect", "line contained in the quadric")
                return
        ctx.judge("intersect", False, [self, other], what=f"intersect raised {type(call.exc).__name__}: {str(call.exc)[:100]}", op="intersect", feat={**feat, "exc": type(call.exc).__name__})
        return
    res = call.result
    if not isinstance(res, (list, tuple)) or not all(S._is_tensor(x) for x in res) or not 1 <= len(res) <= 2:
        ctx.judge("intersect", False, [self, other], what=f"result is not a list of one or two point objects: {type(res).__name__} of length {len(res) if hasattr(res, '__len__') else '?'}", op="intersect", feat=feat)
        return
    for pos in R.positions(tuple(cshape), 12):
        M = np.asarray(R.element_array(self, pos, cshape), dtype=complex)
        e = R.element_array(other, pos, cshape)
        lb = _line_basis(other, e)
        if lb is None or np.abs(M).max() < 1e-12:
            ctx.skip("intersect", "degenerate operand")
            continue
        B, Aann = lb
        p, q = B[0], B[1]
        a, b, c = p @ M @ p, p @ M @ q, q @ M @ q
        nm = np.linalg.norm(M)
        if max(abs(a), abs(b), abs(c)) <= 1e-9 * nm:
            ctx.skip("intersect", "line contained in the quadric")
            continue
        disc = b * b - a * c
        # reference roots (s, t): a s^2 + 2 b s t + c t^2 = 0
        sq = np.sqrt(complex(disc))
        big = max(abs(a), abs(b), abs(c))
        if abs(a) >= abs(c) and abs(a) > 1e-12 * big:
            roots = [((-b + sq) / a, 1.0), ((-b - sq) / a, 1.0)]
        elif abs(c) > 1e-12 * big:
            roots = [(1.0, (-b + sq) / c), (1.0, (-b - sq) / c)]
        else:
            roots = [(1.0, 0.0), (0.0, 1.0)]  # a = c = 0: the two basis points themselves
        refpts = [s * p + t * q for s, t in roots]
        double = abs(disc) <= 1e-8 * nm ** 2
        # conditioning: the two roots are well separated relative to sqrt(eps) or clearly coincident
        near_double = (not double) and abs(disc) <= 1e-5 * nm ** 2
        tol = 1e-7 if not (double or near_double) else 3e-4
        got = [np.asarray(x.array[pos] if S.coll_shape(x) else x.array, dtype=complex) for x in res]
        ok, why = True, ""
        for gpt in got:
            if not np.all(np.isfinite(gpt)) or not np.any(np.abs(gpt) > 0):
                ok, why = False, "a returned point is zero / non-finite"
                break
            rq = _on_q(M, gpt)
            rl = np.abs(Aann @ (gpt / np.linalg.norm(gpt))).max()
            if rq > (1e-8 if not (double or near_double) else 1e-6) or rl > (1e-8 if not (double or near_double) else 1e-6):
                ok, why = False, f"a returned point is not on the quadric (residual {rq:.3g}) or not on the line ({rl:.3g})"
                break
        if ok:
            for rp in refpts:
                if min(X.proj_residual(gpt, rp) for gpt in got) > tol:
                    ok, why = False, f"a common point is missing: reference {np.round(rp / rp[np.abs(rp).argmax()], 6)}"
                    break
        if ok and len(got) == 1 and not (double or near_double):
            ok, why = False, "only one point returned for a proper secant"
        nontriv = bool(np.count_nonzero(~np.isin(np.real(M), (0, 1, -1))) >= 2)
        ctx.note(("intersect_kind", f"dim{dim}:{'double' if double else 'real' if disc.real > 0 and abs(disc.imag) < 1e-12 else 'complex'}"))
        ctx.judge("intersect", ok, [M, e], what=f"intersect: {why}", op="intersect", feat={**feat, "double": bool(double)}, nontrivial=nontriv, observed=got)


def post_tangent_quadric(ctx, call):
    """QuadricTensor.tangent(at): the polar hyperplane M @ at."""
    if call.exc is not None:
        return
    self, at = call.args[0], call.args[1]
    if type(self).__name__ in ("Conic", "Circle", "Ellipse") and call.name.startswith("Conic"):
        return
    res = call.result
    if not (R.finite(self.array) and R.finite(at.array)) or self.is_dual:
        return
    try:
        cshape = np.broadcast_shapes(S.coll_shape(self), S.coll_shape(at))
    except ValueError:
        return
    for pos in R.positions(tuple(cshape), 12):
        M = np.asarray(R.element_array(self, pos, cshape), dtype=complex)
        x = np.asarray(R.element_array(at, pos, cshape), dtype=complex)
        want = M @ x
        if not np.any(np.abs(want) > 1e-12 * np.linalg.norm(M) * np.linalg.norm(x)):
            ctx.skip("tangent", "singular point of the quadric")
            continue
        got = np.asarray(res.array[pos] if S.coll_shape(res) else res.array)
        r = X.proj_residual(got, want)
        ok = r <= 1e-9
        if ok and _on_q(M, x) <= 1e-10:
            ok = abs(got @ x) <= 1e-8 * np.linalg.norm(got) * np.linalg.norm(x)
        ctx.judge("tangent", bool(ok), [M, x], what=f"tangent hyperplane is not the polar M x of the point (residual {r:.3g}) / does not contain the point", op="tangent", nontrivial=True)


def _disc_on_line(M, h):
    ns = np.linalg.svd(np.asarray(h, dtype=complex).reshape(1, -1))[2][1:].conj()
    p, q = ns[0], ns[1]
    a, b, c = p @ M @ p, p @ M @ q, q @ M @ q
    return abs(b * b - a * c) / max(1e-300, np.linalg.norm(M) ** 2)


def post_conic_tangent(ctx, call):
    if call.exc is not None:
        return
    self, at = call.args[0], call.args[1]
    if self.is_dual or not R.finite(self.array) or not R.finite(at.array) or at.array.ndim != 1:
        return
    M = np.asarray(self.array, dtype=complex)
    x = np.asarray(at.array, dtype=complex)
    res = call.result
    on = _on_q(M, x) <= 1e-9
    if not np.any(np.abs(M @ x) > 1e-12 * np.linalg.norm(M) * np.linalg.norm(x)):
        ctx.skip("tangent", "singular point of a degenerate conic (no tangent)")
        return
    if S._is_tensor(res):
        got = np.asarray(res.array)
        r = X.proj_residual(got, M @ x)
        ok = r <= 1e-9 and (not on or abs(got @ x) <= 1e-8 * np.linalg.norm(got) * np.linalg.norm(x))
        ctx.judge("tangent", bool(ok), [M, x], what=f"Conic.tangent at a point of the conic is not the polar line (residual {r:.3g})", op="Conic.tangent", nontrivial=True)
        return
    if isinstance(res, tuple) and len(res) == 2:
        if abs(np.linalg.det(M / np.linalg.norm(M))) < 1e-9:
            ctx.skip("tangent", "degenerate conic")
            return
        ok, why = True, ""
        for ln in res:
            h = np.asarray(ln.array, dtype=complex)
            if abs(h @ x) > 1e-7 * np.linalg.norm(h) * np.linalg.norm(x):
                ok, why = False, "a tangent does not pass through the point"
            elif _disc_on_line(M, h) > 1e-7:
                ok, why = False, f"a returned line is not tangent (discriminant {_disc_on_line(M, h):.3g})"
        if ok and X.proj_residual(res[0].array, res[1].array) < 1e-7:
            ok, why = False, "the two tangents coincide"
        ctx.judge("tangent", ok, [M, x], what=f"Conic.tangent from an outside point: {why}", op="Conic.tangent", nontrivial=True, feat={"small_det_regular": _small_det_regular(M)})


def post_is_tangent(ctx, call):
    if call.exc is not None:
        return
    self, plane = call.args[0], call.args[1]
    if self.is_dual or not (R.finite(self.array) and R.finite(plane.array)):
        return
    res = np.asarray(call.result)
    try:
        cshape = np.broadcast_shapes(S.coll_shape(self), S.coll_shape(plane))
    except ValueError:
        return
    integral = R.is_integral(self.array, 1000) and R.is_integral(plane.array, 1000)
    for pos in R.positions(tuple(cshape), 12):
        M = R.element_array(self, pos, cshape)
        h = R.element_array(plane, pos, cshape)
        if h.ndim != 1:
            ctx.skip("is_tangent", "not a hyperplane")
            continue
        Mc = np.asarray(M, dtype=complex)
        d = np.linalg.det(Mc / np.linalg.norm(Mc))
        if abs(d) < 1e-6:
            ctx.skip("is_tangent", "degenerate quadric (no dual)")
            continue
        if integral:
            adj = X.adjugate(X.mat(M))
            hv = X.vec(h)
            val = X.dot(hv, X.matvec(adj, hv))
            want = X.is_zero(val)
            # the library tests |h^T A^-1 h| <= 1e-8: clear when the exact value is 0 or moderately large
            dd = X.det(X.mat(M))
            mag = abs(complex(val / dd)) if not X.is_zero(dd) else 0
            if not want and mag < 1e-5:
                ctx.skip("is_tangent", "within the tolerance band")
                continue
        else:
            val = np.asarray(h, dtype=complex) @ np.linalg.inv(Mc) @ np.asarray(h, dtype=complex)
            if abs(val) < 1e-11:
                want = True
            elif abs(val) > 1e-5:
                want = False
            else:
                ctx.skip("is_tangent", "within the tolerance band")
                continue
        got = bool(res[pos] if cshape else res)
        ctx.judge("is_tangent", got == want, [M, h], what=f"is_tangent = {got}, h^T adj(A) h {'=' if want else '!='} 0", op="is_tangent", nontrivial=True, feat={"cls": type(self).__name__})


def post_polar(ctx, call):
    if call.exc is not None:
        return
    self, pt = call.args[0], call.args[1]
    if not (R.finite(self.array) and R.finite(pt.array)) or pt.array.ndim != 1:
        return
    want = np.asarray(self.array, dtype=complex) @ np.asarray(pt.array, dtype=complex)
    if not np.any(np.abs(want) > 1e-9 * np.abs(np.asarray(self.array)).max() * np.abs(np.asarray(pt.array)).max()):
        ctx.skip("polar", "singular point of a degenerate quadric (M p = 0 up to rounding): no polar")
        return
    r = X.proj_residual(call.result.array, want)
    ctx.judge("polar", r <= 1e-9, [self.array, pt.array], what=f"polar is not M p (residual {r:.3g})", op="polar", nontrivial=True)


def post_dual(ctx, call):
    self = call.args[0]
    if not R.finite(self.array):
        return
    Mc = np.asarray(self.array, dtype=complex)
    fs = S.coll_shape(self)
    n = self.shape[-1]
    dets = np.abs(np.linalg.det(Mc / np.linalg.norm(Mc, axis=(-2, -1), keepdims=True)))
    if np.any(dets < 1e-8):
        ctx.skip("dual", "degenerate quadric (no inverse matrix)")
        return
    if call.exc is not None:
        ctx.judge("dual", False, [self], what=f"dual raised {type(call.exc).__name__}: {str(call.exc)[:100]}", op="dual", feat={"cls": type(self).__name__, "exc": type(call.exc).__name__})
        return
    res = call.result
    ok = res.is_dual == (not self.is_dual) and res.array.shape == self.array.shape and res.tensor_shape == self.tensor_shape[::-1]
    why = "is_dual flag / index types do not alternate"
    if ok:
        for pos in R.positions(fs, 12):
            M = Mc[pos] if fs else Mc
            D = np.asarray(res.array[pos] if fs else res.array, dtype=complex)
            r = X.proj_residual((M @ D).ravel(), np.eye(n).ravel())
            if r > 1e-8:
                ok, why = False, f"dual matrix is not proportional to the inverse (residual {r:.3g})"
                break
    ctx.judge("dual", bool(ok), [self], what=f"dual: {why}", op="dual", feat={"cls": type(self).__name__}, nontrivial=True)
    if ok and call.depth == 0:
        try:
            back = res.dual
            r = X.proj_residual(np.asarray(back.array).ravel(), Mc.ravel()) if not fs else max(
                X.proj_residual(np.asarray(back.array[p]).ravel(), Mc[p].ravel()) for p in R.positions(fs, 12))
            ctx.judge("dual", r <= 1e-8 and back.is_dual == self.is_dual, [self], what=f"dual.dual differs from the quadric (residual {r:.3g})", op="dual.dual",
                      feat={"cls": type(self).__name__}, nontrivial=True)
            # the quadric of the tangent hyperplanes of the dual is the quadric itself, as the same kind of object (a conic stays a conic)
            ctx.judge("dual", type(back) is type(self), [self], what=f"dual.dual of a {type(self).__name__} is a {type(back).__name__}", op="dual.dual", feat={"cls": type(self).__name__},
                      nontrivial=True)
        except Exception as e:
            ctx.judge("dual", False, [self], what=f"dual.dual raised {type(e).__name__}", op="dual.dual", feat={"cls": type(self).__name__})


def f34_small_regular_quadric(rec, feat):
    """QuadricTensor.is_degenerate compares the determinant with the absolute tolerance 1e-8, whatever the magnitude of the matrix: a
    small regular quadric (the circle of radius 0.1 about the origin has the matrix diag(1e-2, 1e-2, -1e-4), determinant -1e-8) is
    taken for a pair of lines and intersect() splits it into garbage components."""
    return rec["monitor"] in ("intersect", "tangent") and feat.get("small_det_regular") is True


CLASSIFIERS = {"f34_small_regular_quadric": f34_small_regular_quadric}


def install(ctx):
    import geometer.curve as C

    core.wrap_method_everywhere(C.QuadricTensor, "intersect", post_intersect)  # every class of the tree that defines intersect itself
    core.wrap_method(C.QuadricTensor, "tangent", post_tangent_quadric)
    core.wrap_method(C.Conic, "tangent", post_conic_tangent)
    core.wrap_method(C.QuadricTensor, "is_tangent", post_is_tangent)
    core.wrap_method(C.Conic, "polar", post_polar)
    core.wrap_method(C.QuadricTensor, "dual", post_dual)


# ---------------------------------------------------------------------------------
# workload
# ---------------------------------------------------------------------------------

def _try(f, *a, **k):
    try:
        return f(*a, **k)
    except Exception:
        return None


def _sym(rng, n, kind):
    """Symmetric integer matrix: 0 indefinite generic, 1 definite (no real points), 2 rank deficient, 3 diagonal."""
    m = gen.coords(rng, (n, n), 3, "int")
    A = m + m.T
    if kind == 1:
        A = m @ m.T + np.eye(n, dtype=int)
    elif kind == 2:
        v, w = gen.nonzero_vec(rng, n, 3), gen.nonzero_vec(rng, n, 3)
        A = np.outer(v, w) + np.outer(w, v)
    elif kind == 3:
        A = np.diag(rng.choice([1, 2, -1, -3, 5], size=n))
    else:
        A = A + np.diag([3, -5, 2, -1][:n])
    return A


def _rational_points_on(A, rng, k=2):
    """k rational points on the quadric x^T A x = 0 (if it has a rational point found by a short search)."""
    n = A.shape[0]
    pts = []
    # search a lattice point on the quadric, then parametrise through it
    for v in gen.lattice(n, 3):
        if v @ A @ v == 0:
            base = v
            break
    else:
        return []
    pts.append(base.astype(float))
    tries = 0
    while len(pts) < k and tries < 50:
        tries += 1
        u = gen.nonzero_vec(rng, n, 4).astype(float)
        den = u @ A @ u
        if abs(den) < 1e-9:
            continue
        x = base - 2 * (base @ A @ u) / den * u
        if np.linalg.norm(np.cross(np.append(x, 0)[:3], np.append(base, 0)[:3])) < 1e-9 and n == 3:
            continue
        if X.proj_residual(x, base) > 1e-6:
            pts.append(x)
    return pts


def g_generic(ctx, rng, i):
    import geometer as g

    dim = 2 + i % 2
    n = dim + 1
    kind = (i // 2) % 4
    A = _sym(rng, n, kind)
    Q = g.Conic(A) if dim == 2 else g.Quadric(A)
    mk = (lambda p, q: g.Line(g.Point(p), g.Point(q)))
    # secant through two rational points of the quadric
    rp = _rational_points_on(A, rng, 3)
    if len(rp) >= 2:
        l = _try(mk, rp[0], rp[1])
        if l is not None:
            _try(Q.intersect, l)
        # exact tangent: polar of a rational point
        x = rp[0]
        h = A @ x
        if np.any(h != 0):
            T = (g.Line if dim == 2 else g.Plane)(h)
            _try(Q.is_tangent, T)
            _try(Q.tangent, g.Point(x))
            if dim == 2:
                _try(Q.intersect, T)  # tangent line: double point
                _try(Q.polar, g.Point(x))
            else:
                # a tangent line in the tangent plane through the point
                u = gen.nonzero_vec(rng, n, 3).astype(float)
                w = u - (h @ u) / (h @ h) * h  # point of the tangent plane
                w = w + 0.0
                if X.proj_residual(w + x, x) > 1e-6:
                    lt = _try(mk, x, x + w - (h @ (x + w)) / (h @ h) * h if False else x + w)
                    if lt is not None and abs(h @ (x + w)) < 1e-9:
                        _try(Q.intersect, lt)
    # generic lines: random, through the origin, at infinity
    for _ in range(3):
        p, q = gen.nonzero_vec(rng, n, 4), gen.nonzero_vec(rng, n, 4)
        if X.rank([X.vec(p), X.vec(q)]) == 2:
            l = _try(mk, p, q)
            if l is not None:
                _try(Q.intersect, l)
    o = np.zeros(n)
    o[-1] = 1
    l = _try(mk, o, gen.nonzero_vec(rng, n, 4) + o * 0)
    if l is not None:
        _try(Q.intersect, l)
    if dim == 2:
        _try(Q.intersect, g.infty)
        _try(Q.intersect, g.Line(gen.nonzero_vec(rng, 3, 4)))
    # hyperplanes: is_tangent on random lattice hyperplanes; tangent / polar of outside points
    for _ in range(3):
        h = gen.nonzero_vec(rng, n, 4)
        _try(Q.is_tangent, (g.Line if dim == 2 else g.Plane)(h))
    pt = g.Point(gen.nonzero_vec(rng, n, 4))
    _try(Q.tangent, pt)
    if dim == 2:
        _try(Q.polar, pt)
        # pole of the polar is the point
        pl = _try(Q.polar, pt)
        if pl is not None and abs(np.linalg.det(A)) > 0.5:
            pole = np.linalg.solve(A.astype(float), np.asarray(pl.array, dtype=float))
            ctx.judge("polar", X.proj_residual(pole, pt.array) <= 1e-8, [A, pt.array], what="pole(polar(p)) != p", op="pole∘polar", nontrivial=True)
    _try(lambda: Q.dual)
    # complex lines (through two points with Gaussian integer coordinates), in the plane and in space
    if i % 3 == 1:
        for _ in range(3):
            cp_, cq_ = (gen.coords(rng, (n,), 3, "int") + 1j * gen.coords(rng, (n,), 3, "int") for _ in range(2))
            if np.linalg.matrix_rank(np.stack([cp_, cq_])) == 2:
                lcx = _try(mk, cp_, cq_)
                if lcx is not None:
                    _try(Q.intersect, lcx)
    # the quadric moved after its dual / tangency was asked for: the same questions on the image
    tm = gen.invertible_int_matrix(rng, n, 2)
    t = g.Transformation(tm)
    for Qm in (_try(lambda: t * Q), _try(lambda: Q + g.Point(*gen.coords(rng, (dim,), 4, "int").tolist()))):
        if Qm is None or not hasattr(Qm, "is_tangent"):
            continue
        _try(lambda: Qm.dual)
        for _ in range(2):
            _try(Qm.is_tangent, (g.Line if dim == 2 else g.Plane)(gen.nonzero_vec(rng, n, 4)))
        x = g.Point(gen.nonzero_vec(rng, n, 4))
        _try(Qm.tangent, x)
        if dim == 2:
            _try(Qm.polar, x)
        p, q = gen.nonzero_vec(rng, n, 4), gen.nonzero_vec(rng, n, 4)
        if X.rank([X.vec(p), X.vec(q)]) == 2:
            lm = _try(mk, p, q)
            if lm is not None:
                _try(Qm.intersect, lm)
    # the dual taken first and moved afterwards is the dual of the moved quadric (non-orthogonal maps, translations)
    if abs(np.linalg.det(A.astype(float))) > 0.5:
        vt = g.Point(*gen.coords(rng, (dim,), 4, "int").tolist())
        for name, mv in (("t*q", lambda q_: t * q_), ("q+v", lambda q_: q_ + vt), ("q-v", lambda q_: q_ - vt)):
            try:
                lhs, rhs = mv(Q.dual), mv(Q).dual
                r = X.proj_residual(np.asarray(lhs.array, dtype=complex).ravel(), np.asarray(rhs.array, dtype=complex).ravel())
                ok = r <= 1e-8 * max(1.0, float(np.linalg.cond(A.astype(float))) * float(np.linalg.cond(tm.astype(float))) ** 2) and bool(lhs.is_dual) and bool(rhs.is_dual)
                ctx.judge("dual", ok, [A, tm], what=f"{name}: the moved dual is not the dual of the moved quadric (residual {r:.3g}, is_dual {lhs.is_dual}/{rhs.is_dual})", op="dual∘move",
                          feat={"move": name}, nontrivial=True)
            except Exception as e:  # noqa: BLE001
                ctx.judge("dual", False, [A, tm], what=f"{name} on the dual raised {type(e).__name__}: {str(e)[:80]}", op="dual∘move", feat={"move": name, "exc": type(e).__name__})
    # collections
    shape = gen.pick(rng, [(3,), (2, 2)])
    k = int(np.prod(shape))
    As = np.stack([_sym(rng, n, int(rng.integers(0, 4)) if j else kind) for j in range(k)]).reshape(shape + (n, n))
    QC = g.QuadricCollection(As)
    ps = np.stack([gen.nonzero_vec(rng, n, 4) for _ in range(k)]).reshape(shape + (n,))
    qs = ps + np.stack([gen.nonzero_vec(rng, n, 3) for _ in range(k)]).reshape(shape + (n,))
    try:
        LC = g.join(g.PointCollection(ps), g.PointCollection(qs))
        _try(QC.intersect, LC)
        _try(Q.intersect, LC)
        _try(QC.intersect, LC[(0,) * len(shape)])
        # the same lines / quadrics in representatives of very different scale per element (any tolerance must be relative to the element)
        lam = np.array([gen.pick(rng, [1.0, 1000.0, 0.002, -300.0, 0.5]) for _ in range(k)]).reshape(shape)
        LS = type(LC)(LC.array * lam.reshape(shape + (1,) * (LC.array.ndim - len(shape))), copy=True) if dim == 2 else None
        if LS is not None:
            _try(Q.intersect, LS)
            _try(QC.intersect, LS)
        mu = np.array([gen.pick(rng, [1.0, 200.0, 0.01, -50.0]) for _ in range(k)]).reshape(shape + (1, 1))
        _try(g.QuadricCollection(As * mu).intersect, LC)
    except Exception:
        pass
    if dim == 3:
        # special positions: coordinate axes, axis-parallel lines and lines through the origin in one collection (no common non-zero Pluecker row)
        o = np.array([0, 0, 0, 1])
        ex, ey, ez = np.eye(4, dtype=int)[:3]
        off = np.append(gen.coords(rng, (3,), 3, "int"), 0)
        starts = np.stack([o, o, o, o + off, o + off, o])
        ends = np.stack([o + ex, o + ey, o + ez, o + off + ex, o + off + ez, o + np.append(gen.nonzero_vec(rng, 3, 3), 0)])
        try:
            SC = g.join(g.PointCollection(starts), g.PointCollection(ends))
            _try(Q.intersect, SC)
            _try(g.Sphere(g.Point(1, -1, 2), 3).intersect, SC)
            for j in range(len(starts)):
                _try(Q.intersect, g.Line(g.Point(starts[j]), g.Point(ends[j])))
        except Exception:
            pass
    hs = np.stack([gen.nonzero_vec(rng, n, 4) for _ in range(k)]).reshape(shape + (n,))
    HC = (g.LineCollection if dim == 2 else g.PlaneCollection)(hs)
    _try(QC.is_tangent, HC)
    _try(QC.tangent, g.PointCollection(ps))
    _try(lambda: QC.dual)
    # elements taken out of the dual collection (index, iteration, slice) are dual quadrics: dual again gives the original quadric
    qd = _try(lambda: QC.dual)
    if qd is not None:
        first = (0,) * len(shape)
        for e_ in (_try(lambda: qd[first if len(first) > 1 else 0]), _try(lambda: next(iter(qd))) if len(shape) == 1 else None, _try(lambda: qd[0:1])):
            if e_ is None or not hasattr(type(e_), "dual"):
                continue
            back = _try(lambda: e_.dual)
            want = As[first] if e_.array.ndim == 2 else (As[0:1] if e_.array.shape == As[0:1].shape else None)
            cond_ = float(np.max(np.linalg.cond(np.asarray(want if want is not None else As[first], dtype=float))))
            if back is not None and want is not None and cond_ < 1e5:
                r = max(X.proj_residual(np.asarray(x, dtype=complex).ravel(), np.asarray(y, dtype=complex).ravel())
                        for x, y in zip(np.asarray(back.array).reshape((-1, n, n)), np.asarray(want).reshape((-1, n, n))))
                ctx.judge("dual", bool(r <= 1e-12 * cond_ ** 2 + 1e-10 and back.is_dual is False and e_.is_dual is True), [As[first]], op="QuadricCollection.dual[k].dual", nontrivial=True,
                          what=f"element of the dual collection: is_dual {e_.is_dual}, its dual: is_dual {back.is_dual}, residual to the original matrix {r:.3g}")


def g_special(ctx, rng, i):
    """Circles, spheres, cones, cylinders: secants through known points, tangents, duals."""
    import geometer as g

    kind = i % 4
    if kind == 0:
        c = gen.coords(rng, (2,), 5, "int").astype(float)
        r = float(gen.pick(rng, [1, 2, 5, 13, 2.5]))
        if (i // 4) % 3 == 2:
            # small circles, also about the origin (matrix entries r^2, r^2, r^4 ...): ordinary objects, not degenerate ones
            r = float(gen.pick(rng, [0.5, 0.25, 0.125, 0.0625]))
            c = c * float(gen.pick(rng, [0, 0, 1]))
        Q = g.Circle(g.Point(*c), r)
        ts = rng.choice([0.0, 0.5, 1.0, 2.0, -1.0, -3.0, 1.5], size=2, replace=False)
        P = [np.array([c[0] + r * (1 - t * t) / (1 + t * t), c[1] + r * 2 * t / (1 + t * t), 1.0]) for t in ts]
        l = g.Line(g.Point(P[0]), g.Point(P[1]))
        _try(Q.intersect, l)
        tan = g.Line(np.asarray(Q.array) @ P[0])
        _try(Q.intersect, tan)
        _try(Q.is_tangent, tan)
        _try(Q.is_tangent, l)
        _try(Q.tangent, g.Point(P[0]))
        out = g.Point(*(c + np.array([2 * r, r])))
        _try(Q.tangent, out)
        _try(Q.intersect, g.Line(0, 1, -(c[1] + 2 * r)))  # misses the circle: complex pair
        _try(Q.intersect, g.Line(0, 1, -(c[1] + r)))  # horizontal tangent
        _try(lambda: Q.dual)
        E = g.Ellipse(g.Point(*c), r, r + 1)
        _try(lambda: E.dual)
        _try(E.intersect, g.Line(g.Point(*c), g.Point(*(c + [1, 2]))))
        _try(E.tangent, g.Point(c[0] + r, c[1]))
        _try(E.is_tangent, g.Line(1, 0, -(c[0] + r)))
    elif kind == 1:
        c = gen.coords(rng, (3,), 4, "int").astype(float)
        r = float(gen.pick(rng, [1, 3, 7, 2.5]))
        Q = g.Sphere(g.Point(*c), r)
        # rational points of the sphere (stereographic)
        P = []
        for _ in range(2):
            s, t = (float(x) for x in rng.choice([0, 1, 2, -1, 0.5, -2, 3], size=2))
            d = 1 + s * s + t * t
            P.append(np.append(c + r * np.array([2 * s / d, 2 * t / d, (s * s + t * t - 1) / d]), 1.0))
        if X.proj_residual(P[0], P[1]) > 1e-6:
            _try(Q.intersect, g.Line(g.Point(P[0]), g.Point(P[1])))
        tp = g.Plane(np.asarray(Q.array) @ P[0])
        _try(Q.is_tangent, tp)
        _try(Q.is_tangent, g.Plane(gen.nonzero_vec(rng, 4, 3)))
        _try(Q.tangent, g.Point(P[0]))
        # tangent line: through P0 inside the tangent plane
        n_ = (P[0][:3] - c)
        u = np.cross(n_, gen.nonzero_vec(rng, 3, 3))
        if np.linalg.norm(u) > 1e-6:
            _try(Q.intersect, g.Line(g.Point(P[0]), g.Point(np.append(P[0][:3] + u, 1.0))))
        _try(Q.intersect, g.Line(g.Point(*(c + [0, 0, 2 * r])), g.Point(*(c + [1, 0, 2 * r]))))  # misses
        _try(Q.intersect, g.Line(g.Point(*c), g.Point(*(c + gen.nonzero_vec(rng, 3, 3)))))  # through the centre
        _try(lambda: Q.dual)
        # lines that are the result of other library calls (rotated forth and back, translated: coordinates carry rounding noise, entries
        # that are exactly zero for a typed-in line are 1e-17 here), in particular axis-parallel ones
        rot = g.rotation(float(rng.uniform(-3, 3)), axis=g.Point(*gen.nonzero_vec(rng, 3, 2).tolist()))
        for a_, b_ in ((c + [0.5, 0.25, -3], c + [0.5, 0.25, 3]), (c + [-5, 0.5, 0.25], c + [5, 0.5, 0.25]), (P[0][:3], P[1][:3])):
            if np.linalg.norm(np.asarray(a_) - np.asarray(b_)) < 1e-9:
                continue
            ln = g.Line(g.Point(*a_), g.Point(*b_))
            noisy = _try(lambda: rot.inverse() * (rot * ln))
            if noisy is not None:
                _try(Q.intersect, noisy)
    else:
        v = gen.coords(rng, (3,), 3, "int").astype(float)
        d = gen.nonzero_vec(rng, 3, 3).astype(float)
        r = float(gen.pick(rng, [1, 2, 0.5]))
        Q = g.Cone(g.Point(*v), g.Point(*(v + d)), r) if kind == 2 else g.Cylinder(g.Point(*v), g.Point(*d), r)
        u = d / np.linalg.norm(d)
        a = np.cross(u, [1, 0, 0]) if abs(u[0]) < 0.9 else np.cross(u, [0, 1, 0])
        a /= np.linalg.norm(a)
        b = np.cross(u, a)
        # two points of the surface on different generators
        ang = rng.uniform(0, 6, size=2)
        hts = rng.uniform(0.5, 2.0, size=2)
        P = []
        for an, ht in zip(ang, hts):
            rad = r * ht if kind == 2 else r
            P.append(np.append(v + d * ht + rad * (math.cos(an) * a + math.sin(an) * b) * (np.linalg.norm(d) if False else 1.0), 1.0))
        if kind == 2:
            # cone: radius grows linearly with the distance along the axis: at height t*|d| the radius is t*r
            P = [np.append(v + d * ht + (r * ht) * (math.cos(an) * a + math.sin(an) * b), 1.0) for an, ht in zip(ang, hts)]
        else:
            P = [np.append(v + d * ht + r * (math.cos(an) * a + math.sin(an) * b), 1.0) for an, ht in zip(ang, hts)]
        if abs(ang[0] - ang[1]) > 0.3:
            _try(Q.intersect, g.Line(g.Point(P[0]), g.Point(P[1])))
        _try(Q.intersect, g.Line(g.Point(*(v + 3 * a + b)), g.Point(*(v + 3 * a + b + gen.nonzero_vec(rng, 3, 3)))))
        _try(Q.tangent, g.Point(P[0]))


GROUPS = [
    {"name": "generic", "fn": g_generic, "quick": 800, "thorough": 8000},
    {"name": "special", "fn": g_special, "quick": 400, "thorough": 4000},
]
