"""C05 -- tensor diagrams equal the Einstein sum they denote; epsilon/delta are exact."""
from __future__ import annotations

import itertools
import string

import numpy as np

from .. import core, gen
from .. import exact as X

RULE = ("diagram programs: 1-4 nodes of rank 1-4, dimensions 2-4, random index-type patterns, 0-2 collection axes (right-aligned, "
        "length-1 axes included), 1-6 edges incl. repeated edges between one pair, reuse of a node object, isolated nodes and edges the "
        "model predicts to fail; the boundary history (add_node/add_edge calls with node identities) is recorded and replayed by an "
        "independent reference that builds its own einsum subscript string. epsilon(n) and delta(n,p) are compared entry by entry with "
        "permutation parity / the Leibniz determinant. Non-trivial = a diagram with at least one contraction, or a tensor entry; "
        "distinct by digest of node arrays, index types and edge list."
        " Staged evaluation (evaluate, add edges, evaluate again, evaluate twice), nodes of rank 9-10, diagrams of small-integer tensors only (reference einsum widened to 64 bit), copies of diagrams extended independently, Kronecker deltas requested repeatedly and with swapped sizes in one process. Collection shapes with up to four axes of different lengths, a later node bringing two or three more collection axes than the nodes before it; edges from a node to itself on nodes that are part of the diagram (traces); a rejected add_edge followed by an evaluation (the diagram is the one before the rejected call); tensor_product at rank 9-10; nodes whose collection axis is not the leading one (t[:, None, :], t[:, [0, 1]]).")
SHARDS = (8, 16)
REQUIRED = ["diagram.calculate", "diagram.add_edge", "tensor.mul", "epsilon", "delta"]
ASSUMPTIONS = ["numpy.einsum in string form is correct (the library uses the interleaved integer form)", "wrappers behaviour-preserving"]
EXHAUSTIVE = {"quick": ["every entry of epsilon(n), n=1..7", "every entry of delta(n,p) for n<=4 (all p) and n=5, p<=3"],
              "thorough": ["every entry of epsilon(n), n=1..8", "every entry of delta(n,p) for n<=5 (all p<=n, p<=5)"]}

LETTERS = string.ascii_letters


# ---------------------------------------------------------------------------------
# the model of a diagram: replayed from the recorded boundary history
# ---------------------------------------------------------------------------------

class Model:
    def __init__(self):
        self.nodes = []  # node objects (identity)
        self.cov = []  # unused covariant axes per node (sorted)
        self.con = []
        self.edges = []  # (si, ti, i, j)
        self.tainted = None

    def index_of(self, node):
        for k, n in enumerate(self.nodes):
            if n is node:
                return k
        return None

    def add_node(self, node):
        self.nodes.append(node)
        self.cov.append(sorted(node._covariant_indices))
        self.con.append(sorted(node._contravariant_indices))


def spec_edge(m, src, tgt):
    """The statement's rule for one edge on a model (nodes enter in order of first appearance, source first)."""
    si = m.index_of(src)
    if si is None:
        m.add_node(src)
        si = len(m.nodes) - 1
    ti = m.index_of(tgt)
    if ti is None:
        m.add_node(tgt)
        ti = len(m.nodes) - 1
    if not m.cov[si] or not m.con[ti]:
        return False
    i = m.cov[si].pop(0)
    j = m.con[ti].pop(0)
    m.edges.append((si, ti, i, j))
    return src.shape[i] == tgt.shape[j]


def hist(d):
    return d.__dict__.setdefault("_vmon_hist", [])


def post_add_node(ctx, call):
    if call.exc is not None:
        return
    d, node = call.args[0], call.args[1]
    hist(d).append(("node", node))


def pre_add_edge(ctx, call):
    d, src, tgt = call.args[0], call.args[1], call.args[2]
    # the model state *before* the edge: replay what was recorded so far
    m = replay(hist(d))
    m.hist_len = len(hist(d))
    return m


def replay(events):
    m = Model()
    for ev in events:
        if ev[0] == "node":
            m.add_node(ev[1])
        elif ev[0] == "edge":
            _, src, tgt, failed = ev
            if failed:
                continue  # a rejected edge leaves the diagram as it was
            if src is tgt and m.index_of(src) is None:
                m.tainted = "self-edge on a node that is not yet part of the diagram"
            si, ti = m.index_of(src), m.index_of(tgt)
            if si is None or ti is None or not m.cov[si] or not m.con[ti]:
                m.tainted = m.tainted or "history inconsistent"
                continue
            i = m.cov[si].pop(0)
            j = m.con[ti].pop(0)
            m.edges.append((si, ti, i, j))
    return m


def post_add_edge(ctx, call):
    from geometer.exceptions import TensorComputationError

    d, src, tgt = call.args[0], call.args[1], call.args[2]
    h = hist(d)
    failed = call.exc is not None
    m = call.pre
    if failed and m is not None:
        del h[m.hist_len:]  # nodes registered by the rejected call do not stay in the diagram
    h.append(("edge", src, tgt, failed))
    if m is None or m.tainted:
        ctx.skip("diagram.add_edge", f"not judged: {m.tainted if m else 'no model'}")
        return
    if src is tgt and m.index_of(src) is None:
        ctx.skip("diagram.add_edge", "self-edge on a node that is not yet part of the diagram (outside the claimed domain)")
        return
    # model prediction: nodes not yet present are added with all their indices unused
    si, ti = m.index_of(src), m.index_of(tgt)
    cov = m.cov[si] if si is not None else sorted(src._covariant_indices)
    con = m.con[ti] if ti is not None else sorted(tgt._contravariant_indices)
    if not cov or not con:
        want = "no index left"
    elif src.shape[cov[0]] != tgt.shape[con[0]]:
        want = "dimension mismatch"
    else:
        want = None
    ops = [src, tgt, [list(map(int, cov)), list(map(int, con))]]
    if want is None:
        ctx.judge("diagram.add_edge", not failed, ops, what=f"add_edge raised {type(call.exc).__name__} although indices of equal dimension are left", op="add_edge", nontrivial=True)
    else:
        ok = isinstance(call.exc, TensorComputationError)
        ctx.judge("diagram.add_edge", ok, ops, what=f"{want}: expected TensorComputationError, got {type(call.exc).__name__ if failed else 'normal return'}", op="add_edge", nontrivial=True)


def reference_einsum(m):
    """Own subscript string for the model: returns (array, n_free, n_cov, n_con)."""
    letters = iter(LETTERS)
    labels = [[None] * n.rank for n in m.nodes]
    for si, ti, i, j in m.edges:
        l = next(letters)
        labels[si][i] = l
        labels[ti][j] = l
    free = []  # result collection letters, leftmost first
    for k, n in enumerate(m.nodes):
        # the collection axes of the node (in front for freshly built tensors, anywhere for tensors that came out of an indexing expression)
        fa = sorted(set(range(n.rank)) - set(n._covariant_indices) - set(n._contravariant_indices))
        f = len(fa)
        # align from the right
        for pos in range(f):
            axis = fa[f - 1 - pos]  # pos-th collection axis counted from the right
            if pos < len(free):
                labels[k][axis] = free[len(free) - 1 - pos]
            else:
                l = next(letters)
                free.insert(0, l)
                labels[k][axis] = l
    out_cov, out_con = [], []
    for k, n in enumerate(m.nodes):
        for ax in m.cov[k]:
            l = next(letters)
            labels[k][ax] = l
            out_cov.append(l)
    for k, n in enumerate(m.nodes):
        for ax in m.con[k]:
            l = next(letters)
            labels[k][ax] = l
            out_con.append(l)
    for k, lab in enumerate(labels):
        assert all(x is not None for x in lab), (k, lab)
    sub = ",".join("".join(l) for l in labels) + "->" + "".join(free + out_cov + out_con)
    # integer operands are widened: the reference must not share a wrap-around of small integer types with the library
    arr = np.einsum(sub, *[np.array(n.array, dtype=np.int64 if n.array.dtype.kind in "iub" else None, copy=True) for n in m.nodes])
    return arr, len(free), len(out_cov), len(out_con), sub


def post_calculate(ctx, call):
    d = call.args[0]
    h = d.__dict__.get("_vmon_hist")
    if h is None:
        ctx.skip("diagram.calculate", "diagram without recorded history (copy)")
        return
    m = replay(h)
    if m.tainted:
        ctx.skip("diagram.calculate", f"not judged: {m.tainted}")
        return
    if not m.nodes:
        ctx.skip("diagram.calculate", "empty diagram")
        return
    ops = [[n.array for n in m.nodes], [[sorted(n._covariant_indices), sorted(n._contravariant_indices)] for n in m.nodes], [list(e) for e in m.edges]]
    try:
        ref, nfree, ncov, ncon, sub = reference_einsum(m)
    except Exception as e:
        if call.exc is not None:
            ctx.skip("diagram.calculate", "reference and library both raise (incompatible collection shapes)")
        else:
            ctx.judge("diagram.calculate", False, ops, what=f"library returned a result where the reference einsum raises {type(e).__name__}: {e}", op="calculate")
        return
    if call.exc is not None:
        ctx.judge("diagram.calculate", False, ops, what=f"calculate raised {type(call.exc).__name__}: {call.exc}; reference: {sub}", op="calculate")
        return
    res = call.result
    ctx.note(("diagram_nodes", str(len(m.nodes))))
    ctx.note(("diagram_free_axes", str(nfree)))
    ok = True
    why = ""
    if res.array.shape != ref.shape:
        ok, why = False, f"shape {res.array.shape} != reference {ref.shape} ({sub})"
    elif res.tensor_shape != (ncov, ncon) or res.free_indices != nfree:
        ok, why = False, f"tensor_shape/free {res.tensor_shape}/{res.free_indices} != {(ncov, ncon)}/{nfree}"
    elif sorted(res._covariant_indices) != list(range(nfree, nfree + ncov)) or sorted(res._contravariant_indices) != list(range(nfree + ncov, nfree + ncov + ncon)):
        ok, why = False, "result indices are not ordered collection, covariant, contravariant"
    else:
        a, b = np.asarray(res.array), ref
        if a.dtype.kind in "iub" and b.dtype.kind in "iub":
            same = np.array_equal(a, b)
        else:
            scale = max(1.0, float(np.abs(b).max()) if b.size else 1.0)
            same = bool(np.all(np.abs(a - b) <= 1e-9 * scale)) if np.all(np.isfinite(b)) else True
        if not same:
            ok, why = False, f"values differ from the reference einsum {sub}"
    ctx.judge("diagram.calculate", ok, ops, what=why, op="calculate", nontrivial=len(m.edges) > 0, expected=ref if ref.size <= 64 else None,
              observed=res.array if res.array.size <= 64 else None)


# ---------------------------------------------------------------------------------
# Tensor.__mul__ / __rmul__ / __pow__ / tensor_product
# ---------------------------------------------------------------------------------

def _first(s):
    return min(s) if s else None


def _contract_pair(src, tgt):
    """Reference for the diagram with the single edge src -> tgt, computed directly (no diagram class)."""
    m = Model()
    if not spec_edge(m, src, tgt):
        return None
    return m


def post_mul(ctx, call):
    from geometer.base import Tensor
    from geometer.utils import is_numerical_scalar

    self, other = call.args[0], call.args[1]
    name = call.name
    if call.exc is not None:
        ctx.skip("tensor.mul", "raised")
        return
    res = call.result
    if is_numerical_scalar(other):
        ctx.skip("tensor.mul", "scalar operand (elementwise arithmetic is judged by C19)")
        return
    if not isinstance(other, Tensor):
        ctx.skip("tensor.mul", "array operand")
        return
    if other is self:
        ctx.skip("tensor.mul", "self-contraction")
        return
    # a * b = diagram (b -> a);  a.__rmul__(b) = diagram (a -> b)
    src, tgt = (other, self) if name.endswith("__mul__") else (self, other)
    m = _contract_pair(src, tgt)
    if m is None:
        ctx.skip("tensor.mul", "no index to contract")
        return
    try:
        ref, nfree, ncov, ncon, sub = reference_einsum(m)
    except Exception:
        ctx.skip("tensor.mul", "reference raises")
        return
    a = np.asarray(res.array)
    ok = a.shape == ref.shape and res.tensor_shape == (ncov, ncon)
    if ok:
        scale = max(1.0, float(np.abs(ref).max()) if ref.size else 1.0)
        ok = bool(np.all(np.abs(a - ref) <= 1e-9 * scale)) if np.all(np.isfinite(ref)) else True
    ctx.judge("tensor.mul", ok, [src, tgt], what=f"product differs from the contraction {sub}", op=name, nontrivial=True)


def post_pow(ctx, call):
    from geometer.base import Tensor

    self, power = call.args[0], call.args[1]
    if call.exc is not None or call.result is NotImplemented or not isinstance(power, int) or power < 1:
        return
    res = call.result
    if not isinstance(res, Tensor):
        return
    # reference: chain  x_{k} -> x_{k-1}: first covariant index of the newer copy with first contravariant of the previous
    m = Model()
    okm = True
    prev = self
    for k in range(1, power):
        cur = _Clone(self)
        if not spec_edge(m, cur, prev):
            okm = False
            break
        prev = cur
    if power == 1:
        m.add_node(self)
    if not okm:
        ctx.skip("tensor.pow", "no index left")
        return
    try:
        ref, nfree, ncov, ncon, sub = reference_einsum(m)
    except Exception:
        ctx.skip("tensor.pow", "reference raises")
        return
    a = np.asarray(res.array)
    ok = a.shape == ref.shape and res.tensor_shape == (ncov, ncon)
    if ok:
        scale = max(1.0, float(np.abs(ref).max()))
        ok = bool(np.all(np.abs(a - ref) <= 1e-9 * scale)) if np.all(np.isfinite(ref)) else True
    ctx.judge("tensor.pow", ok, [self, power], what=f"power differs from the chained contraction {sub}", op="__pow__", nontrivial=power > 1)


class _Clone:
    def __init__(self, t):
        self.array = t.array
        self._covariant_indices = t._covariant_indices
        self._contravariant_indices = t._contravariant_indices
        self.rank = t.rank
        self.shape = t.shape
        self.free_indices = t.free_indices


def post_tensor_product(ctx, call):
    if call.exc is not None:
        return
    a, b = call.args[0], call.args[1]
    res = call.result
    # reference: outer product, result axes: covariant of a, covariant of b, contravariant of a, contravariant of b
    la = [None] * a.rank
    lb = [None] * b.rank
    letters = iter(LETTERS)
    out = []
    for t, lab, sel in ((a, la, "_covariant_indices"), (b, lb, "_covariant_indices"), (a, la, "_contravariant_indices"), (b, lb, "_contravariant_indices")):
        for ax in sorted(getattr(t, sel)):
            l = next(letters)
            lab[ax] = l
            out.append(l)
    ref = np.einsum("".join(la) + "," + "".join(lb) + "->" + "".join(out), a.array, b.array)
    ncov = a.tensor_shape[0] + b.tensor_shape[0]
    ok = res.array.shape == ref.shape and np.allclose(res.array, ref, rtol=1e-12, atol=0) and sorted(res._covariant_indices) == list(range(ncov)) \
        and sorted(res._contravariant_indices) == list(range(ncov, ref.ndim))
    ctx.judge("tensor.product", bool(ok), [a, b], what="tensor_product differs from the outer product with covariant indices first", op="tensor_product")


def post_diagram_copy(ctx, call):
    """A copied diagram starts with the history of the original (and from then on has its own)."""
    if call.exc is None and call.result is not None:
        call.result.__dict__["_vmon_hist"] = list(hist(call.args[0]))


def install(ctx):
    import geometer.base as B

    core.wrap_method(B.TensorDiagram, "copy", post_diagram_copy)
    core.wrap_method(B.TensorDiagram, "add_node", post_add_node)
    core.wrap_method(B.TensorDiagram, "add_edge", post_add_edge, pre=pre_add_edge)
    core.wrap_method(B.TensorDiagram, "calculate", post_calculate)
    core.wrap_method(B.Tensor, "__mul__", post_mul)
    core.wrap_method(B.Tensor, "__rmul__", post_mul)
    core.wrap_method(B.Tensor, "__pow__", post_pow)
    core.wrap_method(B.Tensor, "tensor_product", post_tensor_product)


# ---------------------------------------------------------------------------------
# workload
# ---------------------------------------------------------------------------------

def _rand_tensor(rng, dim, cshape, allow_mixed_dim=False, maxrank=4):
    from geometer.base import Tensor

    rank = int(rng.integers(1, maxrank + 1))
    dims = [dim] * rank
    if allow_mixed_dim and rng.random() < 0.5:
        dims[int(rng.integers(0, rank))] = dim + 1
    ncov = int(rng.integers(0, rank + 1))
    cov = sorted(rng.choice(rank, size=ncov, replace=False).tolist())
    mode = gen.pick(rng, ["int", "int", "float", "gauss"])
    arr = gen.coords(rng, tuple(cshape) + tuple(dims), 4, mode)
    return Tensor(arr, covariant=cov, tensor_rank=rank)


def _cshape(rng, base):
    """A collection shape that right-aligns with `base`: a suffix of it, possibly with length-1 axes."""
    k = int(rng.integers(0, len(base) + 1))
    s = list(base[len(base) - k:])
    for t in range(len(s)):
        if rng.random() < 0.25:
            s[t] = 1
    return tuple(s)


def g_programs(ctx, rng, i):
    from geometer.base import TensorDiagram
    from geometer.exceptions import TensorComputationError

    dim = int(rng.integers(2, 5))
    base = [(), (), (3,), (2, 3), (1, 2), (2, 1), (2, 3, 4), (3, 2, 2)][i % 8]
    nn = int(rng.integers(1, 5))
    mixed = (i % 11 == 0)
    style = i % 3
    for attempt in range(20):
        nodes = [_rand_tensor(rng, dim, _cshape(rng, base), mixed, maxrank=4 if attempt < 10 else 2) for _ in range(nn)]
        ne = int(rng.integers(0, 7)) if nn > 1 else 0
        edges = []
        for _ in range(ne):
            a, b = rng.choice(nn, size=2, replace=False)
            edges.append((nodes[a], nodes[b]))
        # bound the size of the Einstein sum (iteration space of the contraction)
        used = {id(x) for e in edges for x in e}
        total_rank = sum(n.rank - n.free_indices for n in nodes if id(n) in used or style == 2 or not edges)
        if (dim + 1) ** max(0, total_rank - len(edges)) * max(6, int(np.prod(base))) <= 300000:
            break
    else:
        return
    d = TensorDiagram()
    failed = False
    if style == 0 and edges:
        # constructor form
        try:
            d = TensorDiagram(*edges)
        except TensorComputationError:
            failed = True
    else:
        # staged evaluation: a diagram may be evaluated, extended and evaluated again (every evaluation must reflect the edges added so far)
        cut = int(rng.integers(1, len(edges))) if (len(edges) > 1 and i % 4 < 2) else -1
        for k, e in enumerate(edges):
            if k == cut:
                try:
                    d.calculate()
                except ValueError:
                    pass
            try:
                d.add_edge(*e)
            except TensorComputationError:
                failed = True
                break
    if failed:
        return
    # isolated nodes (tensor product) -- only nodes not yet present
    present = {id(n) for n in d._nodes} if hasattr(d, "_nodes") else set()
    for n in nodes:
        if id(n) not in present and (style == 2 or not edges):
            d.add_node(n)
    if not getattr(d, "_nodes", None):
        d.add_node(nodes[0])
    try:
        d.calculate()
        if i % 5 == 0:
            d.calculate()  # evaluating twice gives the same tensor
    except ValueError:
        pass  # incompatible collection shapes: the monitor compares with the reference


def g_special_programs(ctx, rng, i):
    """Programs outside the shapes the geometry code builds: nodes of rank 9-10 (index numbers >= 8), diagrams made of small-integer
    tensors only (full contractions of Levi-Civita tensors: values up to n!), copies of diagrams that are extended independently."""
    from geometer.base import LeviCivitaTensor, Tensor, TensorDiagram
    from geometer.exceptions import TensorComputationError

    kind = i % 3
    if kind == 0:
        rank = 9 + i % 2
        ncov = int(rng.integers(1, 4))
        cov = sorted(set([rank - 1] + rng.choice(rank, size=ncov, replace=False).tolist()))
        t = Tensor(gen.coords(rng, (2,) * rank, 3, "int"), covariant=cov)
        d = TensorDiagram()
        try:
            for _ in range(int(rng.integers(1, 3))):
                d.add_edge(t, Tensor(gen.coords(rng, (2,), 3, "int"), covariant=False))
            d.add_edge(Tensor(gen.coords(rng, (2,), 3, "int")), t)
        except TensorComputationError:
            pass
        d.calculate()
        # the outer product of a tensor with index numbers >= 8
        small = Tensor(gen.coords(rng, (2, 2), 3, "int"), covariant=[int(rng.integers(0, 2))])
        t.tensor_product(small)
        small.tensor_product(t)
        # nodes whose collection axis is not the leading one (what t[:, None, :] or t[:, [0, 1]] returns)
        base = Tensor(gen.coords(rng, (2, 2), 3, "int"), covariant=[0])
        b3 = Tensor(gen.coords(rng, (2, 3, 2), 3, "int"), covariant=[0, 2])
        w2 = Tensor(gen.coords(rng, (2,), 3, "int"), covariant=False)
        for tn in (base[:, None, :], base[:, [0, 1, 1]], b3[:, [0, 2, 1, 1]], b3[:, None], base[None][:, :, None]):
            dd = TensorDiagram()
            dd.add_node(tn)
            for step in (lambda: dd.calculate(), lambda: TensorDiagram((tn, w2)).calculate(),
                         lambda: TensorDiagram((tn, w2), (tn, Tensor(gen.coords(rng, (2,), 3, "int"), covariant=False))).calculate()):
                try:
                    step()
                except Exception:  # noqa: BLE001
                    pass  # judged by the monitor
        # a rejected edge leaves the diagram as it was: the next evaluation is that of the diagram before the rejected call
        m = Tensor(gen.coords(rng, (2, 3), 3, "int"), covariant=[0])
        v3 = Tensor(gen.coords(rng, (3,), 3, "int"), covariant=False)
        v2 = Tensor(gen.coords(rng, (2,), 3, "int"), covariant=False)
        for variant in range(3):
            d = TensorDiagram()
            if variant == 0:
                d.add_node(m)
                d.add_node(v3)
                bad = (m, v3)  # dimensions 2 and 3
            elif variant == 1:
                d.add_edge(m, v2)
                bad = (m, v2)  # no covariant index of m left
            else:
                d.add_node(m)
                bad = (m, v3)  # the target is not yet part of the diagram
            before = d.calculate()
            try:
                d.add_edge(*bad)
                continue
            except TensorComputationError:
                pass
            after = d.calculate()
            same = before.array.shape == after.array.shape and np.array_equal(before.array, after.array) and before.tensor_shape == after.tensor_shape
            ctx.judge("diagram.calculate", bool(same), [m, v3, v2], what=f"a rejected add_edge changed the diagram: shape {before.array.shape} before, {after.array.shape} after the rejected call",
                      op="TensorDiagram.add_edge (rejected)", feat={"variant": variant}, nontrivial=True)
    elif kind == 1:
        n = [3, 4, 5, 6][(i // 3) % 4]
        e1, e2 = LeviCivitaTensor(n), LeviCivitaTensor(n, False)
        k = n if (i // 12) % 2 == 0 else n - 1
        TensorDiagram(*[(e1, e2)] * k).calculate()
        v = Tensor(np.array(gen.coords(rng, (n,), 100, "int"), dtype=np.int8), covariant=True)
        w = Tensor(np.array(gen.coords(rng, (n,), 100, "int"), dtype=np.int8), covariant=False)
        TensorDiagram((v, w)).calculate()
        # boolean tensors are numerical tensors with entries 0 / 1: a contraction counts, it does not OR
        bv = Tensor(rng.random(n) < 0.7, covariant=True)
        bw = Tensor(rng.random(n) < 0.7, covariant=False)
        TensorDiagram((bv, bw)).calculate()
        TensorDiagram((bv, Tensor(rng.random((n, n)) < 0.6, covariant=[1]))).calculate()
    else:
        # an edge from a node to itself (a trace) on a node that is already part of the diagram
        mm = Tensor(gen.coords(rng, (3, 3), 3, "int"), covariant=[0])
        a3 = Tensor(gen.coords(rng, (3, 3, 3), 3, "int"), covariant=[0, 1])
        vv = Tensor(gen.coords(rng, (3,), 3, "int"), covariant=False)
        d = TensorDiagram()
        d.add_node(mm)
        d.add_edge(mm, mm)
        d.calculate()
        d = TensorDiagram((a3, vv))
        d.add_edge(a3, a3)
        d.calculate()
        d = TensorDiagram((a3, vv))
        d.add_node(mm)
        if i % 2:
            d.add_edge(mm, mm)
        d.add_edge(a3, a3)
        d.calculate()
        dim = 3
        a = Tensor(gen.coords(rng, (dim, dim), 3, "int"), covariant=[0, 1])
        b = Tensor(gen.coords(rng, (dim, dim), 3, "int"), covariant=False)
        c = Tensor(gen.coords(rng, (dim,), 3, "int"), covariant=False)
        d = TensorDiagram((a, b))
        d.calculate()
        d2 = d.copy()
        d2.add_edge(a, b)
        d2.calculate()
        d.calculate()  # the original is unaffected by what happened to its copy
        d3 = d.copy()
        d3.add_node(c)
        d3.calculate()
        d.calculate()
        # a diagram whose nodes were registered before their edges (and one that stays isolated), then copied
        d4 = TensorDiagram()
        d4.add_node(b)
        d4.add_node(c)
        d4.add_edge(a, b)
        d4.calculate()
        d5 = d4.copy()
        d5.calculate()
        d5.add_edge(a, c)
        d5.calculate()
        d4.calculate()


def g_operators(ctx, rng, i):
    """Tensor.__mul__/__rmul__/__pow__/tensor_product on random tensors."""
    from geometer.base import Tensor
    from geometer.exceptions import TensorComputationError

    dim = int(rng.integers(2, 5))
    a = _rand_tensor(rng, dim, [(), (3,), (2, 3)][i % 3])
    b = _rand_tensor(rng, dim, [(), (3,), (3,)][(i // 3) % 3])
    for f in (lambda: a * b, lambda: b * a, lambda: a * 3, lambda: 2.5 * b, lambda: a * np.float64(-1.5), lambda: a.__rmul__(b)):
        try:
            f()
        except (TensorComputationError, ValueError):
            pass
    if a.free_indices == 0 and b.free_indices == 0:
        a.tensor_product(b)
    # powers of a (1,1)-tensor
    m = Tensor(gen.coords(rng, (dim, dim), 3, "int"), covariant=[0])
    for k in (1, 2, 3):
        m ** k
    mc = Tensor(gen.coords(rng, (2, dim, dim), 3, "float"), covariant=[0], tensor_rank=2)
    mc ** 2
    # a later node with two or three more collection axes than the nodes before it (axes of different lengths)
    from geometer.base import LeviCivitaTensor, TensorDiagram
    full = [(2, 3, 4), (4, 2, 3), (2, 5, 2, 3)][i % 3]
    k = int(rng.integers(0, len(full) - 1))
    e = LeviCivitaTensor(3)
    u = Tensor(gen.coords(rng, full[len(full) - k:] + (3,), 4, "int"), covariant=False, tensor_rank=1)
    v = Tensor(gen.coords(rng, full + (3,), 4, "int"), covariant=False, tensor_rank=1)
    for nodes in ((u, v), (v, u)):
        d = TensorDiagram((e, nodes[0]), (e, nodes[1]))
        d.calculate()
        TensorDiagram((e, nodes[0])).calculate()


def _eps_ref(n):
    ref = np.zeros((n,) * n, dtype=np.int8)
    for p in itertools.permutations(range(n)):
        ref[p] = X.perm_parity(p)
    return ref


def _delta_ref(n, p):
    """delta^{mu_1..mu_p}_{nu_1..nu_p} = det[ delta(mu_i, nu_j) ]  (Leibniz expansion, vectorised over all entries)."""
    idx = np.indices((n,) * (2 * p))
    a, b = idx[:p], idx[p:]
    ref = np.zeros((n,) * (2 * p), dtype=np.int64)
    for sigma in itertools.permutations(range(p)):
        term = np.ones((n,) * (2 * p), dtype=np.int64)
        for i_ in range(p):
            term *= (a[i_] == b[sigma[i_]])
        ref += X.perm_parity(sigma) * term
    return ref


def g_epsilon(ctx, rng, i):
    from geometer.base import LeviCivitaTensor

    n = i + 1
    for cov in (True, False):
        e = LeviCivitaTensor(n, cov)
        ref = _eps_ref(n)
        ok = e.array.shape == ref.shape and np.array_equal(e.array, ref)
        types_ok = e.tensor_shape == ((n, 0) if cov else (0, n))
        nz = int(np.count_nonzero(ref))
        ctx.judge("epsilon", bool(ok and types_ok), [n, cov], what=f"epsilon({n}) differs from permutation parity or has wrong index types {e.tensor_shape}", op="LeviCivitaTensor")
        ctx.note(("epsilon_entries_compared", str(n)), int(ref.size))
        ctx.note(("epsilon_nonzero_entries", str(n)), nz)
        # each entry counts as an evaluation of the entry-wise oracle; register distinct digests per non-zero entry block
        for k, p in enumerate(itertools.islice(itertools.permutations(range(n)), 50)):
            ctx.judge("epsilon.entry", int(e.array[p]) == X.perm_parity(p), [n, list(p)], what="entry differs from parity", op="LeviCivitaTensor[perm]")


DELTA_QUICK = [(n, p) for n in range(1, 5) for p in range(1, n + 1)] + [(5, 1), (5, 2), (5, 3)]
DELTA_THOROUGH = [(n, p) for n in range(1, 6) for p in range(1, n + 1)]


def g_delta(ctx, rng, i):
    from geometer.base import KroneckerDelta

    n, p = DELTA_THOROUGH[i] if i < len(DELTA_THOROUGH) else DELTA_QUICK[i % len(DELTA_QUICK)]
    d = KroneckerDelta(n, p)
    ref = _delta_ref(n, p)
    ok = d.array.shape == ref.shape and np.array_equal(d.array, ref)
    types_ok = d.tensor_shape == (p, p) and sorted(d._covariant_indices) == list(range(p))
    ctx.judge("delta", bool(ok and types_ok), [n, p], what=f"delta({n},{p}) differs from det[delta(mu_i,nu_j)] or has wrong index types", op="KroneckerDelta")
    ctx.note(("delta_entries_compared", f"{n},{p}"), int(ref.size))
    r = np.random.default_rng(n * 10 + p)
    for _ in range(30):
        idx = tuple(int(x) for x in r.integers(0, n, size=2 * p))
        ctx.judge("delta.entry", int(d.array[idx]) == int(ref[idx]), [n, p, list(idx)], what="entry differs", op="KroneckerDelta[idx]")
    # histories: the tensors are cached per process -- the same and the swapped sizes are requested again, in this order, and every
    # tensor handed out must still equal its definition (delta(p, n) with p < n is the zero tensor of shape (p,)*2n)
    seq = [(p, n), (n, p)] + [(a, b) for a in range(2, 5) for b in range(2, 5) if a != b and a ** (2 * b) <= 70000][: 4 + i % 3] + [(p, n), (n, p)]
    for a, b in seq:
        if a ** (2 * b) > 70000 or a < 1 or b < 1:
            continue
        t = KroneckerDelta(a, b)
        rf = _delta_ref(a, b)
        ok = t.array.shape == rf.shape and np.array_equal(t.array, rf) and t.tensor_shape == (b, b)
        ctx.judge("delta", bool(ok), [a, b, n, p], what=f"delta({a},{b}) requested after delta({n},{p}) differs from its definition (shape {t.array.shape}, expected {rf.shape})",
                  op="KroneckerDelta (history)", nontrivial=True)


def g_identities(ctx, rng, i):
    """epsilon-delta rule and contraction identities evaluated through diagrams (feeds the diagram monitor with the
    library's own special tensors)."""
    from geometer.base import KroneckerDelta, LeviCivitaTensor, TensorDiagram

    n = 2 + i % 3
    e1 = LeviCivitaTensor(n)
    e2 = LeviCivitaTensor(n, False)
    for k in range(0, n + 1):
        d = TensorDiagram(*[(e1, e2)] * k)
        if k == 0:
            d.add_node(e1)
            d.add_node(e2)
        d.calculate()
    dl = KroneckerDelta(n)
    v = _rand_tensor(rng, n, ())
    try:
        (dl * v)
    except Exception:
        pass


def _n_eps(tier):
    return 7 if tier == "quick" else 8


GROUPS = [
    {"name": "programs", "fn": g_programs, "quick": 4000, "thorough": 60000},
    {"name": "special_programs", "fn": g_special_programs, "quick": 96, "thorough": 960},
    {"name": "operators", "fn": g_operators, "quick": 600, "thorough": 6000},
    {"name": "epsilon", "fn": g_epsilon, "quick": 7, "thorough": 8},
    {"name": "delta", "fn": g_delta, "quick": 13, "thorough": 15},
    {"name": "identities", "fn": g_identities, "quick": 30, "thorough": 90},
]
