"""C13 -- quadric constructors produce the quadric of their defining data."""
from __future__ import annotations

import itertools
import math

import numpy as np

from .. import core, gen
from .. import exact as X
from .. import ref as R

RULE = ("postconditions on Conic.from_points / from_lines / from_tangent / from_foci / from_crossratio and Ellipse / Circle / Sphere / Cone / "
        "Cylinder constructors and their read-back properties, evaluated on every call: the matrix must be proportional to the reference matrix "
        "of the locus (exact conic through five points from the null space of the Veronese system; textbook matrices of circle, ellipse, sphere, "
        "cone with apex v / unit axis u / tan^2 = (r/h)^2, cylinder I - uu^T), tangency by the vanishing discriminant on the line, foci as a set, "
        "center / radius / foci / area / volume equal the parameters and textbook measures. Workload: five lattice points in exact general position, "
        "tangent lines off the points, centres anywhere, radii != 1, axis directions in all 26 lattice octant classes and random ones, "
        "from_foci with the boundary point off both axes. Non-trivial: parameters not all in {0,1,-1}; distinct by parameter digest."
        " The constructed quadric is read back again after an odd number of is_tangent / dual / polar queries; vertices, centres and directions of cones and cylinders are given in arbitrary homogeneous representatives; spheres and circles in other scales of the matrix (normalize_matrix=True, images under uniform scalings and translations) report the same centre and the scaled radius / measures.")
SHARDS = (8, 16)
REQUIRED = ["from_points", "from_lines", "from_tangent", "from_foci", "from_crossratio", "ellipse", "circle", "sphere", "cone", "cylinder", "readback"]
ASSUMPTIONS = ["from_tangent may return a degenerate member of the pencil for special lattice data (tangency judged by the discriminant on the line)"]
EXHAUSTIVE = {"quick": ["all 26 lattice axis directions {-1,0,1}^3 for Cone and Cylinder"], "thorough": ["all 26 lattice axis directions {-1,0,1}^3 and all 124 of {-2..2}^3 for Cone and Cylinder"]}


def _prop(a, b, tol=1e-8):
    a, b = np.asarray(a, dtype=complex), np.asarray(b, dtype=complex)
    if a.shape != b.shape or not np.all(np.isfinite(a)):
        return 1.0
    return X.proj_residual(a.ravel(), b.ravel())


def _arr(p):
    return np.asarray(p.array)


def _on(M, x):
    x = np.asarray(x, dtype=complex)
    M = np.asarray(M, dtype=complex)
    return abs(x @ M @ x) / (np.linalg.norm(M) * np.linalg.norm(x) ** 2)


def conic_through(points):
    """Exact conic through five points (6-vector null space of the Veronese rows); None if not unique."""
    rows = []
    for p in points:
        x, y, z = X.vec(p)
        rows.append([x * x, x * y, y * y, x * z, y * z, z * z])
    ns = X.nullspace(rows, 6)
    if len(ns) != 1:
        return None
    a, b, c, d, e, f = (complex(v) if isinstance(v, X.GQ) else float(v) for v in ns[0])
    return np.array([[a, b / 2, d / 2], [b / 2, c, e / 2], [d / 2, e / 2, f]])


def _strip(call):
    """arguments without a leading class (classmethods)."""
    a = list(call.args)
    return a[1:] if a and isinstance(a[0], type) else a


def post_from_points(ctx, call):
    if call.exc is not None:
        return
    pts = [_arr(p) for p in _strip(call)[:5]]
    M = _arr(call.result)
    if not all(R.is_dyadic(p, 30, 2 ** 20) for p in pts):
        # floats: containment only
        worst = max(_on(M, p) for p in pts)
        ctx.judge("from_points", worst <= 1e-8, pts, what=f"a defining point is not on the conic (residual {worst:.3g})", op="from_points", nontrivial=True)
        return
    want = conic_through(pts)
    if want is None:
        ctx.skip("from_points", "points not in general position (conic not unique)")
        return
    r = _prop(M, want)
    ctx.judge("from_points", r <= 1e-8, pts, what=f"conic differs from the unique conic through the five points (residual {r:.3g})", op="from_points", expected=want, observed=M, nontrivial=True)


def post_from_lines(ctx, call):
    if call.exc is not None:
        return
    g, h = (_arr(x) for x in _strip(call)[:2])
    want = np.outer(g, h) + np.outer(h, g)
    if not np.any(want != 0):
        return
    r = _prop(_arr(call.result), want)
    ctx.judge("from_lines", r <= 1e-9, [g, h], what=f"matrix is not proportional to sym(g (x) h) (residual {r:.3g})", op="from_lines", nontrivial=True)


def post_from_planes(ctx, call):
    if call.exc is not None:
        return
    e, f = (_arr(x) for x in _strip(call)[:2])
    if e.ndim != 1:
        return
    want = np.outer(e, f) + np.outer(f, e)
    if not np.any(want != 0):
        return
    r = _prop(_arr(call.result), want)
    ctx.judge("from_lines", r <= 1e-9, [e, f], what=f"from_planes: matrix is not proportional to sym(e (x) f) (residual {r:.3g})", op="from_planes", nontrivial=True)


def post_from_tangent(ctx, call):
    if call.exc is not None:
        return
    args = _strip(call)
    t = _arr(args[0])
    pts = [_arr(p) for p in args[1:5]]
    M = np.asarray(_arr(call.result), dtype=complex)
    worst = max(_on(M, p) for p in pts)
    # two points of the tangent line
    ns = np.linalg.svd(np.asarray(t, dtype=complex).reshape(1, 3))[2][1:].conj()
    p, q = ns[0], ns[1]
    A, B, C = p @ M @ p, p @ M @ q, q @ M @ q
    disc = abs(B * B - A * C) / max(1e-300, np.linalg.norm(M) ** 2)
    ok = worst <= 1e-7 and disc <= 1e-7
    ctx.judge("from_tangent", ok, [t, *pts], what=f"point residual {worst:.3g}, tangency discriminant on the line {disc:.3g}", op="from_tangent", nontrivial=True)


def _confocal(f1, f2, p):
    """Matrices of the ellipse and the hyperbola with foci f1, f2 (cartesian) through p."""
    c = (f1 + f2) / 2
    f = np.linalg.norm(f2 - f1) / 2
    d1, d2 = np.linalg.norm(p - f1), np.linalg.norm(p - f2)
    th = math.atan2(*(f2 - f1)[::-1])
    Rm = np.array([[math.cos(th), -math.sin(th)], [math.sin(th), math.cos(th)]])
    out = []
    for a, kind in (((d1 + d2) / 2, "ellipse"), (abs(d1 - d2) / 2, "hyperbola")):
        b2 = a * a - f * f if kind == "ellipse" else -(f * f - a * a)
        if a <= 1e-12 or abs(b2) <= 1e-12:
            continue
        D = Rm @ np.diag([1 / (a * a), 1 / b2]) @ Rm.T
        M = np.zeros((3, 3))
        M[:2, :2] = D
        M[:2, 2] = M[2, :2] = -D @ c
        M[2, 2] = c @ D @ c - 1
        out.append(M)
    return out


def post_from_foci(ctx, call):
    if call.exc is not None:
        return
    f1, f2, b = (_arr(x) for x in _strip(call)[:3])
    if any(abs(x[-1]) < 1e-12 or np.iscomplexobj(x) for x in (f1, f2, b)):
        return
    F1, F2, P = (np.real(x[:2] / x[2]).astype(float) for x in (f1, f2, b))
    if np.linalg.norm(F1 - F2) < 1e-9:
        ctx.skip("from_foci", "coincident foci")
        return
    # the construction is not defined for a boundary point on a symmetry axis
    ax = (F2 - F1) / np.linalg.norm(F2 - F1)
    w = P - (F1 + F2) / 2
    if abs(w @ ax) < 1e-6 or abs(w[0] * ax[1] - w[1] * ax[0]) < 1e-6:
        ctx.skip("from_foci", "boundary point on a symmetry axis")
        return
    M = _arr(call.result)
    cands = _confocal(F1, F2, P)
    r = min([_prop(M, c) for c in cands], default=1.0)
    ctx.judge("from_foci", r <= 1e-6, [f1, f2, b], what=f"conic is neither the ellipse nor the hyperbola with these foci through the point (residual {r:.3g})", op="from_foci",
              observed=M, nontrivial=True)


def post_from_crossratio(ctx, call):
    if call.exc is not None:
        return
    args = _strip(call)
    cr = args[0]
    pts = [_arr(p) for p in args[1:5]]
    M = np.asarray(_arr(call.result), dtype=complex)
    worst = max(_on(M, p) for p in pts)
    ok = worst <= 1e-8
    why = f"a defining point is not on the conic (residual {worst:.3g})"
    if ok and abs(np.linalg.det(M / np.linalg.norm(M))) > 1e-9:
        # a further point e of the conic: second intersection of the line a + t(u - a) with the conic, u generic; cross ratio seen from e must be cr
        a = pts[0].astype(complex)
        for u in ([1, 2, 3], [3, -1, 2], [-2, 5, 1]):
            u = np.asarray(u, dtype=complex)
            den = u @ M @ u
            if abs(den) < 1e-9:
                continue
            e = (-2 * (a @ M @ u) / den) * u + a  # a + s u with s = -2 a^T M u / u^T M u  lies on the conic
            if _on(M, e) > 1e-8 or any(X.proj_residual(e, p) < 1e-6 for p in pts):
                continue
            br = lambda x, y: np.linalg.det(np.array([e, x, y], dtype=complex))  # noqa: E731
            den2 = br(pts[0], pts[3]) * br(pts[1], pts[2])
            if abs(den2) < 1e-12:
                continue
            got = br(pts[0], pts[2]) * br(pts[1], pts[3]) / den2
            ok = abs(got - cr) <= 1e-7 * max(1, abs(cr))
            why = f"cross ratio of the four points seen from a fifth point of the conic is {got}, requested {cr}"
            break
    ctx.judge("from_crossratio", bool(ok), [cr, *pts], what=why, op="from_crossratio", nontrivial=True)


def _ellipse_matrix(c, hr, vr):
    D = np.diag([1 / hr ** 2, 1 / vr ** 2])
    M = np.zeros((3, 3))
    M[:2, :2] = D
    M[:2, 2] = M[2, :2] = -D @ c
    M[2, 2] = c @ D @ c - 1
    return M


def _cart(p):
    a = np.asarray(p.array, dtype=complex)
    return np.real(a[:-1] / a[-1]).astype(float)


def post_ellipse_init(ctx, call):
    if call.exc is not None:
        return
    self = call.args[0]
    name = type(self).__name__
    if name not in ("Ellipse", "Circle"):
        return
    args = list(call.args[1:])
    kw = call.kwargs
    import geometer as g

    center = args[0] if args else kw.get("center", g.Point(0, 0))
    if name == "Circle":
        r = args[1] if len(args) > 1 else kw.get("radius", 1)
        hr = vr = r
    else:
        hr = args[1] if len(args) > 1 else kw.get("hradius", 1)
        vr = args[2] if len(args) > 2 else kw.get("vradius", 1)
    if hr == 0 or vr == 0:
        ctx.skip("ellipse", "zero radius (degenerate)")
        return
    want = _ellipse_matrix(_cart(center), float(hr), float(vr))
    r_ = _prop(self.array, want)
    ctx.judge("circle" if name == "Circle" else "ellipse", r_ <= 1e-9, [center.array, hr, vr], what=f"{name} matrix is not the textbook matrix of the locus (residual {r_:.3g})", op=name,
              observed=self.array, expected=want, nontrivial=True)


def post_sphere_init(ctx, call):
    if call.exc is not None:
        return
    self = call.args[0]
    import geometer as g

    args = list(call.args[1:])
    center = args[0] if args else call.kwargs.get("center", g.Point(0, 0, 0))
    r = args[1] if len(args) > 1 else call.kwargs.get("radius", 1)
    c = _cart(center)
    n = len(c)
    want = np.eye(n + 1)
    want[:n, n] = want[n, :n] = -c
    want[n, n] = c @ c - float(r) ** 2
    r_ = _prop(self.array, want)
    ctx.judge("sphere", r_ <= 1e-9, [center.array, r], what=f"Sphere matrix is not the textbook matrix (residual {r_:.3g})", op="Sphere", observed=self.array, expected=want, nontrivial=True)


def _cone_matrix(v, u, c):
    M0 = np.eye(3) - (1 + c) * np.outer(u, u)
    M = np.zeros((4, 4))
    M[:3, :3] = M0
    M[:3, 3] = M[3, :3] = -M0 @ v
    M[3, 3] = v @ M0 @ v
    return M


def _cyl_matrix(cen, u, r):
    M0 = np.eye(3) - np.outer(u, u)
    M = np.zeros((4, 4))
    M[:3, :3] = M0
    M[:3, 3] = M[3, :3] = -M0 @ cen
    M[3, 3] = cen @ M0 @ cen - r * r
    return M


def post_cone_init(ctx, call):
    if call.exc is not None:
        return
    self = call.args[0]
    import geometer as g

    args = list(call.args[1:])
    kw = call.kwargs
    if type(self).__name__ == "Cylinder":
        return  # judged at the Cylinder level
    vertex = args[0] if args else kw.get("vertex", g.Point(0, 0, 0))
    base = args[1] if len(args) > 1 else kw.get("base_center", g.Point(0, 0, 1))
    r = float(args[2] if len(args) > 2 else kw.get("radius", 1))
    va, ba = np.asarray(vertex.array, dtype=float), np.asarray(base.array, dtype=float)
    if abs(ba[-1]) < 1e-12:
        return
    b = ba[:-1] / ba[-1]
    if abs(va[-1]) < 1e-12:
        u = va[:-1] / np.linalg.norm(va[:-1])
        want = _cyl_matrix(b, u, r)
    else:
        v = va[:-1] / va[-1]
        h = np.linalg.norm(b - v)
        if h < 1e-12:
            ctx.skip("cone", "vertex equals the base centre")
            return
        want = _cone_matrix(v, (b - v) / h, (r / h) ** 2)
    r_ = _prop(self.array, want)
    ctx.judge("cone", r_ <= 1e-8, [va, ba, r], what=f"Cone matrix is not (I-(1+c)uu^T) in apex coordinates (residual {r_:.3g})", op="Cone", observed=self.array, expected=want, nontrivial=True,
              feat={"axis": np.sign(np.round(b - (va[:-1] / va[-1] if abs(va[-1]) > 1e-12 else 0), 9)).tolist()})


def post_cylinder_init(ctx, call):
    if call.exc is not None:
        return
    self = call.args[0]
    import geometer as g

    args = list(call.args[1:])
    kw = call.kwargs
    center = args[0] if args else kw.get("center", g.Point(0, 0, 0))
    direction = args[1] if len(args) > 1 else kw.get("direction", g.Point(0, 0, 1))
    r = float(args[2] if len(args) > 2 else kw.get("radius", 1))
    c = _cart(center)
    da = np.asarray(direction.array, dtype=float)
    d = da[:-1] / da[-1] if abs(da[-1]) > 1e-12 else da[:-1]
    if np.linalg.norm(d) < 1e-12:
        return
    want = _cyl_matrix(c, d / np.linalg.norm(d), r)
    r_ = _prop(self.array, want)
    ctx.judge("cylinder", r_ <= 1e-8, [center.array, da, r], what=f"Cylinder matrix is not I-uu^T about the axis (residual {r_:.3g})", op="Cylinder", observed=self.array, expected=want,
              nontrivial=True, feat={"axis": np.sign(np.round(d, 9)).tolist()})


def install(ctx):
    import geometer.curve as C

    core.wrap_method(C.Conic, "from_points", post_from_points)
    core.wrap_method(C.Conic, "from_lines", post_from_lines)
    core.wrap_method(C.QuadricTensor, "from_planes", post_from_planes)
    core.wrap_method(C.Conic, "from_tangent", post_from_tangent)
    core.wrap_method(C.Conic, "from_foci", post_from_foci)
    core.wrap_method(C.Conic, "from_crossratio", post_from_crossratio)
    core.wrap_method(C.Ellipse, "__init__", post_ellipse_init)
    core.wrap_method(C.Sphere, "__init__", post_sphere_init)
    core.wrap_method(C.Cone, "__init__", post_cone_init)
    core.wrap_method(C.Cylinder, "__init__", post_cylinder_init)


# ---------------------------------------------------------------------------------
# workload
# ---------------------------------------------------------------------------------

def _five(rng, mode="int"):
    for _ in range(200):
        pts = [gen.nonzero_vec(rng, 3, 5, mode) for _ in range(5)]
        if all(X.rank([X.vec(pts[k]) for k in c]) == 3 for c in itertools.combinations(range(5), 3)):
            return pts
    raise RuntimeError("no five points in general position")


def _rd(ctx, ok, operands, what):
    ctx.judge("readback", bool(ok), operands, what=what, op="readback", nontrivial=True)


def g_conics(ctx, rng, i):
    import geometer as g

    mode = ["int", "int", "float"][i % 3]
    pts = _five(rng, mode)
    lam = [gen.pick(rng, [1, -1, 2]) for _ in range(5)]
    P = [g.Point(p * l) for p, l in zip(pts, lam)]
    c = g.Conic.from_points(*P)
    # from_crossratio agrees with from_points
    try:
        cr = g.crossratio(*P[:4], P[4])
        if np.isfinite(cr) and abs(cr) > 1e-9:
            c2 = g.Conic.from_crossratio(cr, *P[:4])
            r = _prop(c2.array, c.array)
            ctx.judge("from_crossratio", r <= 1e-7, pts, what=f"from_crossratio differs from from_points (residual {r:.3g})", op="from_crossratio vs from_points", nontrivial=True)
    except Exception as e:
        ctx.judge("from_crossratio", False, pts, what=f"raised {type(e).__name__}: {e}", op="from_crossratio")
    g.Conic.from_lines(g.Line(pts[0]), g.Line(pts[1]))
    # still the conic through the five points after tangency / duality queries
    try:
        c.is_tangent(g.Line(gen.nonzero_vec(rng, 3, 5)))
        if i % 2:
            c.dual
            c.is_tangent(g.Line(gen.nonzero_vec(rng, 3, 5)))
    except Exception:
        pass
    arr = np.asarray(c.array, dtype=complex)
    res = max(abs(np.asarray(p.array, dtype=complex) @ arr @ np.asarray(p.array, dtype=complex)) / (np.abs(arr).max() * max(1e-300, float(np.abs(p.array).max()) ** 2)) for p in P)
    _rd(ctx, res <= 1e-8, pts, f"from_points: after is_tangent/dual queries a defining point is no longer on the conic (relative residual {res:.3g})")
    # tangent line not through the points
    for _ in range(20):
        t = gen.nonzero_vec(rng, 3, 5)
        if all(abs(np.dot(t, p)) > 1e-9 for p in pts[:4]):
            try:
                g.Conic.from_tangent(g.Line(t), *P[:4])
            except Exception as e:
                ctx.judge("from_tangent", False, [t, *pts[:4]], what=f"raised {type(e).__name__}: {e}", op="from_tangent", feat={"exc": type(e).__name__})
            break
    # foci: boundary point off both axes
    f1 = gen.coords(rng, (2,), 5, "int").astype(float)
    f2 = gen.coords(rng, (2,), 5, "int").astype(float)
    b = gen.coords(rng, (2,), 7, "int").astype(float) + np.array([0.5, 0.25])
    ax = (f2 - f1) / max(1e-12, np.linalg.norm(f2 - f1))
    wv = b - (f1 + f2) / 2
    off_axes = abs(wv @ ax) > 1e-6 and abs(wv[0] * ax[1] - wv[1] * ax[0]) > 1e-6
    if np.linalg.norm(f1 - f2) > 0.5 and off_axes:
        try:
            k = g.Conic.from_foci(g.Point(*f1), g.Point(*f2), g.Point(*b))
            fo = k.foci
            if len(fo) == 2:
                got = sorted([tuple(np.round(_cart(x), 5)) for x in fo])
                want = sorted([tuple(np.round(f1, 5)), tuple(np.round(f2, 5))])
                _rd(ctx, np.allclose(got, want, atol=1e-4), [f1, f2, b], f"foci read back as {got}, constructed with {want}")
        except Exception as e:
            ctx.judge("from_foci", False, [f1, f2, b], what=f"raised {type(e).__name__}: {e}", op="from_foci", feat={"exc": type(e).__name__})


def g_round(ctx, rng, i):
    import geometer as g

    mode = ["int", "float"][i % 2]
    c2 = gen.coords(rng, (2,), 9, mode).astype(float)
    r = float(gen.pick(rng, [1, 2, 3, 0.5, 2.5, 7]))
    w = gen.pick(rng, [1, 2, -1])
    circ = g.Circle(g.Point(np.append(c2 * w, w)), r)
    _rd(ctx, np.allclose(_cart(circ.center), c2, atol=1e-6), [c2, r], f"Circle.center = {_cart(circ.center)}, constructed with {c2}")
    _rd(ctx, abs(circ.radius - r) <= 1e-9 * max(1, r), [c2, r], f"Circle.radius = {circ.radius}, constructed with {r}")
    _rd(ctx, abs(circ.area - math.pi * r * r) <= 1e-9 * max(1, r * r), [c2, r], f"Circle.area = {circ.area}, pi r^2 = {math.pi * r * r}")
    hr, vr = float(gen.pick(rng, [1, 2, 3, 0.5, 4])), float(gen.pick(rng, [1, 2, 5, 0.25, 3]))
    ell = g.Ellipse(g.Point(*c2), hr, vr)
    if abs(hr - vr) > 1e-9:
        fo = ell.foci
        f = math.sqrt(abs(hr * hr - vr * vr))
        want = sorted([tuple(np.round(c2 + (np.array([f, 0]) if hr > vr else np.array([0, f])), 5)), tuple(np.round(c2 - (np.array([f, 0]) if hr > vr else np.array([0, f])), 5))])
        if len(fo) == 2 and all(np.all(np.abs(np.imag(x.normalized_array)) < 1e-9) for x in fo):
            got = sorted([tuple(np.round(_cart(x), 5)) for x in fo])
            _rd(ctx, np.allclose(got, want, atol=1e-4), [c2, hr, vr], f"Ellipse.foci = {got}, expected {want}")
        else:
            _rd(ctx, False, [c2, hr, vr], f"Ellipse.foci not two real points: {fo}")
    # integer-typed centres with radii whose square is not an integer (dtype promotion)
    ci = [int(x) for x in gen.coords(rng, (3,), 9, "int")]
    rr = float(gen.pick(rng, [0.5, 2.5, 1.25, 3.7]))
    si = g.Sphere(g.Point(*ci), rr)
    _rd(ctx, abs(si.radius - rr) <= 1e-9 * max(1, rr), [ci, rr], f"Sphere(int centre).radius = {si.radius} vs {rr}")
    ki = g.Circle(g.Point(*ci[:2]), rr)
    _rd(ctx, abs(ki.radius - rr) <= 1e-9 * max(1, rr), [ci[:2], rr], f"Circle(int centre).radius = {ki.radius} vs {rr}")
    g.Ellipse(g.Point(*ci[:2]), rr, rr + 0.25)
    g.Sphere(radius=rr)
    g.Circle(radius=rr)
    g.Cone(g.Point(*ci), g.Point(*(np.array(ci) + gen.nonzero_vec(rng, 3, 3))), rr)
    g.Cylinder(g.Point(*ci), g.Point(*gen.nonzero_vec(rng, 3, 3).tolist()), rr)
    c3 = gen.coords(rng, (3,), 9, mode).astype(float)
    s = g.Sphere(g.Point(*c3), r)
    _rd(ctx, np.allclose(_cart(s.center), c3, atol=1e-9), [c3, r], f"Sphere.center = {_cart(s.center)}, constructed with {c3}")
    _rd(ctx, abs(s.radius - r) <= 1e-9 * max(1, r), [c3, r], f"Sphere.radius = {s.radius} vs {r}")
    _rd(ctx, abs(s.volume - 4 / 3 * math.pi * r ** 3) <= 1e-9 * max(1, r ** 3), [c3, r], f"Sphere.volume = {s.volume}, 4/3 pi r^3 = {4 / 3 * math.pi * r ** 3}")
    _rd(ctx, abs(s.area - 4 * math.pi * r ** 2) <= 1e-9 * max(1, r ** 2), [c3, r], f"Sphere.area = {s.area}, 4 pi r^2 = {4 * math.pi * r ** 2}")
    # history: a centre in another homogeneous scale is used, moved in place (p[k] = x), and used again: the second quadric is that of the moved point
    wv = float(gen.pick(rng, [2, -1, 0.5, 4]))
    for cc, ctor, nm in ((c2, g.Circle, "Circle"), (c3, g.Sphere, "Sphere")):
        try:
            pt = g.Point(np.append(cc * wv, wv))
            first = ctor(pt, r)
            pt + pt
            k_ = int(rng.integers(0, len(cc)))
            moved = cc.copy()
            moved[k_] += float(gen.pick(rng, [1, -2, 0.5, 3]))
            pt[k_] = moved[k_] * wv
            second = ctor(pt, r)
            okm = np.allclose(_cart(second.center), moved, atol=1e-6) and abs(second.radius - r) <= 1e-9 * max(1, r) and np.allclose(_cart(first.center), cc, atol=1e-6)
            whatm = f"{nm} of a centre that was used, moved in place from {cc} to {moved} and used again has centre {_cart(second.center)} (the first one {_cart(first.center)})"
        except Exception as e:
            okm, whatm = False, f"{nm} of a centre edited in place raised {type(e).__name__}: {e}"
        _rd(ctx, bool(okm), [cc, r, wv, "moved"], whatm)
    if i % 2 == 0:
        try:
            P5 = [g.Point(np.append(x * wv, wv)) for x in (np.array([0., 0.]), np.array([2., 0.]), np.array([0., 3.]), np.array([2., 4.]), np.array([-1., 1.]))]
            g.Conic.from_points(*P5)
            P5[4][0] = -3.0 * wv
            con = g.Conic.from_points(*P5)
            okm = bool(np.all([abs(np.asarray(x.array, float) @ np.asarray(con.array, float) @ np.asarray(x.array, float)) <= 1e-8 * np.max(np.abs(con.array)) * max(1.0, float(np.max(np.abs(x.array))) ** 2) for x in P5]))
            whatm = "Conic.from_points with a point that was used, moved in place and used again does not pass through the moved point"
        except Exception as e:
            okm, whatm = False, f"Conic.from_points after an in-place edit raised {type(e).__name__}: {e}"
        _rd(ctx, bool(okm), [wv, "from_points moved"], whatm)
    # the constructed quadric stays the quadric of its data after it has been queried (tangency / duality / polarity queries)
    for q_, cc, nm, stage in ((circ, c2, "Circle", 0), (s, c3, "Sphere", 0), (circ, c2, "Circle", 1), (s, c3, "Sphere", 1)):
        try:
            h = gen.nonzero_vec(rng, len(cc) + 1, 5)
            if stage == 0:
                q_.is_tangent((g.Line if len(cc) == 2 else g.Plane)(h))
                q_.polar(g.Point(*(cc + 1.0)))
                q_.is_degenerate
            else:
                q_.dual
                q_.dual.dual
        except Exception:
            pass
        _rd(ctx, np.allclose(_cart(q_.center), cc, atol=1e-6) and abs(q_.radius - r) <= 1e-9 * max(1, r), [cc, r],
            f"{nm}: after is_tangent/dual/polar queries center, radius read back as {_cart(q_.center)}, {q_.radius}; constructed with {cc}, {r}")
        on = g.Point(*(cc + r * np.eye(len(cc))[0]))
        _rd(ctx, bool(q_.contains(on)), [cc, r], f"{nm}: after is_tangent/dual/polar queries the point centre + r e1 is no longer on it")
    # the same spheres / circles in other scales of the matrix: the constructor keyword normalize_matrix, images under a uniform scaling
    # (the class is kept, the radius is multiplied), translated images
    for nm, ctor, cc in (("Sphere", g.Sphere, c3), ("Circle", g.Circle, c2)):
        try:
            qn = ctor(g.Point(*cc), r, normalize_matrix=True)
            _rd(ctx, abs(qn.radius - r) <= 1e-9 * max(1, r) and np.allclose(_cart(qn.center), cc, atol=1e-8), [cc, r],
                f"{nm}(c, r, normalize_matrix=True): radius {qn.radius}, center {_cart(qn.center)}; constructed with {r}, {cc}")
            if nm == "Sphere":
                _rd(ctx, abs(qn.volume - 4 / 3 * math.pi * r ** 3) <= 1e-9 * max(1, r ** 3) and abs(qn.area - 4 * math.pi * r ** 2) <= 1e-9 * max(1, r ** 2), [cc, r],
                    f"Sphere(c, r, normalize_matrix=True): volume {qn.volume}, area {qn.area}")
        except Exception as e:  # noqa: BLE001
            _rd(ctx, False, [cc, r], f"{nm}(c, r, normalize_matrix=True) / its measures raised {type(e).__name__}: {str(e)[:80]}")
        fac = float(gen.pick(rng, [2.0, 0.5, 3.0]))
        try:
            q0 = ctor(g.Point(*cc), r)
            qs = g.scaling(*([fac] * len(cc))) * q0
            if type(qs) is type(q0):
                _rd(ctx, abs(qs.radius - fac * r) <= 1e-8 * max(1, fac * r) and np.allclose(_cart(qs.center), fac * np.asarray(cc), atol=1e-7), [cc, r, fac],
                    f"scaling({fac}) * {nm}(c, {r}): radius {qs.radius} (expected {fac * r}), center {_cart(qs.center)} (expected {fac * np.asarray(cc)})")
            qt = q0 + g.Point(*([1.0, -2.0, 0.5][: len(cc)]))
            if type(qt) is type(q0):
                _rd(ctx, abs(qt.radius - r) <= 1e-8 * max(1, r), [cc, r], f"{nm} + point: radius {qt.radius}, expected {r}")
        except Exception as e:  # noqa: BLE001
            _rd(ctx, False, [cc, r, fac], f"measures of a scaled / translated {nm} raised {type(e).__name__}: {str(e)[:80]}")
    s2 = g.Sphere(g.Point(*c2), r)  # the 1-sphere
    _rd(ctx, abs(s2.volume - math.pi * r ** 2) <= 1e-9 * max(1, r * r) and abs(s2.area - 2 * math.pi * r) <= 1e-9 * max(1, r), [c2, r], f"2D sphere volume/area = {s2.volume}/{s2.area}")
    # translation of quadrics by a point keeps them the locus of the moved centre
    off = gen.coords(rng, (2,), 4, "int")
    moved = circ + g.Point(*off)
    want = _ellipse_matrix(c2 + off, r, r)
    _rd(ctx, _prop(moved.array, want) <= 1e-8, [c2, r, off], "Circle + Point is not the circle about the translated centre")


LAT26 = [np.array(v) for v in itertools.product([-1, 0, 1], repeat=3) if any(v)]
LAT124 = gen.lattice(3, 2)


def g_cones(ctx, rng, i):
    import geometer as g

    dirs = LAT26 + LAT124
    if i < len(dirs):
        d = dirs[i].astype(float)
    else:
        d = gen.nonzero_vec(rng, 3, 5, ["int", "float"][i % 2]).astype(float)
    v = gen.coords(rng, (3,), 4, "int").astype(float) if i % 3 else np.zeros(3)
    r = float(gen.pick(rng, [1, 2, 0.5, 3, 1.5]))
    scale = float(gen.pick(rng, [1, 2, 0.5]))
    # vertex, base centre and direction in arbitrary homogeneous representatives (as other library calls return them)
    l1, l2 = (float(gen.pick(rng, [1, 1, 2, -1, -3, 0.5])) for _ in range(2))
    try:
        g.Cone(g.Point(np.append(v, 1) * l1), g.Point(np.append(v + d * scale, 1) * l2), r)
    except Exception as e:
        ctx.judge("cone", False, [v, d, r], what=f"Cone raised {type(e).__name__}: {e}", op="Cone", feat={"exc": type(e).__name__})
    try:
        g.Cylinder(g.Point(np.append(v, 1) * l2), g.Point(np.append(d, 1) * l1), r)
    except Exception as e:
        ctx.judge("cylinder", False, [v, d, r], what=f"Cylinder raised {type(e).__name__}: {e}", op="Cylinder", feat={"exc": type(e).__name__})


GROUPS = [
    {"name": "conics", "fn": g_conics, "quick": 600, "thorough": 6000},
    {"name": "round", "fn": g_round, "quick": 300, "thorough": 3000},
    {"name": "cones", "fn": g_cones, "quick": 26 + 124 + 150, "thorough": 26 + 124 + 3000},
]
