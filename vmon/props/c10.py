"""C10 -- perpendicular / parallel / projection / mirror constructions meet their definitions."""
from __future__ import annotations

import numpy as np

from .. import core, gen
from .. import exact as X
from .. import ref as R
from . import c04 as S
from .c09 import _affine_line, _line3_points, _real, cart_point

RULE = ("postconditions on Line/Plane.perpendicular, parallel, project, mirror, is_parallel, base_point, direction, basis_matrix, general_point "
        "and operators.is_perpendicular / is_cocircular / is_coplanar / angle_bisectors, evaluated on every call (workload, library-internal, "
        "repository tests) against Cartesian definitions: passes through the point, dot products vanish (relative 1e-9), projection = foot, "
        "mirror = 2 foot - p and involutive, predicates equal the exact relation on lattice inputs (rational dot products / circle determinant / "
        "rank), bisectors perpendicular with equal angles. Workload: every orientation class (vertical, horizontal, through the origin, generic), "
        "the point on / off the subspace, 2D and 3D, collections with mixed on/off masks. Non-trivial: >= 2 coordinates outside {0,1,-1}; "
        "distinct by operand digest."
        " The constructions must leave their operands unchanged (snapshot of the operand bytes before the call). is_cocircular also on points of CP1 (exact cross ratio over Q(i), band between 1e-12 and 1e-6 not judged) and on points of space (exact rank criterion, fourth point lifted out of the plane); angle_bisectors also on lines returned by perpendicular / mirror (imaginary common factor); is_perpendicular on distinct parallel lines of space (a raise for two coplanar lines is judged).")
SHARDS = (8, 16)
REQUIRED = ["perpendicular", "parallel", "project", "mirror", "is_parallel", "base_point", "direction", "basis_matrix", "general_point", "is_perpendicular",
            "is_cocircular", "is_coplanar", "angle_bisectors", "operands"]
ASSUMPTIONS = ["plane.perpendicular(line) for a line perpendicular to the plane has no unique answer (excluded)", "3D line.mirror(p) with p on the line is documented as unhandled"]
EXHAUSTIVE = {"quick": [], "thorough": []}

TOL = 1e-7


def _elems(objs):
    """Iterate over collection positions of several tensors: yields (pos, [element arrays])."""
    cshape = np.broadcast_shapes(*[S.coll_shape(o) for o in objs])
    for pos in R.positions(tuple(cshape), 12):
        es = []
        for o in objs:
            cs = S.coll_shape(o)
            es.append(np.asarray(o.array[tuple(0 if s == 1 else x for s, x in zip(cs, pos[len(cshape) - len(cs):]))] if cs else o.array))
        yield pos, es


def sub_geom(t, e):
    """Cartesian description of a single line/plane element: ('line', point, direction) or ('plane', normal, offset) [n.x + d = 0]; None if at infinity/complex."""
    from geometer.point import LineTensor, PlaneTensor

    e = _real(e)
    if e is None:
        return None
    dim = t.shape[-1] - 1
    if isinstance(t, LineTensor) and dim == 2:
        n = e[:2]
        if np.linalg.norm(n) < 1e-12 * max(1.0, abs(e[2])):
            return None
        a = -e[2] * n / np.dot(n, n)
        return ("line", a, np.array([e[1], -e[0]]))
    if isinstance(t, LineTensor):
        B = _line3_points(e, t.tensor_shape)
        al = _affine_line(B) if B is not None else None
        return None if al is None else ("line", al[0], al[1])
    if isinstance(t, PlaneTensor):
        n = e[:-1]
        if np.linalg.norm(n) < 1e-12 * max(1.0, abs(e[-1])):
            return None
        return ("plane", n, e[-1])
    return None


def _on(geom, p, scale=1.0):
    """distance of cartesian point p from the line/plane."""
    if geom[0] == "line":
        _, a, d = geom
        d = d / np.linalg.norm(d)
        w = p - a
        return float(np.linalg.norm(w - np.dot(w, d) * d))
    _, n, off = geom
    return abs(float(np.dot(n, p) + off)) / np.linalg.norm(n)


def _foot(geom, p):
    if geom[0] == "line":
        _, a, d = geom
        d = d / np.linalg.norm(d)
        return a + np.dot(p - a, d) * d
    _, n, off = geom
    return p - (np.dot(n, p) + off) / np.dot(n, n) * n


def _parallel_dirs(u, v):
    u, v = u / np.linalg.norm(u), v / np.linalg.norm(v)
    return abs(abs(np.dot(u, v)) - 1) < 1e-9


def _scale(*arrs):
    return max(1.0, *[float(np.abs(a).max()) for a in arrs])


def _judge_all(ctx, monitor, call, objs, check, op):
    """Run `check(pos, elements) -> (ok|None, why)` on sampled positions."""
    try:
        items = list(_elems(objs))
    except ValueError:
        return
    for pos, es in items:
        try:
            ok, why = check(pos, es)
        except _Skip as s:
            ctx.skip(monitor, str(s))
            continue
        if ok is None:
            ctx.skip(monitor, why)
            continue
        nontriv = np.count_nonzero(~np.isin(np.concatenate([np.ravel(e) for e in es]), (0, 1, -1))) >= 2
        ctx.judge(monitor, bool(ok), es, what=f"{op}: {why}", op=op, nontrivial=bool(nontriv), feat={"op": op, "dim": int(objs[0].shape[-1]) - 1, "coll": bool(S.coll_shape(objs[0]))})


class _Skip(Exception):
    pass


def _arg(call, idx, name):
    if len(call.args) > idx:
        return call.args[idx]
    return call.kwargs[name]


def _res_elem(res, pos):
    cs = S.coll_shape(res)
    if not cs:
        return np.asarray(res.array)
    return np.asarray(res.array[pos[len(pos) - len(cs):]]) if len(pos) >= len(cs) else np.asarray(res.array)


def _finite_point(e):
    c, fin = cart_point(e)
    if c is None or not fin:
        raise _Skip("point at infinity / complex")
    return c


def post_perpendicular(ctx, call):
    from geometer.point import LineTensor, PlaneTensor, PointTensor

    if call.exc is not None:
        return
    self, through = call.args[0], _arg(call, 1, "through")
    res = call.result
    if not (R.finite(self.array) and R.finite(through.array)):
        return
    dim = self.shape[-1] - 1

    def check(pos, es):
        g = sub_geom(self, es[0])
        if g is None:
            raise _Skip("subspace at infinity / complex")
        r = _res_elem(res, pos)
        if isinstance(through, PointTensor):
            p = _finite_point(es[1])
            rg = sub_geom(res, r)
            if rg is None or rg[0] != "line":
                return False, "result is not a finite line"
            sc = _scale(p, g[1])
            if _on(rg, p) > TOL * sc:
                return False, f"does not pass through the point (distance {_on(rg, p):.3g})"
            d = rg[2] / np.linalg.norm(rg[2])
            if g[0] == "line":
                if abs(np.dot(d, g[2] / np.linalg.norm(g[2]))) > TOL:
                    return False, "not perpendicular to the line"
                if dim == 3:
                    # must meet the line: the lines are coplanar
                    w = g[1] - rg[1]
                    vol = abs(np.dot(np.cross(d, g[2] / np.linalg.norm(g[2])), w))
                    if vol > TOL * sc:
                        return False, "does not meet the line"
            else:
                n = g[1] / np.linalg.norm(g[1])
                if not _parallel_dirs(d, n):
                    return False, "direction is not the normal of the plane"
            return True, ""
        if isinstance(through, LineTensor) and isinstance(self, PlaneTensor):
            lg = sub_geom(through, es[1])
            if lg is None:
                raise _Skip("line at infinity")
            rg = sub_geom(res, r)
            if rg is None or rg[0] != "plane":
                return False, "result is not a finite plane"
            sc = _scale(lg[1], g[1])
            n2 = rg[1] / np.linalg.norm(rg[1])
            if _on(rg, lg[1]) > TOL * sc or abs(np.dot(n2, lg[2] / np.linalg.norm(lg[2]))) > TOL:
                return False, "does not contain the line"
            if abs(np.dot(n2, g[1] / np.linalg.norm(g[1]))) > TOL:
                return False, "not perpendicular to the plane"
            return True, ""
        raise _Skip("unsupported operand")

    _judge_all(ctx, "perpendicular", call, [self, through], check, call.name)


def post_parallel(ctx, call):
    if call.exc is not None:
        return
    self, through = call.args[0], _arg(call, 1, "through")
    res = call.result
    if not (R.finite(self.array) and R.finite(through.array)):
        return

    def check(pos, es):
        g = sub_geom(self, es[0])
        if g is None:
            raise _Skip("subspace at infinity / complex")
        p = _finite_point(es[1])
        rg = sub_geom(res, _res_elem(res, pos))
        if rg is None or rg[0] != g[0]:
            return False, "result is not a finite subspace of the same kind"
        if _on(rg, p) > TOL * _scale(p):
            return False, "does not pass through the point"
        u, v = (g[2], rg[2]) if g[0] == "line" else (g[1], rg[1])
        return _parallel_dirs(u, v), "not parallel to the subspace"

    _judge_all(ctx, "parallel", call, [self, through], check, "parallel")


def post_project(ctx, call):
    if call.exc is not None:
        return
    self, pt = call.args[0], _arg(call, 1, "pt")
    res = call.result
    if not (R.finite(self.array) and R.finite(pt.array)):
        return

    def check(pos, es):
        g = sub_geom(self, es[0])
        if g is None:
            raise _Skip("subspace at infinity / complex")
        p = _finite_point(es[1])
        q, fin = cart_point(_res_elem(res, pos))
        if q is None or not fin:
            return False, "projection is not a finite real point"
        want = _foot(g, p)
        return np.linalg.norm(q - want) <= TOL * _scale(p, want), f"projection {q} differs from the Cartesian foot {want}"

    _judge_all(ctx, "project", call, [self, pt], check, "project")


def post_mirror(ctx, call):
    from geometer.point import LineTensor

    if call.exc is not None:
        return
    self, pt = call.args[0], _arg(call, 1, "pt")
    res = call.result
    if not (R.finite(self.array) and R.finite(pt.array)):
        return
    dim = self.shape[-1] - 1

    def check(pos, es):
        g = sub_geom(self, es[0])
        if g is None:
            raise _Skip("subspace at infinity / complex")
        p = _finite_point(es[1])
        foot = _foot(g, p)
        if isinstance(self, LineTensor) and dim == 3 and np.linalg.norm(p - foot) <= 1e-9 * _scale(p):
            raise _Skip("point on the 3D line (documented as unhandled)")
        q, fin = cart_point(_res_elem(res, pos))
        if q is None or not fin:
            return False, "mirror image is not a finite real point"
        want = 2 * foot - p
        return np.linalg.norm(q - want) <= 10 * TOL * _scale(p, want), f"mirror image {q} differs from 2*foot - p = {want}"

    _judge_all(ctx, "mirror", call, [self, pt], check, "mirror")
    # involution (outermost call only)
    if call.depth == 0:
        try:
            back = call.orig(self, res)
            for pos, es in _elems([pt]):
                p, fin = cart_point(es[0])
                b, fb = cart_point(_res_elem(back, pos))
                if p is None or not fin:
                    continue
                g = sub_geom(self, np.asarray(self.array[pos[len(pos) - len(S.coll_shape(self)):]]) if S.coll_shape(self) else self.array)
                if g is not None and isinstance(self, LineTensor) and dim == 3 and np.linalg.norm(p - _foot(g, p)) <= 1e-9 * _scale(p):
                    continue
                ok = b is not None and fb and np.linalg.norm(b - p) <= 100 * TOL * _scale(p)
                ctx.judge("mirror", bool(ok), [self, es[0]], what="mirror is not an involution", op="mirror∘mirror", nontrivial=True)
        except Exception:
            pass


def post_is_parallel(ctx, call):
    from geometer.point import LineTensor, PlaneTensor

    self, other = call.args[0], _arg(call, 1, "other")
    if not (S._is_tensor(other) and R.finite(self.array) and R.finite(other.array)):
        return
    if call.exc is not None:
        # the predicate decides a relation of two finite subspaces: coinciding ones are parallel, skew lines are not
        if sub_geom(self, np.asarray(self.array).reshape((-1,) + self.shape[S.coll_axes(self):])[0]) is None:
            return
        ctx.judge("is_parallel", False, [self, other], what=f"is_parallel raised {type(call.exc).__name__}: {str(call.exc)[:80]}", op="is_parallel", nontrivial=True,
                  feat={"op": "is_parallel", "exc": type(call.exc).__name__, "dim": int(self.shape[-1]) - 1})
        return
    res = np.asarray(call.result)
    integral = R.is_dyadic(self.array, 30) and R.is_dyadic(other.array, 30)

    def check(pos, es):
        g1, g2 = sub_geom(self, es[0]), sub_geom(other, es[1])
        if g1 is None or g2 is None:
            raise _Skip("subspace at infinity")
        if g1[0] == g2[0]:
            u, v = (g1[2], g2[2]) if g1[0] == "line" else (g1[1], g2[1])
            c = np.linalg.norm(np.cross(u, v)) if len(u) == 3 else abs(u[0] * v[1] - u[1] * v[0])
            c = c / (np.linalg.norm(u) * np.linalg.norm(v))
        else:
            ln, pl = (g1, g2) if g1[0] == "line" else (g2, g1)
            c = abs(np.dot(ln[2], pl[1])) / (np.linalg.norm(ln[2]) * np.linalg.norm(pl[1]))
        if not (c < 1e-12 or c > 1e-5):
            raise _Skip("within the tolerance band")
        if c > 1e-5 and not integral and c < 1e-3:
            raise _Skip("within the tolerance band")
        want = c < 1e-12
        got = bool(res[pos[len(pos) - res.ndim:]]) if res.ndim else bool(res)
        return got == want, f"is_parallel = {got}, Cartesian answer {want}"

    _judge_all(ctx, "is_parallel", call, [self, other], check, "is_parallel")


def post_base_point(ctx, call):
    if call.exc is not None:
        return
    self, res = call.args[0], call.result
    if not R.finite(self.array):
        return

    def check(pos, es):
        g = sub_geom(self, es[0])
        if g is None:
            raise _Skip("line at infinity / complex")
        q, fin = cart_point(_res_elem(res, pos))
        if q is None or not fin:
            return False, "base point is not a finite real point"
        return _on(g, q) <= TOL * _scale(q, g[1]), "base point is not on the line"

    _judge_all(ctx, "base_point", call, [self], check, "base_point")


def post_direction(ctx, call):
    if call.exc is not None:
        return
    self, res = call.args[0], call.result
    if not R.finite(self.array):
        return

    def check(pos, es):
        g = sub_geom(self, es[0])
        if g is None:
            raise _Skip("line at infinity / complex")
        r = _real(_res_elem(res, pos))
        if r is None:
            return False, "direction is complex"
        if abs(r[-1]) > 1e-9 * max(1e-300, np.abs(r).max()) or not np.any(np.abs(r[:-1]) > 0):
            return False, "direction is not a point at infinity"
        return _parallel_dirs(r[:-1], g[2]), "direction is not the line's point at infinity"

    _judge_all(ctx, "direction", call, [self], check, "direction")


def post_basis_matrix(ctx, call):
    if call.exc is not None:
        return
    self = call.args[0]
    res = np.asarray(call.result)
    if not R.finite(self.array):
        return
    kind = R.kind_of(self)
    if kind not in ("hyper", "line3"):
        return
    fs = R.free_shape(self)
    n = self.shape[-1]
    k = n - 1 if kind == "hyper" else 2
    if res.shape != fs + (k, n):
        ctx.judge("basis_matrix", False, [self], what=f"shape {res.shape} != {fs + (k, n)}", op="basis_matrix")
        return
    for pos in R.positions(fs, 12):
        e = R.element_array(self, pos, fs)
        if not np.any(e != 0):
            continue
        s = R.nsub_from_array(kind, e, self.tensor_shape)
        if s is None:
            ctx.skip("basis_matrix", "not a valid subspace")
            continue
        b = np.asarray(res[pos] if fs else res, dtype=complex)
        orth = np.abs(b @ b.conj().T - np.eye(k)).max()
        inc = np.abs(np.array(s.A) @ b.T).max()
        ok = orth <= 1e-9 and inc <= 1e-9
        ctx.judge("basis_matrix", bool(ok), [e], what=f"rows not orthonormal ({orth:.3g}) or not in the subspace ({inc:.3g})", op="basis_matrix", nontrivial=True)


def post_general_point(ctx, call):
    if call.exc is not None:
        return
    self, res = call.args[0], call.result
    kind = R.kind_of(self)
    if kind not in ("hyper", "line3") or not R.finite(self.array):
        return
    fs = R.free_shape(self)
    for pos in R.positions(fs, 12):
        e = R.element_array(self, pos, fs)
        s = R.nsub_from_array(kind, e, self.tensor_shape)
        if s is None:
            continue
        p = np.asarray(res.array[pos] if fs else res.array, dtype=complex)
        if not np.any(p != 0):
            ctx.judge("general_point", False, [e], what="general point is the zero vector", op="general_point")
            continue
        val = np.abs(np.array(s.A) @ (p / np.linalg.norm(p))).max()
        ctx.judge("general_point", bool(val > 1e-6), [e], what="general point lies in the subspace", op="general_point", nontrivial=True)


def post_is_perpendicular(ctx, call):
    if call.exc is not None:
        # two lines of space that lie in one plane (meeting or parallel, distinct) have an answer: a raise is judged for single pairs
        l, m = call.args[0], call.args[1]
        try:
            if len(call.args) == 2 and not call.kwargs and not S.coll_shape(l) and not S.coll_shape(m) and R.finite(l.array) and R.finite(m.array):
                g1, g2 = sub_geom(l, l.array), sub_geom(m, m.array)
                if g1 is not None and g2 is not None and g1[0] == g2[0] == "line" and len(g1[2]) == 3:
                    u, v, w = g1[2] / np.linalg.norm(g1[2]), g2[2] / np.linalg.norm(g2[2]), g2[1] - g1[1]
                    coplanar = abs(np.linalg.det(np.stack([u, v, w]))) <= 1e-9 * max(1.0, np.linalg.norm(w))
                    distinct = np.linalg.norm(np.cross(u, v)) > 1e-9 or np.linalg.norm(np.cross(u, w)) > 1e-9 * max(1.0, np.linalg.norm(w))
                    if coplanar and distinct:
                        ctx.judge("is_perpendicular", False, [l, m], what=f"is_perpendicular raised {type(call.exc).__name__}: {str(call.exc)[:80]} for two distinct coplanar lines of space",
                                  op="is_perpendicular", feat={"exc": type(call.exc).__name__}, nontrivial=True)
        except Exception:
            pass
        return
    l, m = call.args[0], call.args[1]
    res = np.asarray(call.result)
    if len(call.args) > 2 or call.kwargs:
        return
    if not (R.finite(l.array) and R.finite(m.array)):
        return
    integral = R.is_dyadic(l.array, 30) and R.is_dyadic(m.array, 30)

    def check(pos, es):
        g1, g2 = sub_geom(l, es[0]), sub_geom(m, es[1])
        if g1 is None or g2 is None or g1[0] != g2[0]:
            raise _Skip("subspace at infinity / mixed kinds")
        u, v = (g1[2], g2[2]) if g1[0] == "line" else (g1[1], g2[1])
        c = abs(np.dot(u, v)) / (np.linalg.norm(u) * np.linalg.norm(v))
        if not (c < 1e-12 or c > 1e-4):
            raise _Skip("within the tolerance band")
        want = c < 1e-12
        got = bool(res[pos[len(pos) - res.ndim:]]) if res.ndim else bool(res)
        return got == want, f"is_perpendicular = {got}, Cartesian answer {want} (|cos| = {c:.3g})"

    _judge_all(ctx, "is_perpendicular", call, [l, m], check, "is_perpendicular")


def _cocircular_3d(ctx, call, pts, res):
    """Four points of space lie on a circle iff the rows (|p|^2, x, y, z, 1) have rank <= 3 (a pencil of spheres through them);
    coplanar points that are not concyclic and points that are not coplanar give rank 4."""
    if not all(R.is_integral(p.array, 1000) for p in pts):
        ctx.skip("is_cocircular", "non-lattice operands")
        return

    def check(pos, es):
        rows = []
        for e in es:
            x, y, z, w = (X.num(v) for v in e.tolist())
            if w == 0:
                raise _Skip("point at infinity")
            x, y, z = x / w, y / w, z / w
            rows.append([x * x + y * y + z * z, x, y, z, X.F(1)])
        if X.rank([r[1:] for r in rows]) < 3:
            raise _Skip("collinear / coincident points (degenerate)")
        want = X.rank(rows) <= 3
        got = bool(res[pos[len(pos) - res.ndim:]]) if res.ndim else bool(res)
        return got == want, f"is_cocircular = {got} for points of space, the exact rank criterion says {want}"

    _judge_all(ctx, "is_cocircular", call, list(pts), check, "is_cocircular")


def _cocircular_cp1(ctx, call, pts, res):
    """Points of the complex projective line lie on a circle (or line) iff their cross ratio is real: exact cross ratio of the given
    coordinates over Q(i); a band between 1e-12 and 1e-6 (relative imaginary part) is not judged."""
    def check(pos, es):
        v = [[X.GQ.of(complex(c)) for c in e.tolist()] for e in es]
        d = lambda p, q: p[0] * q[1] - p[1] * q[0]  # noqa: E731
        num, den = d(v[0], v[2]) * d(v[1], v[3]), d(v[0], v[3]) * d(v[1], v[2])
        if not num or not den:
            raise _Skip("coincident points (degenerate)")
        cr = complex(num / den)
        rel = abs(cr.imag) / max(abs(cr), 1e-300)
        if 1e-12 < rel < 1e-6:
            raise _Skip("cross ratio neither clearly real nor clearly non-real")
        want = rel <= 1e-12
        got = bool(res[pos[len(pos) - res.ndim:]]) if res.ndim else bool(res)
        return got == want, f"is_cocircular = {got} for points of CP1 with cross ratio {cr:.6g} (imaginary part {cr.imag:.3g})"

    _judge_all(ctx, "is_cocircular", call, list(pts), check, "is_cocircular")


def post_is_cocircular(ctx, call):
    if call.exc is not None or len(call.args) != 4 or call.kwargs:
        return
    pts = call.args
    res = np.asarray(call.result)
    if not all(R.finite(p.array) for p in pts):
        return
    if pts[0].shape[-1] == 2:
        return _cocircular_cp1(ctx, call, pts, res)
    if pts[0].shape[-1] == 4:
        return _cocircular_3d(ctx, call, pts, res)
    if pts[0].shape[-1] != 3:
        return
    if not all(R.is_integral(p.array, 1000) for p in pts):
        ctx.skip("is_cocircular", "non-lattice operands")
        return

    def check(pos, es):
        rows = []
        for e in es:
            x, y, w = (X.num(v) for v in e.tolist())
            if w == 0:
                raise _Skip("point at infinity")
            x, y = x / w, y / w
            rows.append([x * x + y * y, x, y, X.F(1)])
        want = X.det(rows) == 0
        if X.rank([r[1:] for r in rows]) < 3 and not want:
            pass
        if X.rank([r[1:] for r in rows]) < 3:
            raise _Skip("collinear / coincident points (degenerate)")
        got = bool(res[pos[len(pos) - res.ndim:]]) if res.ndim else bool(res)
        return got == want, f"is_cocircular = {got}, exact circle determinant says {want}"

    _judge_all(ctx, "is_cocircular", call, list(pts), check, "is_cocircular")


def post_is_coplanar(ctx, call):
    if call.kwargs:
        return
    args = call.args
    if not all(S._is_tensor(a) for a in args):
        return
    kinds = {R.kind_of(a) for a in args}
    if len(kinds) != 1 or kinds & {"line3", None}:
        ctx.skip("is_coplanar", "mixed kinds / 3D lines")
        return
    n = args[0].shape[-1]
    if len(args) < n or not all(R.is_integral(a.array, 1000) for a in args):
        ctx.skip("is_coplanar", "non-lattice operands / too few arguments")
        return
    if call.exc is not None:
        ctx.judge("is_coplanar", False, list(args), what=f"is_coplanar/collinear/concurrent raised {type(call.exc).__name__}: {str(call.exc)[:80]}", op="is_coplanar", nontrivial=True,
                  feat={"exc": type(call.exc).__name__, "same_object_twice": any(a is b for i, a in enumerate(args) for b in args[:i])})
        return
    res = np.asarray(call.result)
    try:
        full = np.broadcast_shapes(*[S.coll_shape(a) for a in args])
    except ValueError:
        return
    if res.shape != tuple(full):
        ctx.judge("is_coplanar", False, list(args), what=f"result shape {res.shape} != collection shape {tuple(full)} of the arguments", op="is_coplanar", nontrivial=True,
                  feat={"shape": True, "nargs": len(args), "n": int(n)})
        return

    def check(pos, es):
        want = X.rank([X.vec(e) for e in es]) <= n - 1
        got = bool(res[pos[len(pos) - res.ndim:]]) if res.ndim else bool(res)
        if got != want and len(es) > n and X.rank([X.vec(e) for e in es[: n - 1]]) < n - 1:
            # recorded with its mechanism for the known-finding classifier
            ctx.judge("is_coplanar", False, es, what=f"is_coplanar/collinear/concurrent = {got}, exact rank test says {want} (the first {n - 1} arguments are linearly dependent)",
                      op="is_coplanar", feat={"first_dependent": True, "nargs": len(es), "n": n}, nontrivial=True)
            return None, "recorded"
        return got == want, f"is_coplanar/collinear/concurrent = {got}, exact rank test says {want}"

    _judge_all(ctx, "is_coplanar", call, list(args), check, "is_coplanar")


def f31_first_arguments_dependent(rec, feat):
    """is_coplanar / is_collinear / is_concurrent with more than dim+1 arguments tests the extra arguments against the subspace spanned by the
    first dim arguments; when those are linearly dependent (e.g. two coincident points) that subspace degenerates to the zero tensor and
    every extra argument passes."""
    return rec["monitor"] == "is_coplanar" and bool(feat.get("first_dependent")) and feat.get("nargs", 0) > feat.get("n", 99)


CLASSIFIERS = {"f31_first_arguments_dependent": f31_first_arguments_dependent}


def post_angle_bisectors(ctx, call):
    if call.exc is not None:
        return
    l, m = call.args[0], call.args[1]
    res = call.result
    if not (R.finite(l.array) and R.finite(m.array)):
        return

    def check(pos, es):
        g1, g2 = sub_geom(l, es[0]), sub_geom(m, es[1])
        if g1 is None or g2 is None:
            raise _Skip("line at infinity")
        u, v = g1[2] / np.linalg.norm(g1[2]), g2[2] / np.linalg.norm(g2[2])
        c = np.linalg.norm(np.cross(u, v)) if len(u) == 3 else abs(u[0] * v[1] - u[1] * v[0])
        if c < 1e-6:
            raise _Skip("parallel lines")
        # vertex
        A = np.array([u, -v]).T
        sol = np.linalg.lstsq(A, g2[1] - g1[1], rcond=None)[0]
        vertex = g1[1] + sol[0] * u
        if np.linalg.norm(vertex - (g2[1] + sol[1] * v)) > 1e-7 * _scale(vertex):
            raise _Skip("skew lines")
        bis = []
        for b in res:
            bg = sub_geom(b, _res_elem(b, pos))
            if bg is None or bg[0] != "line":
                return False, "a bisector is not a finite real line"
            bis.append(bg)
        d1, d2 = bis[0][2] / np.linalg.norm(bis[0][2]), bis[1][2] / np.linalg.norm(bis[1][2])
        sc = _scale(vertex)
        if _on(bis[0], vertex) > TOL * sc or _on(bis[1], vertex) > TOL * sc:
            return False, "a bisector does not pass through the vertex"
        if abs(np.dot(d1, d2)) > TOL:
            return False, "the bisectors are not perpendicular"
        for d in (d1, d2):
            if abs(abs(np.dot(d, u)) - abs(np.dot(d, v))) > TOL:
                return False, "a bisector does not make equal angles with both lines"
        want = {tuple(np.round((u + v) / np.linalg.norm(u + v), 6)), tuple(np.round((u - v) / np.linalg.norm(u - v), 6))}
        return True, ""

    _judge_all(ctx, "angle_bisectors", call, [l, m], check, "angle_bisectors")


def install(ctx):
    import geometer.operators as O
    import geometer.point as P

    # the constructions also leave the subspace and the point they are built from untouched
    keep = lambda post: core.with_operands_unchanged(post, "operands")  # noqa: E731
    core.wrap_method(P.LineTensor, "perpendicular", keep(post_perpendicular), pre=core.operand_bytes)
    core.wrap_method(P.PlaneTensor, "perpendicular", keep(post_perpendicular), pre=core.operand_bytes)
    core.wrap_method(P.SubspaceTensor, "parallel", keep(post_parallel), pre=core.operand_bytes)
    core.wrap_method(P.SubspaceTensor, "project", keep(post_project), pre=core.operand_bytes)
    core.wrap_method(P.LineTensor, "mirror", keep(post_mirror), pre=core.operand_bytes)
    core.wrap_method(P.PlaneTensor, "mirror", keep(post_mirror), pre=core.operand_bytes)
    core.wrap_method(P.SubspaceTensor, "is_parallel", post_is_parallel)
    core.wrap_method(P.LineTensor, "base_point", post_base_point)
    core.wrap_method(P.LineTensor, "direction", post_direction)
    core.wrap_method(P.SubspaceTensor, "basis_matrix", post_basis_matrix)
    core.wrap_method(P.LineTensor, "basis_matrix", post_basis_matrix)
    core.wrap_method(P.PlaneTensor, "basis_matrix", post_basis_matrix)
    core.wrap_method(P.SubspaceTensor, "general_point", post_general_point)
    core.wrap_function(O, "is_perpendicular", post_is_perpendicular)
    core.wrap_function(O, "is_cocircular", post_is_cocircular)
    core.wrap_function(O, "is_coplanar", post_is_coplanar)
    core.wrap_function(O, "angle_bisectors", post_angle_bisectors)


# ---------------------------------------------------------------------------------
# workload
# ---------------------------------------------------------------------------------

def _line2(rng, cls, mode):
    """2D line of an orientation class: 0 generic, 1 vertical, 2 horizontal, 3 through the origin."""
    if cls == 1:
        return np.array([1, 0, -int(rng.integers(-5, 6))])
    if cls == 2:
        return np.array([0, 1, -int(rng.integers(-5, 6))])
    if cls == 3:
        return np.append(gen.nonzero_vec(rng, 2, 5, mode), 0)
    return np.append(gen.nonzero_vec(rng, 2, 5, mode), gen.coords(rng, (1,), 9, mode))


def _try(f, *a, **k):
    try:
        return f(*a, **k)
    except Exception:
        return None


def g_constructions2d(ctx, rng, i):
    import geometer as g

    mode = ["int", "float"][i % 2]
    cls = (i // 2) % 4
    h = _line2(rng, cls, mode)
    lam = gen.pick(rng, [1, -2, 0.5, 3])
    l = g.Line(h * lam)
    p_off = g.Point(gen.finite_point(rng, 2, 9, mode))
    # a point exactly on the line (integer lines: rational point)
    d = np.array([h[1], -h[0], 0])
    base = np.array([-h[0] * h[2], -h[1] * h[2], h[0] ** 2 + h[1] ** 2])
    p_on = g.Point(base + int(rng.integers(-3, 4)) * base[2] * d) if mode == "int" else g.Point(base / base[2] + 0.5 * d)
    for p in (p_off, p_on):
        _try(l.perpendicular, p)
        _try(l.parallel, p)
        _try(l.project, p)
        _try(l.mirror, p)
    l.base_point
    l.direction
    l.basis_matrix
    l.general_point
    m = g.Line(_line2(rng, (cls + i // 8) % 4, mode))
    _try(l.is_parallel, m)
    _try(l.is_parallel, g.Line(np.append(h[:2] * 3, h[2] + 2)))
    # a line is parallel to itself, to another representative of itself and to its own parallel through one of its points
    _try(l.is_parallel, l)
    _try(l.is_parallel, g.Line(h * -2.0))
    par_on = _try(l.parallel, p_on)
    if par_on is not None:
        _try(l.is_parallel, par_on)
    _try(g.LineCollection(np.stack([h * 1.0, m.array * 1.0, h * 3.0])).is_parallel, l)
    _try(g.is_perpendicular, l, m)
    _try(g.is_perpendicular, l, g.Line(np.array([h[1], -h[0], int(rng.integers(-4, 5))])))
    _try(g.angle_bisectors, l, m)
    # lines returned by the library (perpendiculars, joins of mirror images: their coordinate arrays carry a non-real common factor)
    perp_off = _try(l.perpendicular, p_off)
    if perp_off is not None:
        _try(g.angle_bisectors, l, perp_off)
        _try(g.angle_bisectors, perp_off, m)
        _try(g.angle_bisectors, m, g.Line(perp_off.array * (2 - 1j)))
    mir = _try(l.mirror, p_off)
    if mir is not None:
        jm = _try(g.join, mir, g.Point(gen.finite_point(rng, 2)))
        if jm is not None:
            _try(g.angle_bisectors, jm, m)
    # collections with mixed on/off masks
    shape = gen.pick(rng, [(3,), (2, 2), (4,), (1,)])
    n = int(np.prod(shape))
    hs = np.stack([_line2(rng, int(rng.integers(0, 4)), mode) for _ in range(n)]).astype(float if mode == "float" else np.int64)
    pts = []
    for k in range(n):
        hh = hs[k]
        if rng.random() < 0.5:
            b = np.array([-hh[0] * hh[2], -hh[1] * hh[2], hh[0] ** 2 + hh[1] ** 2])
            pts.append(b + int(rng.integers(-2, 3)) * b[2] * np.array([hh[1], -hh[0], 0]))
        else:
            pts.append(gen.finite_point(rng, 2, 9, "int", w=1))
    lc = g.LineCollection(hs.reshape(shape + (3,)))
    pc = g.PointCollection(np.stack(pts).reshape(shape + (3,)))
    for f in (lc.perpendicular, lc.parallel, lc.project, lc.mirror):
        _try(f, pc)
        _try(f, p_off)
    _try(l.perpendicular, pc)
    _try(l.mirror, pc)
    lc.base_point
    lc.direction
    lc.basis_matrix
    lc.general_point
    # cocircular: 4 points, on a common circle by construction (rational parametrisation) or not
    c = gen.coords(rng, (2,), 4, "int")
    r = int(rng.integers(1, 5))
    ts = rng.choice([0, 1, 2, 3, -1, -2, -3], size=4, replace=False)
    cp = [np.array([c[0] * (1 + t * t) + r * (1 - t * t), c[1] * (1 + t * t) + r * 2 * t, 1 + t * t]) for t in ts]
    _try(g.is_cocircular, *[g.Point(v) for v in cp])
    cp0 = [v.copy() for v in cp]
    cp[3] = cp[3] + np.array([1, 0, 0])
    _try(g.is_cocircular, *[g.Point(v) for v in cp])
    # the same circle placed in a plane of space; the fourth point on it, lifted out of the plane, moved inside the plane
    # an orthogonal integer frame: two axis vectors (possibly scaled and permuted) keep circles circles
    ax = rng.permutation(3)
    e1, e2, e3 = np.eye(3, dtype=int)[ax[0]] * gen.pick(rng, [1, -1, 2]), np.eye(3, dtype=int)[ax[1]], np.eye(3, dtype=int)[ax[2]]
    e2 = e2 * int(abs(e1).max())
    o3 = gen.coords(rng, (3,), 3, "int")
    sp = [np.append(o3 * q[2] + q[0] * e1 + q[1] * e2, q[2]) for q in cp0]
    _try(g.is_cocircular, *[g.Point(q) for q in sp])
    lifted = sp[3] + np.append(e3 * sp[3][3] * gen.pick(rng, [1, 5, -2]), 0)
    _try(g.is_cocircular, g.Point(sp[0]), g.Point(sp[1]), g.Point(sp[2]), g.Point(lifted))
    _try(g.is_cocircular, g.Point(sp[0]), g.Point(sp[1]), g.Point(sp[2]), g.Point(sp[3] + np.append(e1, 0)))
    # points of the complex projective line: on a circle of the complex plane (floating point coordinates), and off it
    ang = rng.uniform(0, 2 * np.pi, size=4)
    zc, rr = complex(*rng.uniform(-2, 2, size=2)), float(rng.uniform(0.5, 3))
    zs = [zc + rr * np.exp(1j * t) for t in ang]
    fac = [gen.pick(rng, [1, 1, 0.3 + 1.1j, -2j]) for _ in range(4)]
    if min(abs(zs[a_] - zs[b_]) for a_ in range(4) for b_ in range(a_)) > 0.2:
        _try(g.is_cocircular, *[g.Point(np.array([z * f_, f_])) for z, f_ in zip(zs, fac)])
        _try(g.is_cocircular, *[g.Point(np.array([z * f_, f_])) for z, f_ in zip(zs[:3] + [zs[3] + 0.3], fac)])
    xs = rng.choice(np.arange(-9, 10), size=4, replace=False) / 4.0
    _try(g.is_cocircular, *[g.Point(np.array([x * f_, f_])) for x, f_ in zip(xs, fac)])  # four points of the real line
    # collinear / concurrent predicates on lattice configurations
    a, b = gen.nonzero_vec(rng, 3, 4), gen.nonzero_vec(rng, 3, 4)
    _try(g.is_collinear, g.Point(a), g.Point(b), g.Point(2 * a - 3 * b))
    _try(g.is_collinear, g.Point(a), g.Point(b), g.Point(gen.nonzero_vec(rng, 3, 4)))
    _try(g.is_concurrent, g.Line(a), g.Line(b), g.Line(a + b))
    _try(g.is_collinear, g.Point(a), g.Point(b), g.Point(2 * a - 3 * b), g.Point(a + b))
    _try(g.is_collinear, g.Point(a), g.Point(b), g.Point(2 * a - 3 * b), g.Point(gen.nonzero_vec(rng, 3, 4)))
    # collections with more than dim+1 arguments and mixed batches: every combination of (first three collinear?, fourth on the line?)
    rows = []
    for first_ok in (False, True, True, False, True):
        u, v = gen.nonzero_vec(rng, 3, 4), gen.nonzero_vec(rng, 3, 4)
        w = 2 * u - v if first_ok else gen.nonzero_vec(rng, 3, 4)
        x = u + 3 * v if rng.random() < 0.5 else gen.nonzero_vec(rng, 3, 4)
        rows.append((u, v, w, x))
    order = rng.permutation(len(rows))
    cols = [np.stack([rows[k][j] for k in order]) for j in range(4)]
    _try(g.is_collinear, *[g.PointCollection(c) for c in cols])
    _try(g.is_concurrent, *[g.LineCollection(c) for c in cols])
    _try(g.is_collinear, g.PointCollection(cols[0]), g.PointCollection(cols[1]), g.PointCollection(cols[2]), g.Point(rows[0][3]))
    # single leading arguments and a collection as last one (the result has the shape of the collection), collinear and not
    u, v = rows[1][0], rows[1][1]
    _try(g.is_collinear, g.Point(u), g.Point(v), g.Point(2 * u - v), g.PointCollection(cols[3]))
    _try(g.is_collinear, g.Point(u), g.Point(v), g.Point(gen.nonzero_vec(rng, 3, 4)), g.PointCollection(cols[3]))
    _try(g.is_concurrent, g.Line(u), g.Line(v), g.Line(2 * u - v), g.LineCollection(cols[3]))
    # the same object passed twice
    pu = g.Point(u)
    _try(g.is_collinear, pu, pu, g.Point(v))
    _try(g.is_collinear, pu, g.Point(v), pu, g.Point(2 * u - v))
    lu = g.Line(u)
    _try(g.is_concurrent, lu, lu, g.Line(v), g.Line(u + v))


def g_constructions3d(ctx, rng, i):
    import geometer as g

    mode = ["int", "float"][i % 2]
    for _ in range(20):
        a, b, c = (gen.finite_point(rng, 3, 6, mode, w=1) for _ in range(3))
        if X.rank([X.vec(a), X.vec(b), X.vec(c)]) == 3:
            break
    else:
        return
    cls = (i // 2) % 4
    if cls == 1:  # line through the origin
        a = np.array([0, 0, 0, 1]) * (1.0 if mode == "float" else 1)
    if cls == 2:  # axis parallel
        b = a + np.array([0, 0, 3, 0])
    A, B, C = g.Point(a), g.Point(b), g.Point(c)
    l = g.Line(A, B)
    e = g.Plane(A, B, C)
    p_off = g.Point(gen.finite_point(rng, 3, 9, mode))
    p_on_l = g.Point(2 * a - b) if mode == "int" else g.Point(0.25 * a + 0.75 * b)
    p_on_e = g.Point(a + b - c) if mode == "int" else g.Point((a + b + c) / 3)
    for p in (p_off, p_on_l):
        _try(l.perpendicular, p)
        _try(l.project, p)
        _try(l.parallel, p)
    _try(l.perpendicular, p_on_l, plane=e)
    _try(l.perpendicular, p_on_e, plane=e)
    _try(l.mirror, p_off)
    _try(l.mirror, p_on_e)
    for p in (p_off, p_on_e):
        _try(e.perpendicular, p)
        _try(e.project, p)
        _try(e.parallel, p)
        _try(e.mirror, p)
    m = g.Line(A, C)
    _try(e.perpendicular, l)
    _try(g.Plane(gen.nonzero_vec(rng, 4, 4)).perpendicular, l)
    l.base_point
    l.direction
    l.basis_matrix
    e.basis_matrix
    l.general_point
    e.general_point
    _try(e.is_parallel, g.Plane(np.append(e.array[:3], e.array[3] + 1)))
    _try(e.is_parallel, g.Plane(gen.nonzero_vec(rng, 4, 4)))
    _try(e.is_parallel, g.Line(p_off, g.Point(p_off.normalized_array + (b - a))))
    # a plane / a line of space is parallel to itself and to its parallel through one of its own points; skew lines are not parallel
    _try(e.is_parallel, e)
    _try(e.is_parallel, g.Plane(np.asarray(e.array) * -3.0))
    _try(l.is_parallel, l)
    _try(l.is_parallel, g.Line(B, A))
    _try(l.is_parallel, g.Line(p_off, g.Point(p_off.normalized_array + (b - a))))
    _try(l.is_parallel, g.Line(p_off, g.Point(p_off.normalized_array + (c - a))))
    _try(l.is_coplanar, l)
    _try(g.is_perpendicular, l, m)
    # two distinct parallel lines of space (coplanar, never perpendicular), alone and as one pair of a collection
    l_par = g.Line(p_off, g.Point(p_off.normalized_array + (b - a)))
    _try(g.is_perpendicular, l, l_par)
    _try(g.is_perpendicular, l_par, l)
    _try(g.is_perpendicular, g.LineCollection(np.stack([l.array, l.array])), g.LineCollection(np.stack([l_par.array, m.array])))
    _try(g.is_perpendicular, e, g.Plane(gen.nonzero_vec(rng, 4, 4)))
    n = e.array[:3]
    _try(g.is_perpendicular, e, g.Plane(np.append(np.cross(n, b[:3] - a[:3]), 1)))
    _try(g.angle_bisectors, l, m)
    _try(g.is_coplanar, A, B, C, g.Point(a + b - c))
    _try(g.is_coplanar, A, B, C, p_off)
    _try(g.is_coplanar, A, B, C, g.Point(a + b - c), g.Point(2 * a - b))
    rows = []
    for first_ok in (False, True, True, False):
        u, v, w = (np.append(gen.coords(rng, (3,), 4, "int"), 1) for _ in range(3))
        x = u + v - w if first_ok else np.append(gen.coords(rng, (3,), 4, "int"), 1)
        y = 2 * u - v if rng.random() < 0.5 else np.append(gen.coords(rng, (3,), 4, "int"), 1)
        rows.append((u, v, w, x, y))
    order = rng.permutation(len(rows))
    cols = [np.stack([rows[k][j] for k in order]) for j in range(5)]
    _try(g.is_coplanar, *[g.PointCollection(cc) for cc in cols])
    _try(g.is_coplanar, *[g.PointCollection(cc) for cc in cols[:4]])
    # collections with mixed on/off masks
    shape = gen.pick(rng, [(3,), (2, 2), (1, 3)])
    k = int(np.prod(shape))
    pa = np.stack([gen.finite_point(rng, 3, 6, "int", w=1) for _ in range(k)])
    pb = pa + np.stack([gen.nonzero_vec(rng, 3, 3) for _ in range(k)]) @ np.eye(3, 4, dtype=int)
    q = np.stack([(2 * pa[j] - pb[j]) if rng.random() < 0.5 else gen.finite_point(rng, 3, 6, "int", w=1) for j in range(k)])
    LC = g.join(g.PointCollection(pa.reshape(shape + (4,))), g.PointCollection(pb.reshape(shape + (4,))))
    QC = g.PointCollection(q.reshape(shape + (4,)))
    for f in (LC.perpendicular, LC.project, LC.parallel):
        _try(f, QC)
        _try(f, p_off)
    _try(LC.mirror, p_off)
    LC.base_point
    LC.direction
    LC.basis_matrix
    hs = np.stack([gen.nonzero_vec(rng, 4, 4) for _ in range(k)])
    hs[:, 0] += 7
    EC = g.PlaneCollection(hs.reshape(shape + (4,)))
    for f in (EC.perpendicular, EC.project, EC.parallel, EC.mirror):
        _try(f, QC)
        _try(f, p_off)
    EC.basis_matrix
    EC.general_point
    LC.general_point


_tolerant = core.tolerant

g_constructions2d = _tolerant(g_constructions2d)
g_constructions3d = _tolerant(g_constructions3d)

GROUPS = [
    {"name": "constructions2d", "fn": g_constructions2d, "quick": 640, "thorough": 6400},
    {"name": "constructions3d", "fn": g_constructions3d, "quick": 480, "thorough": 4800},
]
