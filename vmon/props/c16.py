"""C16 -- segment, polygon and triangle membership is the closed Cartesian point set."""
from __future__ import annotations

from fractions import Fraction as F

import numpy as np

from .. import core, gen
from .. import exact as X
from .. import ref as R
from . import c04 as S

RULE = ("postconditions on SegmentTensor.contains, PolygonTensor.contains and Triangle.contains on every call (workload, library-internal calls from "
        "intersect / dist, repository tests) against exact rational membership: on-segment test (rays when an endpoint is at infinity), exact "
        "even-odd / boundary-inclusive point-in-polygon, 3D: exact coplanarity then the exact test in a dropped-coordinate projection; points at "
        "infinity are outside finite polygons. Workload: polygon zoo (square, triangles of both orientations, dart, L, comb, diamond, spiral) x "
        "integer affine images x every cyclic rotation and both directions of the vertex list x every lattice query point of the bounding box + 1 "
        "margin (contains every measure-zero position: on edges, at vertices, on edge extensions, level with a vertex), 3D embeddings in planes of "
        "many normals with queries on and off the plane, single Point and PointCollection APIs, PolygonCollection, segments incl. rays. "
        "Non-trivial: every judged (polygon, point) pair; distinct by digest."
        " Also: polygons moved by a translation / integer affine map after they have been queried, figures scaled by 2^-5 ... 2^-11, point collections mixing points in the plane of a 3D polygon with points above and below them; integer coordinates of 60 ... 10^4 (pixel coordinates) in int64, int32, int16 and floating point representation; segments mapped 6-13 times by the same integer affine map (every image answers for its own end points, midpoint and neighbours); polygon collections built from one point collection per vertex position against the polygons built one by one.")
SHARDS = (8, 16)
REQUIRED = ["segment.contains", "polygon.contains", "triangle.contains"]
ASSUMPTIONS = ["exact judgement needs exactly representable coordinates; float queries are judged only when farther than 1e-6 from the boundary",
               "a 3D polygon whose first three vertices are collinear is rejected by the constructor (the supporting plane is the join of the first three vertices): such vertex cycles are not generated",
               "in-place edits of a polytope's vertices (documented mutator __setitem__) are not followed by the cached supporting line / plane: not part of the workload"]
EXHAUSTIVE = {"quick": ["every lattice query point of the bounding box + 1 of each generated polygon"], "thorough": ["every lattice query point of the bounding box + 1 of each generated polygon"]}


def _fr(v):
    return [F(x) if not isinstance(x, float) else F(x) for x in v]


def cart_exact(e):
    """Exact cartesian coordinates of a homogeneous real point, or ('inf', direction)."""
    v = X.vec(e)
    if any(isinstance(x, X.GQ) and not x.is_real() for x in v):
        return None
    v = [x.re if isinstance(x, X.GQ) else x for x in v]
    if v[-1] == 0:
        return ("inf", v[:-1])
    return ("fin", [x / v[-1] for x in v[:-1]])


def seg_contains_exact(a, b, p):
    """a, b, p from cart_exact. Closed segment / ray."""
    if a is None or b is None or p is None:
        return None
    if a[0] == "inf" and b[0] == "inf":
        return None
    if a[0] == "inf":
        a, b = b, a
    if b[0] == "inf":
        # ray from a in direction b
        d = b[1]
        if p[0] == "inf":
            return X.rank([d, p[1]]) == 1
        w = [x - y for x, y in zip(p[1], a[1])]
        if X.rank([d, w]) > 1:
            return False
        k = next(i for i, x in enumerate(d) if x != 0)
        return (w[k] / d[k]) >= 0
    if p[0] == "inf":
        return False
    d = [x - y for x, y in zip(b[1], a[1])]
    w = [x - y for x, y in zip(p[1], a[1])]
    if all(x == 0 for x in d):
        return all(x == 0 for x in w)
    if X.rank([d, w]) > 1:
        return False
    k = next(i for i, x in enumerate(d) if x != 0)
    t = w[k] / d[k]
    return 0 <= t <= 1


def pip_exact(V, p):
    """Exact closed point-in-polygon (even-odd rule, boundary inclusive) for rational 2D vertices V and point p."""
    n = len(V)
    for k in range(n):
        if seg_contains_exact(("fin", V[k]), ("fin", V[(k + 1) % n]), ("fin", p)):
            return True
    inside = False
    x, y = p
    for k in range(n):
        x1, y1 = V[k]
        x2, y2 = V[(k + 1) % n]
        if (y1 > y) != (y2 > y):
            xi = x1 + (y - y1) * (x2 - x1) / (y2 - y1)
            if xi > x:
                inside = not inside
    return inside


def polygon_contains_exact(Vh, ph):
    """Vh: list of homogeneous vertex arrays (2D or 3D), ph homogeneous point. Returns True/False/None (not judged)."""
    V = [cart_exact(v) for v in Vh]
    p = cart_exact(ph)
    if p is None or any(v is None or v[0] == "inf" for v in V):
        return None
    if p[0] == "inf":
        return False
    V = [v[1] for v in V]
    p = p[1]
    if len(p) == 2:
        return pip_exact(V, p)
    # 3D: coplanarity, then drop a coordinate of the normal with a non-zero entry
    nrm = None
    for k in range(1, len(V) - 1):
        u = [a - b for a, b in zip(V[k], V[0])]
        w = [a - b for a, b in zip(V[k + 1], V[0])]
        c = X.cross3(u, w)
        if any(x != 0 for x in c):
            nrm = c
            break
    if nrm is None:
        return None
    if any(X.dot(nrm, [a - b for a, b in zip(v, V[0])]) != 0 for v in V):
        return None  # not a planar polygon
    if X.dot(nrm, [a - b for a, b in zip(p, V[0])]) != 0:
        return False
    drop = max(range(3), key=lambda k: abs(nrm[k]))
    keep = [k for k in range(3) if k != drop]
    return pip_exact([[v[k] for k in keep] for v in V], [p[k] for k in keep])


def _exact_ok(*arrs):
    return all(R.is_dyadic(a, 30, 2 ** 20) and not (np.iscomplexobj(a) and np.any(np.asarray(a).imag != 0)) for a in arrs)


def _positions(self, other, n_vertex_axes):
    """Collection positions: polytope collection axes (vertex axes excluded) broadcast with the point collection axes."""
    cs_self = tuple(self.shape[: self.rank - 1 - n_vertex_axes])
    cs_pt = tuple(other.shape[:-1])
    cshape = np.broadcast_shapes(cs_self, cs_pt)
    return cs_self, cs_pt, cshape


def _idx(cs, pos, cshape):
    return tuple(0 if s == 1 else x for s, x in zip(cs, pos[len(cshape) - len(cs):]))


def post_segment_contains(ctx, call):
    if call.exc is not None:
        return
    self, other = call.args[0], call.args[1]
    tol = call.args[2] if len(call.args) > 2 else call.kwargs.get("tol", 1e-8)
    if tol != 1e-8 or not hasattr(other, "array"):
        return
    if not (R.finite(self.array) and R.finite(other.array)) or other.shape[0] == 0:
        return
    if not _exact_ok(self.array, other.array):
        ctx.skip("segment.contains", "operands not exactly representable")
        return
    try:
        cs_self, cs_pt, cshape = _positions(self, other, 1)
    except ValueError:
        return
    res = np.asarray(call.result)
    if res.shape != tuple(cshape):
        ctx.judge("segment.contains", False, [self, other], what=f"result shape {res.shape} != {tuple(cshape)}", op="Segment.contains")
        return
    for pos in R.positions(tuple(cshape), 24):
        seg = self.array[_idx(cs_self, pos, cshape)] if cs_self else self.array
        p = other.array[_idx(cs_pt, pos, cshape)] if cs_pt else other.array
        if not np.any(p != 0) or not np.any(seg[0] != 0) or not np.any(seg[1] != 0):
            ctx.skip("segment.contains", "zero vector")
            continue
        want = seg_contains_exact(cart_exact(seg[0]), cart_exact(seg[1]), cart_exact(p))
        if want is None:
            ctx.skip("segment.contains", "both endpoints at infinity / complex")
            continue
        if X.rank([X.vec(seg[0]), X.vec(seg[1])]) < 2:
            ctx.skip("segment.contains", "degenerate segment")
            continue
        got = bool(res[pos] if cshape else res)
        ray = bool(seg[0][-1] == 0 or seg[1][-1] == 0)
        ctx.judge("segment.contains", got == want, [seg, p], what=f"Segment.contains = {got}, exact membership {want}", op="Segment.contains", feat={"ray": ray, "dim": len(p) - 1},
                  nontrivial=True)


def _post_polygon(ctx, call, monitor):
    if call.exc is not None:
        return
    self, other = call.args[0], call.args[1]
    if not hasattr(other, "array") or other.shape[0] == 0:
        return
    if not (R.finite(self.array) and R.finite(other.array)):
        return
    if not _exact_ok(self.array, other.array):
        ctx.skip(monitor, "operands not exactly representable")
        return
    try:
        cs_self, cs_pt, cshape = _positions(self, other, 1)
    except ValueError:
        return
    res = np.asarray(call.result)
    if res.shape != tuple(cshape):
        ctx.judge(monitor, False, [self, other], what=f"result shape {res.shape} != {tuple(cshape)}", op=call.name)
        return
    dim = self.shape[-1] - 1
    for pos in R.positions(tuple(cshape), 400):
        poly = self.array[_idx(cs_self, pos, cshape)] if cs_self else self.array
        p = other.array[_idx(cs_pt, pos, cshape)] if cs_pt else other.array
        if not np.any(p != 0):
            continue
        want = polygon_contains_exact(list(poly), p)
        if want is None:
            ctx.skip(monitor, "vertex at infinity / non-planar / complex")
            continue
        got = bool(res[pos] if cshape else res)
        ctx.judge(monitor, got == want, [poly, p], what=f"{call.name} = {got}, exact closed-region membership {want}", op=call.name,
                  feat={"dim": dim, "nvert": int(poly.shape[0]), "query_inf": bool(p[-1] == 0)}, nontrivial=True)


def post_polygon_contains(ctx, call):
    _post_polygon(ctx, call, "polygon.contains")


def post_triangle_contains(ctx, call):
    _post_polygon(ctx, call, "triangle.contains")


def install(ctx):
    import geometer.shapes as Sh

    core.wrap_method(Sh.Triangle, "contains", post_triangle_contains)
    # ... and every other class of the tree that defines contains itself (overrides added by a refactor included)
    core.wrap_method_everywhere(Sh.SegmentTensor, "contains", post_segment_contains)
    core.wrap_method_everywhere(Sh.PolygonTensor, "contains", post_polygon_contains)


# ---------------------------------------------------------------------------------
# workload
# ---------------------------------------------------------------------------------

ZOO = {
    "square": [(0, 0), (3, 0), (3, 3), (0, 3)],
    "tri_ccw": [(0, 0), (4, 1), (1, 4)],
    "tri_cw": [(0, 0), (1, 4), (4, 1)],
    "dart": [(0, 0), (4, 0), (4, 4), (2, 1), (0, 4)],
    "L": [(0, 0), (4, 0), (4, 1), (1, 1), (1, 4), (0, 4)],
    "comb": [(0, 0), (5, 0), (5, 3), (4, 3), (4, 1), (3, 1), (3, 3), (2, 3), (2, 1), (1, 1), (1, 3), (0, 3)],
    "diamond": [(2, 0), (4, 2), (2, 4), (0, 2)],
    "spiral": [(0, 0), (5, 0), (5, 5), (1, 5), (1, 2), (3, 2), (3, 3), (2, 3), (2, 4), (4, 4), (4, 1), (0, 1)],
}
ZOO_NAMES = list(ZOO)


def _variant(V, k):
    """k-th re-ordering of the vertex cycle: rotation k % n, reversed if k >= n."""
    n = len(V)
    W = V[k % n:] + V[: k % n]
    if (k // n) % 2:
        W = W[::-1]
    return W


def _grid(V):
    xs = [v[0] for v in V]
    ys = [v[1] for v in V]
    return [(x, y) for x in range(int(min(xs)) - 1, int(max(xs)) + 2) for y in range(int(min(ys)) - 1, int(max(ys)) + 2)]


def _try(f, *a):
    try:
        return f(*a)
    except Exception:
        return None


def g_polygons2d(ctx, rng, i):
    import geometer as g

    name = ZOO_NAMES[i % len(ZOO_NAMES)]
    V = [np.array(v) for v in ZOO[name]]
    A = gen.invertible_int_matrix(rng, 2, 2) if (i // len(ZOO_NAMES)) % 3 else np.eye(2, dtype=int)
    b = gen.coords(rng, (2,), 3, "int")
    V = [A @ v + b for v in V]
    V = _variant(V, i // (3 * len(ZOO_NAMES)))
    lam = [gen.pick(rng, [1, 1, 2, -1, -3]) for _ in V]
    H = np.array([np.append(v, 1) * l for v, l in zip(V, lam)])
    is_tri = len(V) == 3
    poly = (g.Triangle if is_tri else g.Polygon)(*[g.Point(h) for h in H])
    Q = np.array([[x, y, 1] for x, y in _grid(V)])
    qs = Q * rng.choice([1, 1, -1, 2], size=(len(Q), 1))
    _try(poly.contains, g.PointCollection(qs))
    # single-point API on a few positions (vertices, edge midpoints, far away, at infinity)
    for h in H[:3]:
        _try(poly.contains, g.Point(h))
    _try(poly.contains, g.Point((H[0] * H[1][-1] + H[1] * H[0][-1])))  # midpoint of the first edge (homogeneous sum)
    _try(poly.contains, g.Point(np.array([1, 2, 0])))
    _try(poly.contains, g.Point(Q[int(rng.integers(0, len(Q)))]))
    if is_tri:
        # the generic polygon code path on the same triangle
        _try(g.Polygon(*[g.Point(h) for h in H]).contains, g.PointCollection(qs))
    # integer objects queried point by point and in small collections (other numerical kernels than for the full grid): all lattice
    # points of the edges, a few inside and outside
    Vi = [np.asarray(v, dtype=int) for v in V]
    pint = (g.Triangle if is_tri else g.Polygon)(*[g.Point(np.append(v, 1)) for v in Vi])
    edge_pts = []
    for k in range(len(Vi)):
        a_, b_ = Vi[k], Vi[(k + 1) % len(Vi)]
        gcd = int(np.gcd.reduce(np.abs(b_ - a_))) or 1
        edge_pts += [np.append(a_ + (b_ - a_) // gcd * j, 1) for j in range(gcd)]
    pick = [edge_pts[int(j)] for j in rng.choice(len(edge_pts), size=min(10, len(edge_pts)), replace=False)]
    pick += [np.asarray(Q[int(j)], dtype=int) for j in rng.choice(len(Q), size=4)]
    for q in pick:
        _try(pint.contains, g.Point(q))
    _try(pint.contains, g.PointCollection(np.array(pick)))
    # the polygon moved after it has been queried (objects returned by the library: translation, integer affine map), same questions
    t = gen.coords(rng, (2,), 9, "int")
    M = np.eye(3, dtype=int)
    M[:2, :2] = gen.invertible_int_matrix(rng, 2, 2)
    M[:2, 2] = t
    for mv, img in ((lambda: poly + g.Point(*t.tolist()), lambda q: q + np.append(t, 0) * q[..., -1:]), (lambda: g.Transformation(M) * poly, lambda q: q @ M.T)):
        mp = _try(mv)
        if mp is not None and hasattr(mp, "contains"):
            _try(mp.contains, g.PointCollection(img(qs)))
            _try(mp.contains, g.PointCollection(qs))
            _try(mp.contains, g.Point(img(H[0])))
    if i % 5 == 0:
        # collections of polygons (same vertex count) against a point and a point collection
        V2 = [v + np.array([7, -2]) for v in V]
        pc = g.PolygonCollection(np.stack([H, np.array([np.append(v, 1) for v in V2])]))
        _try(pc.contains, g.Point(Q[0]))
        _try(pc.contains, g.PointCollection(np.stack([Q[len(Q) // 2], np.append(V2[0], 1)])))


def g_polygons3d(ctx, rng, i):
    import geometer as g

    name = ZOO_NAMES[i % len(ZOO_NAMES)]
    V2 = [np.array(v) for v in ZOO[name]]
    V2 = _variant(V2, i // len(ZOO_NAMES))
    # embedding: origin o, integer directions e1, e2 (not necessarily orthogonal)
    for _ in range(50):
        e1, e2 = gen.nonzero_vec(rng, 3, 2), gen.nonzero_vec(rng, 3, 2)
        if np.any(np.cross(e1, e2) != 0):
            break
    else:
        return
    o = gen.coords(rng, (3,), 3, "int")
    V = [o + v[0] * e1 + v[1] * e2 for v in V2]
    H = np.array([np.append(v, 1) for v in V])
    is_tri = len(V) == 3
    poly = _try((g.Triangle if is_tri else g.Polygon), *[g.Point(h) for h in H])
    if poly is None:
        return
    grid = _grid(V2)
    on = np.array([np.append(o + x * e1 + y * e2, 1) for x, y in grid])
    nrm = np.cross(e1, e2)
    off = on[:: max(1, len(on) // 6)] + np.append(nrm, 0)
    _try(poly.contains, g.PointCollection(on))
    _try(poly.contains, g.PointCollection(off))
    # points in the plane and points above / below them in one collection (the shadows of the latter fall inside and outside the polygon)
    both = np.concatenate([on, on + np.append(nrm, 0), on - 2 * np.append(nrm, 0)])
    _try(poly.contains, g.PointCollection(both[rng.permutation(len(both))]))
    _try(poly.contains, g.Point(on[int(rng.integers(0, len(on)))]))
    _try(poly.contains, g.Point(off[0]))
    # moved out of its plane after it has been queried
    t3 = gen.nonzero_vec(rng, 3, 4)
    for mv in (lambda: poly + g.Point(*t3.tolist()), lambda: g.translation(*t3.tolist()) * poly):
        mp = _try(mv)
        if mp is not None and hasattr(mp, "contains"):
            _try(mp.contains, g.PointCollection(on + np.append(t3, 0)))
            _try(mp.contains, g.PointCollection(on))
    _try(poly.contains, g.Point(np.append(e1, 0)))
    if i % 4 == 0 and len(V) == 4:
        V3 = [v + nrm for v in V]
        pc = _try(g.PolygonCollection, np.stack([H, np.array([np.append(v, 1) for v in V3])]))
        if pc is not None:
            _try(pc.contains, g.PointCollection(np.stack([on[len(on) // 2], on[len(on) // 2] + np.append(nrm, 0)])))


def g_segments(ctx, rng, i):
    import geometer as g

    dim = 2 + i % 2
    kind = (i // 2) % 4
    a = np.append(gen.coords(rng, (dim,), 5, "int"), 1)
    d = gen.nonzero_vec(rng, dim, 3)
    if kind == 0:
        b = a + np.append(d, 0) * int(rng.integers(1, 5))
    elif kind == 1:
        b = np.append(d, 0)  # ray: second endpoint at infinity
    elif kind == 2:
        a, b = np.append(d, 0), a  # first endpoint at infinity
    else:
        b = a + np.append(d, 0) * 2
        a, b = a * gen.pick(rng, [2, -1]), b * gen.pick(rng, [-3, 2])
    seg = _try(g.Segment, g.Point(a), g.Point(b))
    if seg is None:
        return
    fin = a if a[-1] != 0 else b
    fin = fin / fin[-1] if True else fin
    fin = np.round(fin).astype(int)
    qs = [fin + np.append(d, 0) * t for t in range(-3, 8)] + [np.append(d, 0), np.append(-d, 0), fin + np.append(gen.nonzero_vec(rng, dim, 2), 0)]
    qs = np.array(qs)
    _try(seg.contains, g.PointCollection(qs))
    for q in qs[:4]:
        _try(seg.contains, g.Point(q))
    # half-integer points (dyadic) between lattice points
    _try(seg.contains, g.Point(np.append(fin[:-1] + 0.5 * d, 1)))
    if kind == 0 and i % 4 == 1:
        # a segment mapped again and again by the same integer matrix (iterated map): every image answers for its own points
        M = np.zeros((dim + 1, dim + 1), dtype=np.int64)  # an integer affine map: the images keep integer Cartesian coordinates
        M[:dim, :dim] = gen.invertible_int_matrix(rng, dim, 3)
        M[:dim, dim] = gen.coords(rng, (dim,), 3, "int")
        M[dim, dim] = 1
        t = g.Transformation(M)
        img, A_, B_ = seg, a.astype(object), b.astype(object)
        for step in range(int(rng.integers(6, 14))):
            img = _try(lambda: t * img)
            if img is None:
                break
            A_, B_ = M.astype(object) @ A_, M.astype(object) @ B_
        if img is not None and max(abs(int(x)) for x in list(A_) + list(B_)) < 2 ** 40 and A_[-1] == 1 and B_[-1] == 1:
            mid = A_ + B_  # the midpoint of the images of the end points (homogeneous coordinate 2)
            off = mid.copy()
            off[0] += 2  # the midpoint moved by one unit in x
            off2 = A_.copy()
            off2[1] += 1
            beyond = 2 * B_ - A_
            for q in (A_, B_, mid, off, off2, beyond):
                _try(img.contains, g.Point(np.array([float(x) for x in q])))
    if kind == 0 and i % 3 == 0:
        sc = _try(g.SegmentCollection, np.stack([np.stack([a, b]), np.stack([a + np.append(d, 0), b + 2 * np.append(d, 0)])]))
        if sc is not None:
            _try(sc.contains, g.Point(qs[5]))
            _try(sc.contains, g.PointCollection(np.stack([qs[4], qs[9]])))


def g_small(ctx, rng, i):
    """The same exact questions on small figures: segments and zoo polygons scaled by a negative power of two (all coordinates stay
    exactly representable), with the query grid scaled along."""
    import geometer as g

    s = [2.0 ** -5, 2.0 ** -7, 2.0 ** -9, 2.0 ** -11][i % 4]
    off = gen.coords(rng, (2,), 3, "int").astype(float) * [0, 1][(i // 4) % 2]
    if (i // 8) % 2 == 0:
        a = gen.coords(rng, (2,), 4, "int").astype(float)
        d = gen.nonzero_vec(rng, 2, 3).astype(float)
        k = int(rng.integers(1, 5))
        A, B = off + s * a, off + s * (a + k * d)
        seg = _try(g.Segment, g.Point(*A), g.Point(*B))
        if seg is None:
            return
        qs = np.array([np.append(off + s * (a + t * d / 2), 1) for t in range(-4, 2 * k + 5)] + [np.append(off + s * (a + d + np.array([-d[1], d[0]])), 1), np.append(d, 0)])
        _try(seg.contains, g.PointCollection(qs))
        for q in qs[3:7]:
            _try(seg.contains, g.Point(q))
    else:
        name = ZOO_NAMES[(i // 16) % len(ZOO_NAMES)]
        V = [off + s * np.array(v, dtype=float) for v in ZOO[name]]
        poly = _try((g.Triangle if len(V) == 3 else g.Polygon), *[g.Point(*v) for v in V])
        if poly is None:
            return
        grid = _grid([np.array(v) for v in ZOO[name]])
        Q = np.array([np.append(off + s * np.array([x, y], dtype=float), 1) for x, y in grid])
        _try(poly.contains, g.PointCollection(Q))
        _try(poly.contains, g.Point(Q[int(rng.integers(len(Q)))]))


def g_collection_ctor(ctx, rng, i):
    """Polygon collections built from one PointCollection per vertex position (and from mixed Point / PointCollection arguments): the
    collection answers membership as the polygons built one by one do."""
    import geometer as g

    dim = 2 + i % 2
    k = int(rng.integers(2, 5))
    names = [ZOO_NAMES[int(j)] for j in rng.integers(0, len(ZOO_NAMES), size=k)]
    nv = len(ZOO[names[0]])
    names = [nm for nm in ZOO_NAMES if len(ZOO[nm]) == nv]
    polys = []
    for j in range(k):
        V = [np.array(v) for v in ZOO[names[int(rng.integers(0, len(names)))]]]
        if dim == 3:
            V = [np.array([v[0], v[1], v[0] + 2 * v[1] + 1]) for v in V]  # the same polygon in the plane z = x + 2y + 1
        V = _variant([np.array(v) for v in V], int(rng.integers(0, 2 * nv)))
        off = gen.coords(rng, (dim,), 3, "int")
        polys.append([np.append(v + off, 1) for v in V])
    # one PointCollection per vertex position
    cols = [g.PointCollection(np.stack([polys[j][v] for j in range(k)])) for v in range(nv)]
    pc = _try(g.PolygonCollection, *cols)
    singles = [_try((g.Triangle if nv == 3 else g.Polygon), *[g.Point(p) for p in polys[j]]) for j in range(k)]
    if pc is None or any(s is None for s in singles):
        return
    for _ in range(4):
        q = np.append(polys[int(rng.integers(0, k))][int(rng.integers(0, nv))][:-1] + gen.coords(rng, (dim,), 1, "int") * (0 if rng.random() < 0.3 else 1), 1)
        if dim == 3:
            q = polys[0][0] + 0 * q if rng.random() < 0.2 else q
        got = _try(pc.contains, g.Point(q))
        if got is None:
            continue
        want = [bool(np.all(s.contains(g.Point(q)))) for s in singles]
        ok = np.shape(got) == (k,) and [bool(x) for x in np.asarray(got)] == want
        ctx.judge("polygon.contains", bool(ok), [np.array(polys), q], what=f"PolygonCollection(A, B, C, ...).contains = {np.asarray(got).tolist()}, the polygons one by one answer {want}",
                  op="PolygonCollection(vertex collections).contains", feat={"dim": dim, "nvert": nv, "ctor": "vertex_collections"}, nontrivial=True)


def g_large(ctx, rng, i):
    """The same exact questions on figures with integer coordinates of the order of 100 to 3000 (pixel coordinates), in integer and in
    floating point representation, with the query grid scaled along."""
    import geometer as g

    s = [60, 300, 1000, 3000][i % 4]
    as_float = (i // 4) % 2 == 1
    off = gen.coords(rng, (2,), 2 * s, "int")
    conv = (lambda v: np.asarray(v, dtype=float)) if as_float else (lambda v: np.asarray(v, dtype=np.int64))
    if not as_float and (i // 32) % 2 == 1:
        # narrow integer representations (16 / 32 bit pixel coordinates): everything fits the type, products of coordinates do not
        narrow = np.int16 if s <= 300 else np.int32
        off = np.abs(off) if narrow is np.int16 else off
        conv = lambda v: np.asarray(v, dtype=narrow)  # noqa: E731
    if (i // 8) % 2 == 0:
        a = gen.coords(rng, (2,), 4, "int")
        d = gen.nonzero_vec(rng, 2, 3)
        k = int(rng.integers(1, 5))
        A, B = off + s * a, off + s * (a + k * d)
        seg = _try(g.Segment, g.Point(conv(np.append(A, 1))), g.Point(conv(np.append(B, 1))))
        if seg is None:
            return
        h = s // 2
        qs = np.array([np.append(off + s * a + t * h * d, 1) for t in range(-4, 2 * k + 5)] + [np.append(off + s * (a + d + np.array([-d[1], d[0]])), 1), np.append(d, 0)])
        _try(seg.contains, g.PointCollection(conv(qs)))
        for q in qs[3:7]:
            _try(seg.contains, g.Point(conv(q)))
    else:
        name = ZOO_NAMES[(i // 16) % len(ZOO_NAMES)]
        V = [off + s * np.array(v) for v in ZOO[name]]
        poly = _try((g.Triangle if len(V) == 3 else g.Polygon), *[g.Point(conv(np.append(v, 1))) for v in V])
        if poly is None:
            return
        grid = _grid([np.array(v) for v in ZOO[name]])
        Q = np.array([np.append(off + s * np.array([x, y]), 1) for x, y in grid])
        _try(poly.contains, g.PointCollection(conv(Q)))
        _try(poly.contains, g.Point(conv(Q[int(rng.integers(len(Q)))])))


GROUPS = [
    {"name": "collection_ctor", "fn": g_collection_ctor, "quick": 200, "thorough": 2000},
    {"name": "large", "fn": g_large, "quick": 256, "thorough": 2048},
    {"name": "small", "fn": g_small, "quick": 256, "thorough": 2048},
    {"name": "polygons2d", "fn": g_polygons2d, "quick": len(ZOO_NAMES) * 3 * 16, "thorough": len(ZOO_NAMES) * 3 * 24 * 4},
    {"name": "polygons3d", "fn": g_polygons3d, "quick": len(ZOO_NAMES) * 24, "thorough": len(ZOO_NAMES) * 24 * 8},
    {"name": "segments", "fn": g_segments, "quick": 600, "thorough": 6000},
]


def f4_polygon_collection_3d(rec, feat):
    return False


CLASSIFIERS = {}
