"""C01 -- join and meet return exactly the span / the intersection of their arguments."""
from __future__ import annotations

import numpy as np

from .. import core, gen
from .. import exact as X
from .. import ref as R
from . import jm

RULE = ("cases: exhaustive pairs on the integer lattices {-2..2}^3 / {-1,0,1}^4, seeded integer (<=1000), Gaussian-integer, "
        "dyadic and float configurations, points at infinity, all arities/kinds, collections of shapes (1,),(3,),(2,2),(1,3),(5,),(2,1), "
        "round trips, public entry points, plus every internal join/meet of the repository's tests. A judged call is non-trivial "
        "and distinct by the digest of (monitor, operand arrays); every judged join/meet position is compared with the exact "
        "rational span/intersection."
        " Also judged: the public entry points (join / meet functions and the join / meet methods) with the same contract as the internal dispatcher, and histories on 3D line objects (used in a meet, then transformed, copied or overwritten in place, then used again); coordinates in 16- and 32-bit integer representation whose products leave the range of the representation but not that of int64.")
SHARDS = (8, 16)
REQUIRED = ["jm.result", "contains", "roundtrip"]
ASSUMPTIONS = ["numpy einsum/linalg are correct", "Fraction arithmetic is exact", "wrapping a callable does not change its behaviour",
               "integer coordinates are kept so small that the n-fold products of the determinant expansions fit into int64 (the library computes integer joins in int64 without overflow protection)",
               "representatives of magnitude below 1e-5 or above 1e6 are not claimed (absolute tolerance 1e-8 by design)"]
EXHAUSTIVE = {"quick": [], "thorough": ["all 15376 ordered pairs of {-2..2}^3 as 2D points (join) and as 2D lines (meet)",
                                          "all 6400 ordered pairs of {-1,0,1}^4 as 3D points (join) and planes (meet)"]}
TOL = 1e-9


# ---------------------------------------------------------------------------------
# monitors
# ---------------------------------------------------------------------------------

def post_jm(ctx, call):
    a = jm.analyse(call)
    if not a.supported:
        ctx.skip("jm.result", a.why)
        return
    res = call.result
    ops = [t for t in a.args]
    feat = {"op": a.op, "kinds": a.kinds, "n": a.n, "fshape": list(a.fshape)}
    if call.exc is not None:
        # a raise in general position contradicts "returns the unique subspace"
        from geometer.exceptions import GeometryException

        if a.check and all(s == "ind" for s in a.status) and len(a.pos) == int(np.prod(a.fshape, dtype=int)) and min(a.gap) > 1e-3:
            ctx.judge("jm.result", False, ops, what=f"{a.op} raised {type(call.exc).__name__} for arguments in general position", feat=feat, op=a.op)
        else:
            ctx.skip("jm.result", "raised (degenerate or not judged)")
        return
    ctx.note(("fshape", str(tuple(a.fshape))))
    ctx.note(("kinds", a.op + ":" + "+".join(a.kinds) + f":n{a.n}"))
    # twin call without normalisation (once per call)
    twin = None
    if a.norm:
        try:
            kw = dict(call.kwargs)
            kw["normalize_result"] = False
            kw["check_dependence"] = False
            twin = call.orig(*call.args, **kw)
        except Exception as e:
            twin = e
    has_free = len(a.fshape) > 0
    if tuple(res.shape[: res.free_indices]) != tuple(a.fshape):
        ctx.judge("jm.result", False, ops, what=f"result collection shape {res.shape[:res.free_indices]} != broadcast shape {a.fshape}", feat=feat, op=a.op)
        return
    rk = R.kind_of(res)
    for pos, st, refsub, gap in zip(a.pos, a.status, a.refs, a.gap):
        if st != "ind":
            ctx.skip("jm.result", f"position {st}")
            continue
        if gap < 1e-5:
            ctx.skip("jm.result", "ill-conditioned float configuration")
            continue
        tol = TOL if a.integral else max(TOL, 1e-13 / gap)
        ek = jm.expected_kind(a, refsub)
        elems = [R.element_array(t, pos, a.fshape) for t in a.args]
        if rk != ek:
            ctx.judge("jm.result", False, elems, what=f"result kind {rk} != expected {ek}", feat=feat, op=a.op)
            continue
        ok_cls, want = jm.class_ok(res, ek, a.n, has_free)
        if not ok_cls:
            ctx.judge("jm.result", False, elems, what=f"result class {type(res).__name__} != {want}", feat=feat, op=a.op)
            continue
        e = R.element_array(res, pos, a.fshape)
        ok, resid, why = R.result_matches_sub(e, ek, res.tensor_shape, refsub, tol)
        if ok and twin is not None:
            if isinstance(twin, Exception):
                ok, why = False, f"un-normalised twin call raised {type(twin).__name__}"
            else:
                te = R.element_array(twin, pos, a.fshape)
                if te.shape != e.shape:
                    ok, why = False, "un-normalised twin result has a different shape"
                else:
                    r2 = X.proj_residual(e, te)
                    if r2 > tol:
                        ok, why, resid = False, "normalisation changed the projective class", r2
        nontriv = sum(int(np.count_nonzero(np.abs(x) != 1) >= 1) for x in elems) >= 1
        ctx.judge("jm.result", ok, elems, what=f"{a.op}: {why} (residual {resid:.3g})", feat=feat, op=a.op,
                  expected={"B": [[str(x) for x in b] for b in refsub.B]}, observed=e, nontrivial=nontriv)


def post_divide(ctx, call):
    if call.exc is not None:
        return
    arr, power = call.args[0], call.args[1]
    out = call.result
    arr = np.asarray(arr)
    if not R.finite(arr) or arr.size == 0:
        ctx.skip("divide_pow2", "non-finite")
        return
    with np.errstate(all="ignore"):
        want = arr / np.exp2(np.asarray(power, dtype=float))
    ok = out.shape == arr.shape and np.allclose(out, want, rtol=1e-12, atol=0) and np.array_equal(out == 0, arr == 0)
    ctx.judge("divide_pow2", bool(ok), [arr, np.asarray(power)], what="output is not array / 2**power", op="_divide_by_power_of_two", observed=out,
              nontrivial=bool(np.any(np.asarray(power) != 0)))


def post_covcontra(ctx, call):
    if call.exc is not None:
        return
    self = call.args[0]
    res = call.result
    if res is self or self.dim != 3:
        return
    if not R.finite(self.array):
        return
    fshape = R.free_shape(self)
    for pos in R.positions(fshape, 16):
        a = R.element_array(self, pos, fshape).astype(complex)
        b = R.element_array(res, pos, fshape).astype(complex)
        na, nb = np.linalg.norm(a), np.linalg.norm(b)
        if na == 0:
            continue
        # only judged for genuine lines (rank 2)
        s = np.linalg.svd(a, compute_uv=False)
        if s[1] / s[0] < 1e-6 or s[2] / s[0] > 1e-9:
            ctx.skip("cov_contra", "not a rank-2 line matrix")
            continue
        ok = nb > 0 and np.linalg.norm(a @ b) <= 1e-9 * na * nb and np.linalg.norm(b + b.T) <= 1e-9 * nb
        swapped = res.tensor_shape == self.tensor_shape[::-1]
        ctx.judge("cov_contra", bool(ok and swapped), [a], what="primal and dual line matrices do not describe the same point set", op=call.name, observed=b)


def post_contains(ctx, call):
    if call.exc is not None:
        return
    self, other = call.args[0], call.args[1]
    tol = call.kwargs.get("tol", call.args[2] if len(call.args) > 2 else 1e-8)
    if tol != 1e-8:
        ctx.skip("contains", "non-default tolerance")
        return
    ks, ko = R.kind_of(self), R.kind_of(other)
    if ks not in ("hyper", "line3") or ko not in ("point", "line3"):
        ctx.skip("contains", "unsupported kinds")
        return
    if not (R.finite(self.array) and R.finite(other.array)):
        ctx.skip("contains", "non-finite")
        return
    try:
        fshape = R.broadcast_free(self, other)
    except ValueError:
        return
    res = np.asarray(call.result)
    if res.shape != tuple(fshape):
        ctx.judge("contains", False, [self, other], what=f"result shape {res.shape} != collection shape {tuple(fshape)}", op="contains")
        return
    integral = R.is_integral(self.array, 2 ** 20) and R.is_integral(other.array, 2 ** 20)
    for pos in R.positions(fshape, 32):
        es, eo = R.element_array(self, pos, fshape), R.element_array(other, pos, fshape)
        if not np.any(es != 0) or not np.any(eo != 0):
            ctx.skip("contains", "zero operand")
            continue
        if integral:
            S = R.sub_from_array(ks, es, self.tensor_shape)
            O = R.sub_from_array(ko, eo, other.tensor_shape)
            if S is None or O is None:
                ctx.skip("contains", "degenerate operand")
                continue
            exact_in = R.sub_contains(S, O)
            clear = True  # integer contraction: zero or at least 1 in magnitude
        else:
            S = R.nsub_from_array(ks, es, self.tensor_shape)
            O = R.nsub_from_array(ko, eo, other.tensor_shape)
            if S is None or O is None:
                ctx.skip("contains", "degenerate operand")
                continue
            val = float(np.abs(np.array(S.A) @ np.array(O.B).T).max())
            raw = val * min(np.linalg.norm(es), np.abs(es).max() * 2) * np.abs(eo).max()
            big = max(np.abs(es).max(), np.abs(eo).max())
            if val < 1e-13 and big < 1e3:
                exact_in, clear = True, True
            elif raw > 1e-6 and val > 1e-6:
                exact_in, clear = False, True
            else:
                exact_in, clear = None, False
        if not clear:
            ctx.skip("contains", "within the tolerance band")
            continue
        got = bool(res[pos]) if fshape else bool(res)
        ctx.judge("contains", got == exact_in, [es, eo], what=f"contains returned {got}, exact incidence is {exact_in}", op=f"{type(self).__name__}.contains",
                  feat={"ks": ks, "ko": ko}, nontrivial=True)


def install(ctx):
    import geometer.point as P

    core.wrap_function(P, "_join_meet_duality", post_jm)
    jm.install_public(post_jm)
    core.wrap_function(P, "_divide_by_power_of_two", post_divide)
    core.wrap_method(P.LineTensor, "covariant_tensor", post_covcontra)
    core.wrap_method(P.LineTensor, "contravariant_tensor", post_covcontra)
    core.wrap_method(P.SubspaceTensor, "contains", post_contains)


# ---------------------------------------------------------------------------------
# workload
# ---------------------------------------------------------------------------------

def G():
    import geometer

    return geometer


def _lib(ctx, fn, *args, what="", **kw):
    """Call a library entry point with arguments in general position; an exception is a violation."""
    try:
        return fn(*args, **kw)
    except Exception as e:
        ctx.judge("jm.result", False, list(args), what=f"{what or getattr(fn, '__name__', 'call')} raised {type(e).__name__}: {e}", op=what, feat={"exc": type(e).__name__})
        return None


def _same(ctx, a, b, what, operands):
    """Two library results must be projectively equal (judged with the monitor's own comparator, not ==)."""
    if a is None or b is None:
        return
    ok = a.shape == b.shape and type(a) is type(b)
    if ok:
        fs = R.free_shape(a)
        for pos in R.positions(fs, 16):
            if X.proj_residual(R.element_array(a, pos, fs), R.element_array(b, pos, fs)) > 1e-9:
                ok = False
    ctx.judge("roundtrip", ok, operands, what=what, op="roundtrip", observed=[a, b])


L3 = gen.lattice(3, 2)
L4 = gen.lattice(4, 1)


def _indep(*vs):
    return X.rank([X.vec(v) for v in vs]) == len(vs)


def g_lattice2d(ctx, rng, i):
    g = G()
    n = len(L3)
    p, q = L3[i // n], L3[i % n]
    if not _indep(p, q):
        return
    l = _lib(ctx, g.join, g.Point(p), g.Point(q), what="join(2 points, 2D)")
    l2 = _lib(ctx, g.join, g.Point(q), g.Point(p), what="join(2 points, 2D)")
    _same(ctx, l, l2, "join(p,q) != join(q,p)", [p, q])
    m = _lib(ctx, g.meet, g.Line(p), g.Line(q), what="meet(2 lines, 2D)")
    m2 = _lib(ctx, g.Line(q).meet, g.Line(p), what="Line.meet")
    _same(ctx, m, m2, "meet(l,m) != m.meet(l)", [p, q])
    if l is not None:
        l.contains(g.Point(p))
        l.contains(g.Point(L3[(i * 7 + 3) % n]))


def g_lattice3d(ctx, rng, i):
    g = G()
    n = len(L4)
    p, q = L4[i // n], L4[i % n]
    if not _indep(p, q):
        return
    l = _lib(ctx, g.join, g.Point(p), g.Point(q), what="join(2 points, 3D)")
    _lib(ctx, g.Line, g.Point(q), g.Point(p), what="Line(p,q)")
    m = _lib(ctx, g.meet, g.Plane(p), g.Plane(q), what="meet(2 planes)")
    r = L4[(i * 13 + 5) % n]
    if l is not None:
        l.contains(g.Point(r))
        l.contains(g.Point(p))
        l.covariant_tensor
    if m is not None:
        g.Plane(p).contains(m)
        m.covariant_tensor.contravariant_tensor


def _rand_vec(rng, n, mode):
    if mode == "inf":
        v = gen.nonzero_vec(rng, n - 1, 9)
        return np.append(v, 0)
    hi = {"int": 9, "big": 1000, "dyadic": 64, "float": 9, "gauss": 5, "cfloat": 3}[mode]
    return gen.nonzero_vec(rng, n, hi, mode)


MODES = ["int", "int", "big", "dyadic", "float", "gauss", "inf", "cfloat"]


def _gen_indep(rng, n, k, mode):
    for _ in range(50):
        vs = [_rand_vec(rng, n, mode if (mode != "inf" or j == 0) else "int") for j in range(k)]
        if _indep(*vs) and (mode not in ("float", "cfloat") or R.sv_gap(vs) > 1e-2):
            return vs
    raise RuntimeError("no independent configuration found")


def g_random(ctx, rng, i):
    """All arities and kinds on random configurations in general position (single objects)."""
    g = G()
    if i % 6 == 5:
        jm.line_histories(g, rng, gen, X)
    mode = MODES[i % len(MODES)]
    kind = (i // len(MODES)) % 9
    if kind == 0:
        p, q = _gen_indep(rng, 3, 2, mode)
        a = _lib(ctx, g.Point(p).join, g.Point(q), what="Point.join")
        b = _lib(ctx, g.join, g.Point(q * 3), g.Point(-p), what="join")
        _same(ctx, a, b, "join depends on order/representative", [p, q])
    elif kind == 1:
        p, q = _gen_indep(rng, 3, 2, mode)
        a = _lib(ctx, g.Line(p).meet, g.Line(q), what="Line.meet 2D")
        b = _lib(ctx, g.meet, g.Line(q), g.Line(p), what="meet")
        _same(ctx, a, b, "meet depends on order", [p, q])
    elif kind == 2:
        p, q, r = _gen_indep(rng, 4, 3, mode)
        a = _lib(ctx, g.join, g.Point(p), g.Point(q), g.Point(r), what="join(3 points)")
        b = _lib(ctx, g.Plane, g.Point(r), g.Point(p), g.Point(q), what="Plane(p,q,r)")
        _same(ctx, a, b, "join of 3 points depends on order", [p, q, r])
        if a is not None:
            a.contains(g.Point(p))
            a.contains(g.Point(p + q + r))
            a.contains(g.Point(_rand_vec(rng, 4, "int")))
    elif kind == 3:
        e, f, h = _gen_indep(rng, 4, 3, mode)
        a = _lib(ctx, g.meet, g.Plane(e), g.Plane(f), g.Plane(h), what="meet(3 planes)")
        b = _lib(ctx, g.meet, g.Plane(h), g.Plane(e), g.Plane(f), what="meet(3 planes)")
        _same(ctx, a, b, "meet of 3 planes depends on order", [e, f, h])
    elif kind == 4:
        p, q, r = _gen_indep(rng, 4, 3, mode)
        l = _lib(ctx, g.Line, g.Point(p), g.Point(q), what="Line(p,q)")
        if l is not None:
            a = _lib(ctx, g.join, l, g.Point(r), what="join(line, point)")
            b = _lib(ctx, g.join, g.Point(r), l, what="join(point, line)")
            c = _lib(ctx, g.Plane, g.Point(r), l, what="Plane(point, line)")
            _same(ctx, a, b, "join(line, point) != join(point, line)", [p, q, r])
            _same(ctx, a, c, "Plane(point, line) != join(line, point)", [p, q, r])
            if a is not None:
                a.contains(l)
                a.contains(g.Line(g.Point(p), g.Point(p + r)))
                a.contains(g.Line(g.Point(p), g.Point(_rand_vec(rng, 4, "int"))))
    elif kind == 5:
        e, f, h = _gen_indep(rng, 4, 3, mode)
        l = _lib(ctx, g.meet, g.Plane(e), g.Plane(f), what="meet(2 planes)")
        if l is not None:
            a = _lib(ctx, g.meet, l, g.Plane(h), what="meet(line, plane)")
            b = _lib(ctx, g.Plane(h).meet, l, what="Plane.meet(line)")
            c = _lib(ctx, g.meet, g.Plane(e), g.Plane(f), g.Plane(h), what="meet(3 planes)")
            _same(ctx, a, b, "meet(line, plane) != meet(plane, line)", [e, f, h])
            _same(ctx, a, c, "meet(meet(e,f),h) != meet(e,f,h)", [e, f, h])
    elif kind == 6:
        # two coplanar lines of 3-space: join -> plane, meet -> point
        p, q, r = _gen_indep(rng, 4, 3, mode)
        l = _lib(ctx, g.join, g.Point(p), g.Point(q), what="join")
        m = _lib(ctx, g.join, g.Point(p), g.Point(r), what="join")
        if l is not None and m is not None:
            a = _lib(ctx, g.meet, l, m, what="meet(2 coplanar 3D lines)")
            a2 = _lib(ctx, g.meet, m, l, what="meet(2 coplanar 3D lines)")
            b = _lib(ctx, g.join, l, m, what="join(2 coplanar 3D lines)")
            b2 = _lib(ctx, g.join, m, l, what="join(2 coplanar 3D lines)")
            _same(ctx, a, a2, "meet of coplanar lines depends on order", [p, q, r])
            _same(ctx, b, b2, "join of coplanar lines depends on order", [p, q, r])
            if a is not None:
                _same(ctx, a, g.Point(p), "meet(join(p,q), join(p,r)) != p", [p, q, r])
    elif kind == 7:
        # coplanar lines from two planes' meets:  join(meet(l,m), meet(l,n)) = l   in 2D;  3D dual version
        l, m, n_ = _gen_indep(rng, 3, 3, mode)
        a = _lib(ctx, g.meet, g.Line(l), g.Line(m), what="meet")
        b = _lib(ctx, g.meet, g.Line(l), g.Line(n_), what="meet")
        if a is not None and b is not None:
            c = _lib(ctx, g.join, a, b, what="join")
            _same(ctx, c, g.Line(l), "join(meet(l,m), meet(l,n)) != l", [l, m, n_])
        p, q, r = _gen_indep(rng, 3, 3, mode)
        a = _lib(ctx, g.join, g.Point(p), g.Point(q), what="join")
        b = _lib(ctx, g.join, g.Point(p), g.Point(r), what="join")
        if a is not None and b is not None:
            c = _lib(ctx, g.meet, a, b, what="meet")
            _same(ctx, c, g.Point(p), "meet(join(p,q), join(p,r)) != p", [p, q, r])
    else:
        # 3D dual round trip: planes e,f,h;  l = meet(e,f), m = meet(e,h) are coplanar (in e): join(l,m) = e
        e, f, h = _gen_indep(rng, 4, 3, mode)
        l = _lib(ctx, g.meet, g.Plane(e), g.Plane(f), what="meet")
        m = _lib(ctx, g.meet, g.Plane(e), g.Plane(h), what="meet")
        if l is not None and m is not None:
            c = _lib(ctx, g.join, l, m, what="join(2 coplanar lines)")
            _same(ctx, c, g.Plane(e), "join(meet(e,f), meet(e,h)) != e", [e, f, h])
            pt = _lib(ctx, g.meet, l, m, what="meet(2 coplanar lines)")
            pt2 = _lib(ctx, g.meet, g.Plane(e), g.Plane(f), g.Plane(h), what="meet(3 planes)")
            _same(ctx, pt, pt2, "meet(meet(e,f), meet(e,h)) != meet(e,f,h)", [e, f, h])


def _coll(rng, n, shape, mode, k):
    """k arrays of shape shape+(n,) whose positions are independent k-tuples."""
    total = int(np.prod(shape))
    cols = [np.zeros((total, n), dtype=complex if mode in ("gauss", "cfloat") else float) for _ in range(k)]
    for t in range(total):
        vs = _gen_indep(rng, n, k, mode)
        for j in range(k):
            cols[j][t] = vs[j]
    out = []
    for c in cols:
        if mode in ("int", "big", "inf"):
            c = c.astype(np.int64)
        out.append(c.reshape(shape + (n,)))
    return out


def g_collections(ctx, rng, i):
    g = G()
    shape = gen.SHAPES[i % len(gen.SHAPES)]
    mode = MODES[(i // len(gen.SHAPES)) % len(MODES)]
    kind = (i // (len(gen.SHAPES) * len(MODES))) % 6
    mix = (i // 7) % 3  # 0: all collections, 1: first single, 2: last single
    if kind == 0:
        p, q = _coll(rng, 3, shape, mode, 2)
        P_, Q_ = g.PointCollection(p), g.PointCollection(q)
        if mix == 1:
            # a single point that is independent of every q
            for _ in range(30):
                s = _rand_vec(rng, 3, "int")
                if all(_indep(s, x) for x in q.reshape(-1, 3)):
                    P_ = g.Point(s)
                    break
        a = _lib(ctx, g.join, P_, Q_, what="join(collection)")
        b = _lib(ctx, g.meet, g.LineCollection(p), g.LineCollection(q), what="meet(line collections 2D)")
        if a is not None:
            a.contains(Q_)
    elif kind == 1:
        p, q, r = _coll(rng, 4, shape, mode, 3)
        a = _lib(ctx, g.join, g.PointCollection(p), g.PointCollection(q), g.PointCollection(r), what="join(3 point collections)")
        b = _lib(ctx, g.meet, g.PlaneCollection(p), g.PlaneCollection(q), g.PlaneCollection(r), what="meet(3 plane collections)")
        if a is not None:
            a.contains(g.PointCollection(q))
            a.contains(g.PointCollection(p + q - r))
            a.contains(g.Point(_rand_vec(rng, 4, "int")))
    elif kind == 2:
        p, q, r = _coll(rng, 4, shape, mode, 3)
        l = _lib(ctx, g.join, g.PointCollection(p), g.PointCollection(q), what="join(2 point collections 3D)")
        if l is not None:
            R_ = g.PointCollection(r)
            a = _lib(ctx, g.join, l, R_, what="join(line collection, point collection)")
            b = _lib(ctx, g.join, R_, l, what="join(point collection, line collection)")
            _same(ctx, a, b, "join(lines, points) != join(points, lines)", [p, q, r])
            if a is not None:
                a.contains(l)
            l.contains(g.PointCollection(p + 2 * q))
            l.contains(R_)
            l.covariant_tensor
    elif kind == 3:
        e, f, h = _coll(rng, 4, shape, mode, 3)
        l = _lib(ctx, g.meet, g.PlaneCollection(e), g.PlaneCollection(f), what="meet(2 plane collections)")
        if l is not None:
            H = g.PlaneCollection(h) if mix != 2 else g.PlaneCollection(h)
            a = _lib(ctx, g.meet, l, H, what="meet(line collection, plane collection)")
            b = _lib(ctx, g.meet, H, l, what="meet(plane collection, line collection)")
            _same(ctx, a, b, "meet(lines, planes) != meet(planes, lines)", [e, f, h])
            l.covariant_tensor.contravariant_tensor
    elif kind == 4:
        p, q, r = _coll(rng, 4, shape, mode, 3)
        l = _lib(ctx, g.join, g.PointCollection(p), g.PointCollection(q), what="join")
        m = _lib(ctx, g.join, g.PointCollection(p), g.PointCollection(r), what="join")
        if l is not None and m is not None:
            a = _lib(ctx, g.meet, l, m, what="meet(2 coplanar line collections)")
            b = _lib(ctx, g.join, l, m, what="join(2 coplanar line collections)")
            b2 = _lib(ctx, g.join, m, l, what="join(2 coplanar line collections)")
            _same(ctx, a, g.PointCollection(p), "meet(join(p,q), join(p,r)) != p (collections)", [p, q, r])
            _same(ctx, b, b2, "join of coplanar line collections depends on order", [p, q, r])
        # a collection of lines through one point against a single line through it: collection first / single first, function and method
        p0 = p.reshape(-1, 4)[0]
        for _ in range(30):
            s = _rand_vec(rng, 4, "int")
            if all(X.rank([X.vec(p0), X.vec(x), X.vec(s)]) == 3 for x in q.reshape(-1, 4)):
                break
        else:
            return
        lc = _lib(ctx, g.join, g.Point(p0), g.PointCollection(q), what="join(point, collection)")
        single = _lib(ctx, g.join, g.Point(p0), g.Point(s), what="join")
        if lc is not None and single is not None:
            for f_, args_ in ((g.meet, (lc, single)), (g.meet, (single, lc)), (g.join, (lc, single)), (g.join, (single, lc)), (lc.meet, (single,)), (single.meet, (lc,))):
                _lib(ctx, f_, *args_, what="coplanar 3D lines: collection against a single line")
    else:
        # single against collection, both orders, 3D
        p, q = _coll(rng, 4, shape, mode, 2)
        for _ in range(30):
            s = _rand_vec(rng, 4, "int")
            if all(X.rank([X.vec(s), X.vec(x), X.vec(y)]) == 3 for x, y in zip(p.reshape(-1, 4), q.reshape(-1, 4))):
                break
        else:
            return
        a = _lib(ctx, g.join, g.Point(s), g.PointCollection(p), what="join(point, collection)")
        b = _lib(ctx, g.join, g.PointCollection(p), g.Point(s), what="join(collection, point)")
        _same(ctx, a, b, "join(single, collection) depends on order", [s, p])
        c = _lib(ctx, g.join, g.Point(s), g.PointCollection(p), g.PointCollection(q), what="join(point, 2 collections)")
        d = _lib(ctx, g.meet, g.Plane(s), g.PlaneCollection(p), g.PlaneCollection(q), what="meet(plane, 2 collections)")
        if a is not None:
            e = _lib(ctx, g.join, a, g.PointCollection(q), what="join(line collection, point collection)")
            _same(ctx, c, e, "join(s,p,q) != join(join(s,p),q)", [s, p, q])


def g_ragged(ctx, rng, i):
    """operands with different numbers of collection axes (aligned from the right): (k,) against (2,3,k), (3,k) against (2,3,k), (k,) against (3,k),
    both orders, 2D and 3D, join and meet, also three operands."""
    g = G()
    n = 3 if i % 2 == 0 else 4
    mode = MODES[(i // 2) % len(MODES)]
    k = [4, 2, 3][(i // 4) % 3]
    big = [(2, 3, k), (3, 2, k), (2, 2, k)][(i // 12) % 3]
    p, q = _coll(rng, n, big, mode, 2)
    lows = [p[0, 0], p[0], p[1, :1]]  # shapes (k,), (b, k), (1, k)
    low = lows[(i // 3) % 3]
    bq = np.broadcast_to(low, q.shape)
    if not all(_indep(x, y) for x, y in zip(bq.reshape(-1, n), q.reshape(-1, n))):
        return
    for A, B in ((g.PointCollection(low), g.PointCollection(q)), (g.PointCollection(q), g.PointCollection(low))):
        a = _lib(ctx, g.join, A, B, what="join(collections with different numbers of axes)")
        if a is not None and n == 3:
            a.contains(g.PointCollection(q))
    if n == 3:
        _lib(ctx, g.meet, g.LineCollection(low), g.LineCollection(q), what="meet(line collections with different numbers of axes)")
        _lib(ctx, g.meet, g.LineCollection(q), g.LineCollection(low), what="meet(line collections with different numbers of axes)")
    else:
        _lib(ctx, g.meet, g.PlaneCollection(low), g.PlaneCollection(q), what="meet(plane collections with different numbers of axes)")
        r = _rand_vec(rng, 4, "int")
        if all(X.rank([X.vec(x), X.vec(y), X.vec(r)]) == 3 for x, y in zip(bq.reshape(-1, n), q.reshape(-1, n))):
            _lib(ctx, g.join, g.PointCollection(low), g.Point(r), g.PointCollection(q), what="join(collection, point, larger collection)")
            _lib(ctx, g.join, g.Point(r), g.PointCollection(low), g.PointCollection(q), what="join(point, collection, larger collection)")


def g_large(ctx, rng, i):
    """Large collections (64 ... 1000 positions, one and two axes; a single object against them): whatever path the size of the arrays
    selects, every position holds the span / intersection of its operands."""
    g = G()
    n = 3 + i % 2
    shape = [(64,), (70,), (200,), (8, 10), (1000,), (3, 30)][(i // 2) % 6]
    k = int(np.prod(shape))
    for _ in range(20):
        A = gen.coords(rng, (k, n), 6, "int")
        B = gen.coords(rng, (k, n), 6, "int")
        if all(_indep(a, b) for a, b in zip(A, B)):
            break
    else:
        return
    A, B = A.reshape(shape + (n,)), B.reshape(shape + (n,))
    kind = (i // 12) % 3
    if kind == 0:
        _lib(ctx, g.join, g.PointCollection(A), g.PointCollection(B), what="join(large point collections)")
        _lib(ctx, g.PointCollection(B).join, g.PointCollection(A), what="join(large point collections)")
    elif kind == 1:
        cls = g.LineCollection if n == 3 else g.PlaneCollection
        _lib(ctx, g.meet, cls(A), cls(B), what="meet(large collections)")
        _lib(ctx, cls(B).meet, cls(A), what="meet(large collections)")
    else:
        for _ in range(20):
            s = _rand_vec(rng, n, "int")
            if all(_indep(s, a) for a in A.reshape(-1, n)):
                break
        else:
            return
        _lib(ctx, g.join, g.Point(s), g.PointCollection(A), what="join(point, large collection)")
        _lib(ctx, g.join, g.PointCollection(A), g.Point(s), what="join(large collection, point)")
        cls1, cls = (g.Line, g.LineCollection) if n == 3 else (g.Plane, g.PlaneCollection)
        _lib(ctx, g.meet, cls1(s), cls(A), what="meet(single, large collection)")


def g_bigint(ctx, rng, i):
    """Large integer coordinates (products beyond 2**53 but inside int64) in nearly dependent position: the exact int64 contraction of the
    library has no rounding, a floating-point detour loses the result."""
    g = G()
    base = rng.integers(2 * 10 ** 5, 10 ** 6, size=3) * rng.choice([-1, 1], size=3)
    d = [rng.integers(-3, 4, size=3) for _ in range(3)]
    if i % 2 == 0:
        P3 = [np.append(base + x, 1) for x in d]
        if X.rank([X.vec(v) for v in P3]) == 3:
            a = _lib(ctx, g.join, *[g.Point(v) for v in P3], what="join(3 points, large integers)")
            b = _lib(ctx, g.meet, *[g.Plane(v) for v in P3], what="meet(3 planes, large integers)")
            if a is not None:
                a.contains(g.Point(P3[0]))
                a.contains(g.Point(P3[1] + np.array([0, 0, 1, 0])))
    else:
        big = rng.integers(10 ** 5, 10 ** 6, size=2) * rng.choice([-1, 1], size=2)
        p, q = np.append(big, 1), np.append(big + rng.integers(-3, 4, size=2), 1)
        if X.rank([X.vec(p), X.vec(q)]) == 2:
            l = _lib(ctx, g.join, g.Point(p), g.Point(q), what="join(2 points, large integers)")
            _lib(ctx, g.meet, g.Line(p), g.Line(q), what="meet(2 lines, large integers)")
            if l is not None:
                l.contains(g.Point(p))
                l.contains(g.Point(2 * q - p))
    # the same question in 32 and 16 bit integer representation: coordinates whose products leave the range of the representation but
    # not that of int64 (the contraction must not be carried out in the narrow type)
    for dt, lo, hi in ((np.int32, 1500, 30000), (np.int16, 40, 180)):
        c3 = [np.append(rng.integers(lo, hi, size=3) * rng.choice([-1, 1], size=3), 1).astype(dt) for _ in range(3)]
        if X.rank([X.vec(v) for v in c3]) == 3:
            _lib(ctx, g.join, *[g.Point(v) for v in c3], what=f"join(3 points, {np.dtype(dt).name})")
            _lib(ctx, g.meet, *[g.Plane(v) for v in c3], what=f"meet(3 planes, {np.dtype(dt).name})")
            _lib(ctx, g.join, g.PointCollection(np.stack([c3[0], c3[1]])), g.Point(c3[2]), g.Point(c3[1] + c3[0] * np.array([1, 1, 1, 0], dtype=dt)),
                 what=f"join(collection, point, point; {np.dtype(dt).name})")
        hi2 = 40000 if dt is np.int32 else 180
        c2 = [np.append(rng.integers(hi2 // 2, hi2, size=2) * rng.choice([-1, 1], size=2), 1).astype(dt) for _ in range(2)]
        if X.rank([X.vec(v) for v in c2]) == 2:
            _lib(ctx, g.join, g.Point(c2[0]), g.Point(c2[1]), what=f"join(2 points, {np.dtype(dt).name})")
            _lib(ctx, g.meet, g.Line(c2[0]), g.Line(c2[1]), what=f"meet(2 lines, {np.dtype(dt).name})")


GROUPS = [
    {"name": "large", "fn": g_large, "quick": 72, "thorough": 720},
    {"name": "bigint", "fn": g_bigint, "quick": 400, "thorough": 4000},
    {"name": "lattice2d", "fn": g_lattice2d, "quick": 124 * 124, "thorough": 124 * 124},
    {"name": "lattice3d", "fn": g_lattice3d, "quick": 80 * 80, "thorough": 80 * 80},
    {"name": "random", "fn": g_random, "quick": 1440, "thorough": 14400},
    {"name": "collections", "fn": g_collections, "quick": 864, "thorough": 8640},
    {"name": "ragged", "fn": g_ragged, "quick": 432, "thorough": 4320},
]


