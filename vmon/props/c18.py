"""C18 -- polytope intersections return exactly the common points."""
from __future__ import annotations

import itertools
from fractions import Fraction as F

import numpy as np

from .. import core, gen
from .. import exact as X
from .. import ref as R
from . import c04 as S
from .c16 import ZOO, ZOO_NAMES, _variant, cart_exact, polygon_contains_exact, seg_contains_exact

RULE = ("postconditions on SegmentTensor.intersect, PolygonTensor.intersect and Polyhedron.intersect on every call with exactly representable "
        "operands: the returned list must consist of point objects, each lying on both operands (exact membership), without duplicates, and equal "
        "as a set to the exact reference: segment-segment/line (2D and 3D), segment-plane, boundary hits of a line/segment with a polygon of the plane, "
        "the pierce point of a 3D polygon, face hits of a polyhedron; operand pairs with infinitely many common points are judged only for "
        "'no spurious point'. Workload: all lattice segment pairs of {-2..2}^2 (quick: a residue class, thorough: all), polygon zoo x lattice lines and "
        "segments, cuboids/tetrahedra x lattice lines and segments incl. hits through vertices and edges, parallel faces, misses, collections. "
        "Non-trivial: every judged call; distinct by operand digest."
        " Also: solids and polygons moved after a first query, with the lines moved along and the old lines; 3D segment collections in which skew pairs and meeting pairs are mixed and the supporting lines cross inside, at the end of or beyond the end of either segment; the lattice configurations magnified to 8-, 16- and 32-bit integer pixel coordinates; segment collections with two collection axes all of whose members are hit (and with one miss).")
SHARDS = (8, 16)
REQUIRED = ["segment.intersect", "polygon.intersect", "polyhedron.intersect"]
ASSUMPTIONS = ["operands must be exactly representable (integers / dyadic) for the exact reference; other calls are skipped and counted"]
EXHAUSTIVE = {"quick": [], "thorough": ["all ordered pairs of lattice segments with endpoints in {-2..2}^2 (sampled to 1/7 in the quick tier)"]}


def _vec(v):
    return [x.re if isinstance(x, X.GQ) else x for x in X.vec(v)]


def _cross(u, v):
    return X.cross3(u, v)


def _is_zero(v):
    return all(x == 0 for x in v)


def line_points_exact(line, e):
    """Two exact homogeneous points spanning the single line element e (2D: 3-vector of the line, 3D: 4x4 matrix)."""
    if e.ndim == 1:
        h = _vec(e)
        ns = X.nullspace([h], 3)
        return ns if len(ns) == 2 else None
    s = R.sub_from_array("line3", e, line.tensor_shape)
    return None if s is None else s.B


def _seg_pts(e):
    return [_vec(e[0]), _vec(e[1])]


def _on_span(p, B):
    return X.rank([list(b) for b in B] + [list(p)]) == len(B)


def _cart(p):
    return cart_exact(np.array([float(x) for x in p])) if False else (("inf", p[:-1]) if p[-1] == 0 else ("fin", [x / p[-1] for x in p[:-1]]))


def span_meet(B1, B2, n):
    """Intersection of two 2-dimensional spans in K^n (lines given by two points): returns ('point', p) | ('none',) | ('same',)."""
    r = X.rank([list(b) for b in B1] + [list(b) for b in B2])
    if r == 2:
        return ("same",)
    if r == 4:
        return ("none",)
    # r == 3: one common point: solve a1 B1[0] + a2 B1[1] = b1 B2[0] + b2 B2[1]
    rows = X.transpose([list(B1[0]), list(B1[1]), [-x for x in B2[0]], [-x for x in B2[1]]])
    ns = X.nullspace(rows, 4)
    if len(ns) != 1:
        return ("none",)
    a1, a2 = ns[0][0], ns[0][1]
    p = [a1 * x + a2 * y for x, y in zip(B1[0], B1[1])]
    if _is_zero(p):
        return ("none",)
    return ("point", p)


def on_segment(p, seg):
    return seg_contains_exact(_cart(seg[0]), _cart(seg[1]), _cart(p))


def ref_segment_other(seg, other_kind, other):
    """Exact common points of a segment (two homogeneous points) with a line ('line', B) / segment ('segment', pts) / plane ('plane', h).
    Returns (list of points, infinite?)."""
    if other_kind == "plane":
        h = other
        va, vb = X.dot(h, seg[0]), X.dot(h, seg[1])
        if va == 0 and vb == 0:
            return [], True
        p = [vb * x - va * y for x, y in zip(seg[0], seg[1])]
        if _is_zero(p):
            return [], False
        return ([p] if on_segment(p, seg) else []), False
    B2 = other if other_kind == "line" else other
    m = span_meet(seg, B2, len(seg[0]))
    if m[0] == "same":
        if other_kind == "line":
            return [], True
        # collinear segments: common points may be none, one (shared endpoint) or infinitely many
        common = [q for q in B2 if on_segment(q, seg)] + [q for q in seg if on_segment(q, B2)]
        distinct = []
        for q in common:
            if not any(X.proj_equal(q, d) for d in distinct):
                distinct.append(q)
        if len(distinct) >= 2:
            return [], True
        return distinct, False
    if m[0] == "none":
        return [], False
    p = m[1]
    if not on_segment(p, seg):
        return [], False
    if other_kind == "segment" and not on_segment(p, B2):
        return [], False
    return [p], False


def _set_equal(got, ref):
    return all(any(X.proj_equal(g, r) for r in ref) for g in got) and all(any(X.proj_equal(g, r) for g in got) for r in ref)


def _has_dup(got):
    return any(X.proj_equal(a, b) for a, b in itertools.combinations(got, 2))


def _exactable(*arrs):
    return all(R.is_dyadic(a, 40, 2 ** 20) and not (np.iscomplexobj(a) and np.any(np.asarray(a).imag != 0)) for a in arrs)


def _result_points(ctx, monitor, res, operands, op):
    from geometer.point import PointTensor

    if not isinstance(res, list):
        ctx.judge(monitor, False, operands, what=f"result is a {type(res).__name__}, not a list", op=op)
        return None
    pts = []
    for x in res:
        if not isinstance(x, PointTensor):
            ctx.judge(monitor, False, operands, what=f"result item is a {type(x).__name__}, not a point", op=op, feat={"item_class": type(x).__name__})
            return None
        a = np.asarray(x.array)
        if a.ndim != 1:
            ctx.judge(monitor, False, operands, what="result item is not a single point", op=op)
            return None
        if not _exactable(a) and not R.finite(a):
            return None
        pts.append([F(float(v)) for v in np.real(a)] if not np.iscomplexobj(a) or np.all(a.imag == 0) else None)
    if any(p is None for p in pts):
        ctx.judge(monitor, False, operands, what="a returned point is complex", op=op)
        return None
    return pts


def _approx_in(got, ref, tol=1e-9):
    """Results are computed in floating point from exact operands: compare projectively with a tight tolerance instead of exactly."""
    g = [np.array([float(x) for x in p]) for p in got]
    r = [np.array([float(x) for x in p]) for p in ref]
    ok1 = all(any(X.proj_residual(a, b) <= tol for b in r) for a in g)
    ok2 = all(any(X.proj_residual(a, b) <= tol for a in g) for b in r)
    dup = any(X.proj_residual(a, b) <= tol for a, b in itertools.combinations(g, 2))
    return ok1, ok2, dup


def post_segment_intersect(ctx, call):
    from geometer.point import LineTensor, PlaneTensor
    from geometer.shapes import SegmentTensor

    self, other = call.args[0], call.args[1]
    if not isinstance(other, (LineTensor, PlaneTensor, SegmentTensor)):
        return  # polygons / polyhedra delegate to their own intersect
    if not (R.finite(self.array) and R.finite(other.array)) or not _exactable(self.array, other.array):
        ctx.skip("segment.intersect", "operands not exactly representable")
        return
    dim = self.shape[-1] - 1
    cs_self = tuple(self.shape[: self.rank - 2])
    cs_other = tuple(other.shape[: other.rank - 2]) if isinstance(other, SegmentTensor) else S.coll_shape(other)
    try:
        cshape = np.broadcast_shapes(cs_self, cs_other)
    except ValueError:
        return
    kind = "segment" if isinstance(other, SegmentTensor) else "plane" if (isinstance(other, PlaneTensor) or (dim == 2 and False)) else "line"
    if isinstance(other, LineTensor) and dim == 2:
        kind = "line"
    feat = {"other": kind, "dim": dim, "coll": bool(cshape)}
    ref, infinite = [], False
    for pos in R.positions(tuple(cshape), 64):
        se = self.array[tuple(0 if s == 1 else x for s, x in zip(cs_self, pos[len(cshape) - len(cs_self):]))] if cs_self else self.array
        oe = other.array[tuple(0 if s == 1 else x for s, x in zip(cs_other, pos[len(cshape) - len(cs_other):]))] if cs_other else other.array
        seg = _seg_pts(se)
        if X.rank(seg) < 2 or (seg[0][-1] == 0 and seg[1][-1] == 0):
            ctx.skip("segment.intersect", "degenerate segment / both endpoints at infinity")
            return
        if kind == "segment":
            o = _seg_pts(oe)
            if X.rank(o) < 2 or (o[0][-1] == 0 and o[1][-1] == 0):
                ctx.skip("segment.intersect", "degenerate segment")
                return
        elif kind == "plane":
            o = _vec(oe)
        else:
            o = line_points_exact(other, oe)
            if o is None:
                ctx.skip("segment.intersect", "invalid line")
                return
        r, inf = ref_segment_other(seg, kind, o)
        infinite = infinite or inf
        for p in r:
            ref.append(p)
        if kind == "segment" and not inf and len(r) == 1 and span_meet(seg, o, dim + 1)[0] == "same":
            feat["collinear_shared_endpoint"] = True
    if int(np.prod(cshape, dtype=int)) > 64:
        ctx.skip("segment.intersect", "collection too large for the exhaustive reference")
        return
    ops = [self, other]
    if call.exc is not None:
        ctx.judge("segment.intersect", False, ops, what=f"intersect raised {type(call.exc).__name__}: {str(call.exc)[:80]}", op="Segment.intersect",
                  feat={**feat, "exc": type(call.exc).__name__, "nref": len(ref)}, nontrivial=True)
        return
    got = _result_points(ctx, "segment.intersect", call.result, ops, "Segment.intersect")
    if got is None:
        return
    ok1, ok2, dup = _approx_in(got, ref)
    if cshape:
        dup = False  # the list of a collection concatenates the positions: the same point may belong to several elements
    if infinite:
        # only 'no spurious point': every returned point must be a common point of some position -- not decidable from the finite reference: check membership
        ctx.skip("segment.intersect", "infinitely many common points (overlap): not judged for completeness")
        return
    ok = ok1 and ok2 and not dup
    why = "a returned point is not a common point" if not ok1 else "a common point is missing" if not ok2 else "a common point is returned twice"
    ctx.note(("segment_intersect", f"{kind}:dim{dim}:{len(ref)}pts"))
    ctx.judge("segment.intersect", ok, ops, what=f"Segment.intersect({kind}): {why} (returned {len(got)}, exact {len(ref)})", op="Segment.intersect", feat=feat, nontrivial=True,
              expected=[[float(x) for x in p] for p in ref], observed=[[float(x) for x in p] for p in got])


def _polygon_ref(poly_e, okind, o, dim):
    """Exact reference for one polygon (vertex array) with a line / segment. Returns (points, infinite?)."""
    V = [_vec(v) for v in poly_e]
    n = len(V)
    if any(v[-1] == 0 for v in V):
        return None, False
    if dim == 2:
        pts, infinite = [], False
        for k in range(n):
            edge = [V[k], V[(k + 1) % n]]
            r, inf = ref_segment_other(edge, okind, o)
            infinite = infinite or inf
            for p in r:
                if not any(X.proj_equal(p, q) for q in pts):
                    pts.append(p)
        return pts, infinite
    # 3D: supporting plane
    cv = [[x / v[-1] for x in v[:-1]] for v in V]
    nrm = None
    for k in range(1, n - 1):
        c = X.cross3([a - b for a, b in zip(cv[k], cv[0])], [a - b for a, b in zip(cv[k + 1], cv[0])])
        if any(x != 0 for x in c):
            nrm = c
            break
    if nrm is None:
        return None, False
    h = list(nrm) + [-X.dot(nrm, cv[0])]
    B = o
    va, vb = X.dot(h, B[0]), X.dot(h, B[1])
    if va == 0 and vb == 0:
        return [], True
    p = [vb * x - va * y for x, y in zip(B[0], B[1])]
    if _is_zero(p):
        return [], False
    if okind == "segment" and not on_segment(p, B):
        return [], False
    inside = polygon_contains_exact([np.array([float(x) for x in v]) for v in V], np.array([float(x) for x in p])) if False else _pip3(V, p)
    return ([p] if inside else []), False


def _pip3(V, p):
    arrs = [np.array([x for x in v], dtype=object) for v in V]
    # reuse the exact membership of C16 on Fraction data
    from .c16 import pip_exact

    if p[-1] == 0:
        return False
    cv = [[x / v[-1] for x in v[:-1]] for v in V]
    cp = [x / p[-1] for x in p[:-1]]
    nrm = None
    for k in range(1, len(cv) - 1):
        c = X.cross3([a - b for a, b in zip(cv[k], cv[0])], [a - b for a, b in zip(cv[k + 1], cv[0])])
        if any(x != 0 for x in c):
            nrm = c
            break
    if X.dot(nrm, [a - b for a, b in zip(cp, cv[0])]) != 0:
        return False
    drop = max(range(3), key=lambda k: abs(nrm[k]))
    keep = [k for k in range(3) if k != drop]
    return pip_exact([[v[k] for k in keep] for v in cv], [cp[k] for k in keep])


def _post_poly(ctx, call, monitor, faces_of, allow_dup=False):
    from geometer.point import LineTensor
    from geometer.shapes import SegmentTensor

    self, other = call.args[0], call.args[1]
    if not isinstance(other, (LineTensor, SegmentTensor)):
        return
    if not (R.finite(self.array) and R.finite(other.array)) or not _exactable(self.array, other.array):
        ctx.skip(monitor, "operands not exactly representable")
        return
    dim = self.shape[-1] - 1
    okind = "segment" if isinstance(other, SegmentTensor) else "line"
    cs_other = tuple(other.shape[: other.rank - 2]) if okind == "segment" else S.coll_shape(other)
    if cs_other:
        ctx.skip(monitor, "collection of lines/segments (alignment with the edge/face axis: C04 finding F26)")
        return
    polys = faces_of(self)
    if polys is None:
        ctx.skip(monitor, "polytope collection")
        return
    if okind == "segment":
        o = _seg_pts(other.array)
        if X.rank(o) < 2 or (o[0][-1] == 0 and o[1][-1] == 0):
            ctx.skip(monitor, "degenerate segment")
            return
    else:
        o = line_points_exact(other, np.asarray(other.array))
        if o is None:
            ctx.skip(monitor, "invalid line")
            return
    ref, infinite = [], False
    for pe in polys:
        r, inf = _polygon_ref(pe, okind, o, dim)
        if r is None:
            ctx.skip(monitor, "vertex at infinity / degenerate polygon")
            return
        infinite = infinite or inf
        for p in r:
            if not any(X.proj_equal(p, q) for q in ref):
                ref.append(p)
    ops = [self, other]
    feat = {"other": okind, "dim": dim, "nfaces": len(polys), "infinite": infinite}
    if call.exc is not None:
        ctx.judge(monitor, False, ops, what=f"intersect raised {type(call.exc).__name__}: {str(call.exc)[:80]}", op=call.name, feat={**feat, "exc": type(call.exc).__name__}, nontrivial=True)
        return
    got = _result_points(ctx, monitor, call.result, ops, call.name)
    if got is None:
        return
    ok1, ok2, dup = _approx_in(got, ref)
    if allow_dup:
        dup = False  # a collection of polygons answers polygon by polygon: a point on a shared edge is reported by each of them
    if infinite:
        # a line inside an edge line / face plane: "no spurious point": every returned point must lie on both operands (exact membership),
        # no point may be returned twice and the isolated hits of the faces that are crossed properly must be present
        spurious = [gp for gp in got if not (_on_other(gp, okind, o) and any(_on_face(pe, gp, dim) for pe in polys))]
        ok = not dup and ok2 and not spurious
        why = "a common point is returned twice" if dup else "an isolated common point is missing" if not ok2 else \
            f"a returned point does not lie on both operands: {[[float(x) for x in gp] for gp in spurious[:2]]}"
        ctx.judge(monitor, ok, ops, what=f"{call.name} (operands share a whole edge/face line): {why}", op=call.name, feat=feat, nontrivial=True)
        return
    ok = ok1 and ok2 and not dup
    why = "a returned point is not a common point" if not ok1 else "a common point is missing" if not ok2 else "a common point is returned twice"
    ctx.note((monitor, f"{okind}:dim{dim}:{len(ref)}pts"))
    ctx.judge(monitor, ok, ops, what=f"{call.name}({okind}): {why} (returned {len(got)}, exact {len(ref)})", op=call.name, feat=feat, nontrivial=True,
              expected=[[float(x) for x in p] for p in ref], observed=[[float(x) for x in p] for p in got])


def _on_other(p, okind, o):
    if okind == "segment":
        return bool(on_segment(p, o))
    return _on_span(p, o)


def _on_face(poly_e, p, dim):
    V = [_vec(v) for v in poly_e]
    if dim == 2:
        from .c16 import pip_exact

        if p[-1] == 0:
            return False
        return pip_exact([[x / v[-1] for x in v[:-1]] for v in V], [x / p[-1] for x in p[:-1]])
    return _pip3(V, p)


def post_polygon_intersect(ctx, call):
    def faces_of(self):
        if self.rank == 3 and self.shape[-1] == 4:
            # a collection of polygons of space with one collection axis (the faces of a solid, or a part of them obtained by indexing)
            return [np.asarray(f) for f in self.array]
        if self.rank != 2:
            return None
        return [np.asarray(self.array)]

    _post_poly(ctx, call, "polygon.intersect", faces_of, allow_dup=getattr(call.args[0], "rank", 2) == 3)


def post_polyhedron_intersect(ctx, call):
    def faces_of(self):
        if self.rank != 3:
            return None
        return [np.asarray(f) for f in self.array]

    _post_poly(ctx, call, "polyhedron.intersect", faces_of)


def install(ctx):
    import geometer.shapes as Sh

    core.wrap_method_everywhere(Sh.Polyhedron, "intersect", post_polyhedron_intersect)
    core.wrap_method_everywhere(Sh.SegmentTensor, "intersect", post_segment_intersect)
    core.wrap_method_everywhere(Sh.PolygonTensor, "intersect", post_polygon_intersect)


# ---------------------------------------------------------------------------------
# workload
# ---------------------------------------------------------------------------------

def _try(f, *a):
    try:
        return f(*a)
    except Exception:
        return None


LAT2 = [np.array([x, y, 1]) for x in range(-2, 3) for y in range(-2, 3)]
SEGS = [(a, b) for a, b in itertools.combinations(range(len(LAT2)), 2)]  # 300 lattice segments


def g_segment_pairs(ctx, rng, i):
    import geometer as g

    k1, k2 = divmod(i, len(SEGS))
    a, b = SEGS[k1 % len(SEGS)]
    c, d = SEGS[k2]
    s1 = g.Segment(g.Point(LAT2[a]), g.Point(LAT2[b]))
    s2 = g.Segment(g.Point(LAT2[c] * gen.pick(rng, [1, 2, -1])), g.Point(LAT2[d]))
    _try(s1.intersect, s2)
    if i % 5 == 0:
        _try(s1.intersect, g.Line(g.Point(LAT2[c]), g.Point(LAT2[d])))
        _try(s2.intersect, s1)
    if i % 6 == 1:
        # the same configuration magnified to pixel coordinates in 16 / 8 bit integer representation (coordinates fit, their products do not)
        for dt, f_ in ((np.int16, 150), (np.int16, 40), (np.uint8, 12), (np.int32, 9000)):
            pts = [np.array([int(v[0]) * f_, int(v[1]) * f_, 1]) for v in (LAT2[a], LAT2[b], LAT2[c], LAT2[d])]
            lo = min(int(p[k_]) for p in pts for k_ in range(2))
            if dt is np.uint8:
                pts = [p + np.array([-lo, -lo, 0]) for p in pts]
            if max(abs(int(x)) for p in pts for x in p) > np.iinfo(dt).max or any(np.array_equal(pts[j], pts[j + 1]) for j in (0, 2)):
                continue
            n1 = _try(g.Segment, g.Point(pts[0].astype(dt)), g.Point(pts[1].astype(dt)))
            n2 = _try(g.Segment, g.Point(pts[2].astype(dt)), g.Point(pts[3].astype(dt)))
            if n1 is not None and n2 is not None:
                _try(n1.intersect, n2)
                _try(n2.intersect, g.Line(g.Point(pts[0].astype(dt)), g.Point(pts[1].astype(dt))))
    if i % 7 == 0:
        # the other segment as a member of a collection (a collection object, an edge of a polygon): a single segment against a
        # collection, a collection against a single segment, two collections
        others = [SEGS[int(j)] for j in rng.choice(len(SEGS), size=2)]
        sc = _try(g.SegmentCollection, np.array([[LAT2[c], LAT2[d]]] + [[LAT2[x], LAT2[y]] for x, y in others]))
        if sc is not None:
            _try(s1.intersect, sc)
            _try(sc.intersect, s1)
            _try(sc.intersect, g.SegmentCollection(np.array([[LAT2[a], LAT2[b]]] * 3)))
            _try(s1.intersect, sc[0])
        tri = _try(g.Polygon, g.Point(LAT2[c]), g.Point(LAT2[d]), g.Point(LAT2[others[0][0]] + np.array([5, 1, 0])))
        if tri is not None:
            e0 = _try(lambda: tri.edges[0])
            if e0 is not None:
                _try(s1.intersect, e0)


def g_segments3d(ctx, rng, i):
    import geometer as g

    kind = i % 5
    for _ in range(20):
        P = [np.append(gen.coords(rng, (3,), 3, "int"), 1) for _ in range(4)]
        if X.rank([X.vec(P[0]), X.vec(P[1])]) == 2 and X.rank([X.vec(P[2]), X.vec(P[3])]) == 2:
            break
    else:
        return
    if kind == 0:
        # two segments meeting in a lattice point
        m = np.append(gen.coords(rng, (3,), 2, "int"), 1)
        d1, d2 = gen.nonzero_vec(rng, 3, 2), gen.nonzero_vec(rng, 3, 2)
        if not np.any(np.cross(d1, d2)):
            return
        P = [m - np.append(d1, 0), m + 2 * np.append(d1, 0), m - np.append(d2, 0), m + np.append(d2, 0)]
    s1 = _try(g.Segment, g.Point(P[0]), g.Point(P[1]))
    s2 = _try(g.Segment, g.Point(P[2]), g.Point(P[3]))
    if s1 is None or s2 is None:
        return
    if kind in (0, 1):
        _try(s1.intersect, s2)  # skew segments raise NotCoplanar inside meet: judged
    h = gen.nonzero_vec(rng, 4, 3)
    _try(s1.intersect, g.Plane(h))
    # plane through an endpoint / containing the segment / parallel
    n_ = gen.nonzero_vec(rng, 3, 3)
    _try(s1.intersect, g.Plane(np.append(n_, -int(n_ @ P[0][:3]))))
    d = P[1][:3] - P[0][:3]
    w = np.cross(d, gen.nonzero_vec(rng, 3, 3))
    if np.any(w):
        _try(s1.intersect, g.Plane(np.append(w, -int(w @ P[0][:3]))))  # contains the segment
        _try(s1.intersect, g.Plane(np.append(w, -int(w @ P[0][:3]) + 1)))  # parallel
    # collections
    if kind == 2:
        A = np.stack([np.append(gen.coords(rng, (3,), 3, "int"), 1) for _ in range(3)])
        B = A + np.stack([np.append(gen.nonzero_vec(rng, 3, 2), 0) for _ in range(3)])
        sc = _try(g.SegmentCollection, np.stack([A, B], axis=-2))
        if sc is not None:
            _try(sc.intersect, g.Plane(h))
    if kind == 1:
        # segment collections with two collection axes, every segment crossing the plane / the line (and one variant with a miss)
        nrm = gen.nonzero_vec(rng, 3, 2)
        base_pts = [gen.coords(rng, (3,), 3, "int") for _ in range(6)]
        for miss in (False, True):
            A2, B2 = [], []
            for j, bp in enumerate(base_pts):
                s_ = int(nrm @ bp)
                lo, hi = bp - (abs(s_) + 1 + j) * nrm, bp + (abs(s_) + 2) * nrm  # end points on both sides of the plane n.x = 0
                if miss and j == 4:
                    hi = lo - nrm
                A2.append(np.append(lo, 1))
                B2.append(np.append(hi, 1))
            sc2 = _try(g.SegmentCollection, np.stack([np.array(A2), np.array(B2)], axis=-2).reshape(2, 3, 2, 4))
            if sc2 is not None:
                _try(sc2.intersect, g.Plane(np.append(nrm, 0)))
                _try(sc2.intersect, g.PlaneCollection(np.tile(np.append(nrm, 0), (2, 3, 1))))
    if kind in (3, 4):
        # collections of pairs in which skew pairs and meeting pairs are mixed; the supporting lines of a meeting pair cross inside /
        # at the end of / beyond the end of either segment
        o_ = gen.coords(rng, (3,), 3, "int")
        u = gen.nonzero_vec(rng, 3, 3)
        for _ in range(20):
            v, w = gen.nonzero_vec(rng, 3, 3), gen.nonzero_vec(rng, 3, 3)
            if abs(np.linalg.det(np.stack([u, v, w]))) > 0.5:
                break
        else:
            return
        hh = lambda c: np.append(c, 1)  # noqa: E731
        A_, B_ = [], []
        kinds = rng.permutation(5) if kind == 3 else rng.integers(0, 5, size=int(rng.integers(2, 7)))
        for kd in kinds:
            A_.append([hh(o_ - 2 * u), hh(o_ + 2 * u)])
            B_.append({0: [hh(o_ - v), hh(o_ + v)], 1: [hh(o_ + v), hh(o_ + 3 * v)], 2: [hh(o_ + w - v), hh(o_ + w + v)], 3: [hh(o_), hh(o_ + 2 * v)],
                       4: [hh(o_ + 3 * u - v), hh(o_ + 3 * u + v)]}[int(kd)])
        SA, SB = _try(g.SegmentCollection, np.array(A_)), _try(g.SegmentCollection, np.array(B_))
        if SA is not None and SB is not None:
            _try(SA.intersect, SB)
            _try(SB.intersect, SA)
            _try(SA[0].intersect, SB)
            _try(SB.intersect, SA[0])


def g_polygons2d(ctx, rng, i):
    import geometer as g

    name = ZOO_NAMES[i % len(ZOO_NAMES)]
    V = [np.array(v) for v in ZOO[name]]
    A = gen.invertible_int_matrix(rng, 2, 2) if (i // 8) % 2 else np.eye(2, dtype=int)
    b = gen.coords(rng, (2,), 3, "int")
    V = _variant([A @ v + b for v in V], i // 16)
    poly = _try((g.Triangle if len(V) == 3 else g.Polygon), *[g.Point(np.append(v, 1)) for v in V])
    if poly is None:
        return
    xs = [v[0] for v in V]
    ys = [v[1] for v in V]
    for _ in range(6):
        p = np.array([int(rng.integers(min(xs) - 1, max(xs) + 2)), int(rng.integers(min(ys) - 1, max(ys) + 2)), 1])
        q = np.array([int(rng.integers(min(xs) - 1, max(xs) + 2)), int(rng.integers(min(ys) - 1, max(ys) + 2)), 1])
        if np.array_equal(p, q):
            continue
        _try(poly.intersect, g.Line(g.Point(p), g.Point(q)))
        _try(poly.intersect, g.Segment(g.Point(p), g.Point(q)))
    # through two vertices, along an edge, through one vertex
    v0, v1, v2 = (np.append(V[k], 1) for k in (0, 1, 2))
    _try(poly.intersect, g.Line(g.Point(v0), g.Point(v2)))
    _try(poly.intersect, g.Line(g.Point(v0), g.Point(v1)))
    _try(poly.intersect, g.Segment(g.Point(v0), g.Point(2 * v1 - v0)))
    _try(g.Segment(g.Point(v0), g.Point(v2)).intersect, poly)


def g_solids(ctx, rng, i):
    import geometer as g

    o = gen.coords(rng, (3,), 2, "int")
    s = rng.integers(1, 4, size=3)
    if i % 3 == 2:
        P = [np.append(o, 1), np.append(o + [s[0], 0, 0], 1), np.append(o + [0, s[1], 0], 1), np.append(o + [0, 0, s[2]], 1)]
        tris = [g.Triangle(*[g.Point(P[k]) for k in c]) for c in itertools.combinations(range(4), 3)]
        solid = _try(g.Polyhedron, *tris)
        corners = [p[:3] for p in P]
    else:
        solid = _try(g.Cuboid, g.Point(*o), g.Point(*(o + [s[0], 0, 0])), g.Point(*(o + [0, s[1], 0])), g.Point(*(o + [0, 0, s[2]])))
        corners = [o + np.array([a * s[0], b * s[1], c * s[2]]) for a in (0, 1) for b in (0, 1) for c in (0, 1)]
    if solid is None:
        return
    lo, hi = o - 1, o + s + 1
    for _ in range(5):
        p = np.append(rng.integers(lo, hi + 1), 1)
        q = np.append(rng.integers(lo, hi + 1), 1)
        if np.array_equal(p, q):
            continue
        _try(solid.intersect, g.Line(g.Point(p), g.Point(q)))
        _try(solid.intersect, g.Segment(g.Point(p), g.Point(q)))
    # through vertices / along an edge / in a face plane / axis parallel through the interior (parallel faces)
    c0, c1 = np.append(corners[0], 1), np.append(corners[-1], 1)
    _try(solid.intersect, g.Line(g.Point(c0), g.Point(c1)))
    _try(solid.intersect, g.Segment(g.Point(c0), g.Point(c1)))
    _try(solid.intersect, g.Line(g.Point(c0), g.Point(np.append(corners[1], 1))))
    mid = np.append(2 * o + s, 2)
    _try(solid.intersect, g.Line(g.Point(mid), g.Point(mid + np.array([2, 0, 0, 0]))))
    _try(solid.intersect, g.Segment(g.Point(mid), g.Point(mid + np.array([20, 0, 0, 0]))))
    far = np.append(o + s + 5, 1)
    _try(solid.intersect, g.Line(g.Point(far), g.Point(far + np.array([1, 0, 0, 0]))))
    # the faces as a collection of their own, and parts of it obtained by slicing / fancy / mask indexing, against lines and segments that lie in
    # the plane of some of them, pierce them or miss them
    fc = _try(lambda: solid.faces)
    if fc is not None and i % 2 == 0:
        nf = fc.shape[0]
        msk = rng.random(nf) < 0.6
        msk[int(rng.integers(0, nf))] = True
        forms = [fc, _try(lambda: fc[::-1]), _try(lambda: fc[[0, nf - 1, 1]]), _try(lambda: fc[msk]), _try(lambda: fc[1:])]
        a_ = np.append(2 * o + [s[0], 0, s[2]], 2) if len(corners) == 8 else np.append(corners[0] + corners[1], 2)
        others = [g.Line(g.Point(a_ - np.array([8, 0, 0, 0])), g.Point(a_ + np.array([8, 0, 0, 0]))), g.Segment(g.Point(a_ - np.array([40, 0, 0, 0])), g.Point(a_ + np.array([40, 0, 0, 0]))),
                  g.Line(g.Point(mid), g.Point(mid + np.array([2, 0, 0, 0]))), g.Line(g.Point(c0), g.Point(c1))]
        for f_ in forms:
            if f_ is None:
                continue
            for ot in others:
                _try(f_.intersect, ot)
    # 3D polygon pierced / missed / coplanar line
    face = g.Polygon(*[g.Point(np.append(o + v, 1)) for v in ([0, 0, 0], [s[0], 0, 0], [s[0], s[1], 0], [0, s[1], 0])])
    c = np.append(2 * o + [s[0], s[1], 0], 2)
    _try(face.intersect, g.Line(g.Point(c + np.array([0, 0, 2, 0])), g.Point(c - np.array([0, 0, 2, 0]))))
    _try(face.intersect, g.Segment(g.Point(c + np.array([0, 0, 2, 0])), g.Point(c + np.array([0, 0, 6, 0]))))
    _try(face.intersect, g.Line(g.Point(np.append(o, 1)), g.Point(np.append(o + [s[0], s[1], 0], 1))))
    _try(face.intersect, g.Line(g.Point(np.append(o + [9, 9, 1], 1)), g.Point(np.append(o + [9, 9, -1], 1))))
    _try(face.intersect, g.Line(g.Point(np.append(o, 1)), g.Point(np.append(o + [0, 0, 1], 1))))  # through a vertex
    # segments inside a face plane / along an edge that stop before the next face (no point beyond the segment may be reported)
    if i % 3 != 2:
        a_ = np.append(2 * o + [s[0], 0, 0], 2)  # midpoint of the edge from o along x
        _try(solid.intersect, g.Segment(g.Point(a_), g.Point(a_ + np.array([6 * s[0], 0, 0, 0]))))
        _try(solid.intersect, g.Segment(g.Point(a_), g.Point(a_ + np.array([s[0] // 2 if s[0] > 1 else 1, 0, 0, 0]) * 0 + np.array([0, 0, 0, 0]))) if False else None)
        b_ = np.append(2 * o + [s[0], s[1], 0], 2)  # centre of the bottom face
        _try(solid.intersect, g.Segment(g.Point(b_), g.Point(b_ + np.array([8 * s[0], 0, 0, 0]))))
        _try(solid.intersect, g.Segment(g.Point(b_ - np.array([8 * s[0], 0, 0, 0])), g.Point(b_)))
    # polygons that are the result of a transformation (cached supporting plane must follow): translate / rotate, then intersect
    shift = gen.coords(rng, (3,), 3, "int")
    moved = _try(lambda: face + g.Point(*shift))
    if moved is not None:
        c2 = c + np.append(2 * shift, 0)
        _try(moved.intersect, g.Line(g.Point(c2 + np.array([0, 0, 2, 0])), g.Point(c2 - np.array([0, 0, 2, 0]))))
        _try(moved.intersect, g.Segment(g.Point(c2 + np.array([0, 0, 2, 0])), g.Point(c2 - np.array([0, 0, 2, 0]))))
        _try(g.Segment(g.Point(c2 + np.array([0, 0, 2, 0])), g.Point(c2 - np.array([0, 0, 2, 0]))).intersect, moved)
    # the solid itself moved after it has been queried: the same lines moved along, and the old lines (now missing or hitting elsewhere)
    shift = np.array(gen.nonzero_vec(rng, 3, 3)) * 2
    for mv in (lambda: solid + g.Point(*shift.tolist()), lambda: g.translation(*shift.tolist()) * solid):
        ms = _try(mv)
        if ms is None or not hasattr(ms, "intersect"):
            continue
        sh = np.append(shift, 0)
        _try(ms.intersect, g.Line(g.Point(c0 + sh), g.Point(c1 + sh)))
        _try(ms.intersect, g.Line(g.Point(mid + 2 * sh), g.Point(mid + 2 * sh + np.array([2, 0, 0, 0]))))
        _try(ms.intersect, g.Segment(g.Point(mid), g.Point(mid + np.array([20, 0, 0, 0]))))
        _try(ms.intersect, g.Line(g.Point(c0), g.Point(c1)))
    tm = gen.invertible_int_matrix(rng, 4, 1, affine=True)
    img = _try(lambda: g.Transformation(tm) * face)
    if img is not None and R.is_dyadic(img.array, 40, 2 ** 20):
        V = np.asarray(img.array, dtype=float)
        cen = V.sum(axis=0)
        nrm = np.cross(V[1, :3] / V[1, 3] - V[0, :3] / V[0, 3], V[2, :3] / V[2, 3] - V[0, :3] / V[0, 3])
        if np.any(nrm != 0):
            pa = np.append(cen[:3] / cen[3] * 4 + nrm * 4, 4.0)
            pb = np.append(cen[:3] / cen[3] * 4 - nrm * 4, 4.0)
            if R.is_dyadic(pa, 40, 2 ** 20):
                _try(img.intersect, g.Line(g.Point(pa), g.Point(pb)))


GROUPS = [
    {"name": "segment_pairs", "fn": g_segment_pairs, "quick": len(SEGS) * len(SEGS) // 7, "thorough": len(SEGS) * len(SEGS)},
    {"name": "segments3d", "fn": g_segments3d, "quick": 500, "thorough": 5000},
    {"name": "polygons2d", "fn": g_polygons2d, "quick": 512, "thorough": 5120},
    {"name": "solids", "fn": g_solids, "quick": 300, "thorough": 3000},
]
# the quick tier strides through the pair space with a step that is coprime to the number of segments
_step = 7


def _quick_pairs(ctx, rng, i):
    return g_segment_pairs(ctx, rng, i * _step)


GROUPS[0]["fn"] = lambda ctx, rng, i, _f=g_segment_pairs: _f(ctx, rng, i * (_step if ctx.tier == "quick" else 1))


# ---------------------------------------------------------------------------------
# known findings
# ---------------------------------------------------------------------------------

def f16_collinear_shared_endpoint(rec, feat):
    """two collinear segments that share exactly one endpoint: the supporting lines coincide, their meet is the zero vector and the common
    endpoint is not reported."""
    return rec["monitor"] == "segment.intersect" and bool(feat.get("collinear_shared_endpoint")) and "missing" in rec["what"]


def f30_skew_raises(rec, feat):
    """a segment and a skew segment / line of 3-space have no common point, but the meet of the supporting lines raises NotCoplanar
    instead of the empty list being returned."""
    return rec["monitor"] == "segment.intersect" and feat.get("dim") == 3 and feat.get("exc") == "NotCoplanar" and feat.get("nref") == 0 and feat.get("other") in ("segment", "line")


CLASSIFIERS = {"f16_collinear_shared_endpoint": f16_collinear_shared_endpoint}  # f30 was fixed in /repo (611b428)
