"""C09 -- dist and angle equal the Cartesian distance and angle."""
from __future__ import annotations

import numpy as np

from .. import core, gen
from .. import exact as X
from .. import ref as R
from . import c04 as S

RULE = ("postconditions on operators.dist and operators.angle (every call: workload, library-internal, repository tests) against Cartesian "
        "closed forms on dehomogenised real coordinates, by kind: point-point, point-line, point-plane, point-segment (clamped), point-polygon "
        "(closed region; 3D via the foot in the plane), point-polyhedron (closed surface), parallel plane-line / plane-plane; symmetry of "
        "every supported pairing; exactly one infinite point => inf; incident => 0; angles modulo pi (3D: unoriented acute representative), "
        "antisymmetry in the last two arguments in 2D; invariance under random isometries. Workload: lattice / float objects at any position and "
        "orientation in 2D and 3D, all kind combinations, single and collection. Non-trivial = operands not axis aligned unit "
        "configurations (>= 2 coordinates not in {0,1,-1}); distinct by operand digest."
        " Also: polygons and cuboids moved by translations / rotations after construction, lines in special position (through the origin, axis parallel, inside a coordinate plane) against parallel planes; three distinct collinear points of the plane (angle 0 modulo pi; a raise is a violation).")
SHARDS = (8, 16)
REQUIRED = ["dist", "angle", "dist.symmetric", "isometry"]
ASSUMPTIONS = ["complex operands, both points at infinity and non-parallel plane/line pairs are not judged", "3D rotation handedness and the orientation of 3D angles are not judged",
               "dist(polyhedron, point) is the distance to the closed surface (an interior point has the distance to the nearest face)"]
EXHAUSTIVE = {"quick": [], "thorough": []}

TOL = 1e-7


def _real(a):
    """Real representative of a homogeneous coordinate array (a complex multiple of a real vector is the same real object);
    None if the object is genuinely complex."""
    a = np.asarray(a)
    if np.iscomplexobj(a):
        m = np.abs(a).max() if a.size else 0.0
        if m == 0 or not np.isfinite(m):
            return a.real.astype(float)
        if np.all(np.abs(a.imag) <= 1e-9 * m):
            return a.real.astype(float)
        piv = a.ravel()[np.abs(a).argmax()]
        b = a / piv * abs(piv)
        if np.any(np.abs(b.imag) > 1e-9 * m):
            return None
        a = b.real
    return a.astype(float)


def cart_point(e):
    """(cartesian coords, finite?) of one homogeneous point (real), None if complex."""
    e = _real(e)
    if e is None:
        return None, None
    if abs(e[-1]) <= 1e-8:
        return e[:-1], False
    return e[:-1] / e[-1], True


def _line3_points(m, ts):
    """Two points spanning the 3D line given by its (dual or primal) 4x4 matrix."""
    s = R.nsub_from_array("line3", m, ts)
    if s is None:
        return None
    B = [np.real_if_close(b) for b in s.B]
    if any(np.iscomplexobj(b) for b in B):
        # try to find a real basis
        Bm = np.array(s.B)
        re = np.concatenate([Bm.real, Bm.imag])
        u, sv, vh = np.linalg.svd(re)
        B = [vh[0], vh[1]]
    return [np.asarray(b, dtype=float) for b in B]


def _dist_point_line_nd(p, a, d):
    """distance from cartesian p to the line a + t d."""
    d = d / np.linalg.norm(d)
    w = p - a
    return float(np.linalg.norm(w - np.dot(w, d) * d))


def _affine_line(B):
    """(point, direction) in cartesian coordinates of the line spanned by two homogeneous points (rows of B); None if the line is at infinity."""
    b0, b1 = B
    # find a finite point and a direction
    if abs(b0[-1]) < 1e-12 and abs(b1[-1]) < 1e-12:
        return None
    if abs(b0[-1]) < abs(b1[-1]):
        b0, b1 = b1, b0
    a = b0[:-1] / b0[-1]
    dvec = b1[:-1] - b1[-1] * a  # direction: b1 - b1_w * (a,1)
    if np.linalg.norm(dvec) < 1e-12:
        return None
    return a, dvec


def _seg_dist(p, a, b):
    ab = b - a
    t = np.dot(p - a, ab) / np.dot(ab, ab)
    t = min(1.0, max(0.0, t))
    return float(np.linalg.norm(p - (a + t * ab)))


def _pip2d(p, V):
    """closed point-in-polygon (even-odd, boundary inclusive) in float arithmetic with a small tolerance."""
    n = len(V)
    for k in range(n):
        if _seg_dist(p, V[k], V[(k + 1) % n]) < 1e-9:
            return True
    inside = False
    x, y = p
    for k in range(n):
        x1, y1 = V[k]
        x2, y2 = V[(k + 1) % n]
        if (y1 > y) != (y2 > y):
            xi = x1 + (y - y1) * (x2 - x1) / (y2 - y1)
            if xi > x:
                inside = not inside
    return inside


def _polygon_dist(p, V):
    """distance from cartesian point p to the closed planar polygon with vertices V (2D or 3D)."""
    V = [np.asarray(v, dtype=float) for v in V]
    edge = min(_seg_dist(p, V[k], V[(k + 1) % len(V)]) for k in range(len(V)))
    if len(p) == 2:
        return 0.0 if _pip2d(p, V) else edge
    # 3D: foot in the supporting plane
    nrm = None
    for k in range(1, len(V) - 1):
        c = np.cross(V[k] - V[0], V[k + 1] - V[0])
        if np.linalg.norm(c) > 1e-9:
            nrm = c / np.linalg.norm(c)
            break
    if nrm is None:
        return edge
    h = np.dot(p - V[0], nrm)
    foot = p - h * nrm
    # in-plane coordinates
    e1 = V[1] - V[0]
    e1 = e1 / np.linalg.norm(e1)
    e2 = np.cross(nrm, e1)
    to2 = lambda q: np.array([np.dot(q - V[0], e1), np.dot(q - V[0], e2)])  # noqa: E731
    if _pip2d(to2(foot), [to2(v) for v in V]):
        return abs(float(h))
    return edge


def ref_dist(a, ea, b, eb):
    """Reference distance between the single elements ea (of tensor a) and eb (of tensor b); None = not judged."""
    from geometer.point import LineTensor, PlaneTensor, PointTensor
    from geometer.shapes import PolygonTensor, Polyhedron, SegmentTensor

    ka = "point" if isinstance(a, PointTensor) else "line" if isinstance(a, LineTensor) else "plane" if isinstance(a, PlaneTensor) else \
        "segment" if isinstance(a, SegmentTensor) else "polygon" if isinstance(a, PolygonTensor) else "polyhedron" if isinstance(a, Polyhedron) else None
    kb = "point" if isinstance(b, PointTensor) else "line" if isinstance(b, LineTensor) else "plane" if isinstance(b, PlaneTensor) else \
        "segment" if isinstance(b, SegmentTensor) else "polygon" if isinstance(b, PolygonTensor) else "polyhedron" if isinstance(b, Polyhedron) else None
    if ka is None or kb is None:
        return None
    order = ["point", "line", "plane", "segment", "polygon", "polyhedron"]
    if order.index(ka) > order.index(kb):
        a, ea, ka, b, eb, kb = b, eb, kb, a, ea, ka
    ea, eb = _real(ea), _real(eb)
    if ea is None or eb is None:
        return None
    dim = a.shape[-1] - 1
    if ka == "point":
        p, fin = cart_point(ea)
        if kb == "point":
            q, fq = cart_point(eb)
            if fin and fq:
                return float(np.linalg.norm(p - q))
            if fin != fq:
                return float("inf")
            return None
        if not fin:
            return None
        if kb == "line" and dim == 2:
            n = np.linalg.norm(eb[:2])
            if n < 1e-12:
                return None
            return abs(float(np.dot(eb[:2], p) + eb[2])) / n
        if kb == "line":
            B = _line3_points(eb, b.tensor_shape)
            al = _affine_line(B) if B is not None else None
            if al is None:
                return None
            return _dist_point_line_nd(p, *al)
        if kb == "plane":
            n = np.linalg.norm(eb[:-1])
            if n < 1e-12:
                return None
            return abs(float(np.dot(eb[:-1], p) + eb[-1])) / n
        if kb in ("segment", "polygon", "polyhedron"):
            if np.any(np.abs(eb[..., -1]) <= 1e-8):
                return None  # rays / infinite vertices
            V = eb[..., :-1] / eb[..., -1:]
            if kb == "segment":
                return _seg_dist(p, V[0], V[1])
            if kb == "polygon":
                return _polygon_dist(p, list(V))
            return min(_polygon_dist(p, list(face)) for face in V)
        return None
    if ka in ("line", "plane") and kb in ("line", "plane") and dim == 3:
        # parallel plane / line and plane / plane only
        if ka == "line" and kb == "plane":
            B = _line3_points(ea, a.tensor_shape)
            al = _affine_line(B) if B is not None else None
            n = eb[:-1]
            if al is None or np.linalg.norm(n) < 1e-12:
                return None
            pt, d = al
            if abs(np.dot(n, d)) > 1e-9 * np.linalg.norm(n) * np.linalg.norm(d):
                return None
            return abs(float(np.dot(n, pt) + eb[-1])) / np.linalg.norm(n)
        if ka == "plane" and kb == "plane":
            n1, n2 = ea[:-1], eb[:-1]
            if np.linalg.norm(n1) < 1e-12 or np.linalg.norm(n2) < 1e-12:
                return None
            c = np.linalg.norm(np.cross(n1, n2)) / (np.linalg.norm(n1) * np.linalg.norm(n2))
            if c > 1e-9:
                return None
            s = np.dot(n1, n2) / np.dot(n2, n2)
            return abs(float(ea[-1] - s * eb[-1])) / np.linalg.norm(n1)
    return None


def _close(got, want, scale=1.0):
    if want is None:
        return None
    got = complex(got)
    if abs(got.imag) > 1e-9:
        return False
    got = got.real
    if np.isinf(want):
        return bool(np.isinf(got)) or got > 1e12
    if not np.isfinite(got):
        return False
    return abs(got - want) <= TOL * max(1.0, abs(want), scale)


def post_dist(ctx, call):
    p, q = call.args[0], call.args[1]
    if not (S._is_tensor(p) and S._is_tensor(q)):
        return
    if not (R.finite(p.array) and R.finite(q.array)) or p.shape[-1] != q.shape[-1]:
        ctx.skip("dist", "non-finite / dimension mismatch")
        return
    try:
        cshape = np.broadcast_shapes(S.coll_shape(p), S.coll_shape(q))
    except ValueError:
        ctx.skip("dist", "collection shapes do not align")
        return
    feat = {"kinds": [type(p).__name__, type(q).__name__], "dim": int(p.shape[-1]) - 1, "coll": bool(cshape)}
    positions = R.positions(tuple(cshape), 12)
    refs = []
    for pos in positions:
        ep = p.array[tuple(0 if s == 1 else x for s, x in zip(S.coll_shape(p), pos[len(cshape) - len(S.coll_shape(p)):]))] if S.coll_shape(p) else p.array
        eq = q.array[tuple(0 if s == 1 else x for s, x in zip(S.coll_shape(q), pos[len(cshape) - len(S.coll_shape(q)):]))] if S.coll_shape(q) else q.array
        refs.append((pos, ep, eq, ref_dist(p, ep, q, eq)))
    if all(r[3] is None for r in refs):
        ctx.skip("dist", "pairing not judged (complex / both infinite / non-parallel subspaces / unsupported)")
        return
    if call.exc is not None:
        ctx.judge("dist", False, [p, q], what=f"dist raised {type(call.exc).__name__}: {str(call.exc)[:100]}", op="dist", feat={**feat, "exc": type(call.exc).__name__}, nontrivial=True)
        return
    res = np.asarray(call.result)
    if res.shape != tuple(cshape):
        ctx.judge("dist", False, [p, q], what=f"result shape {res.shape} != collection shape {tuple(cshape)}", op="dist", feat=feat)
        return
    ctx.note(("dist_pairing", f"{type(p).__name__}-{type(q).__name__}:dim{feat['dim']}"))
    for pos, ep, eq, want in refs:
        if want is None:
            ctx.skip("dist", "position not judged")
            continue
        got = res[pos] if cshape else res
        scale = float(max(np.abs(_real(ep)).max(), np.abs(_real(eq)).max())) if _real(ep) is not None else 1.0
        ok = _close(got, want, scale=min(scale, 1e3))
        nontriv = np.count_nonzero(~np.isin(np.concatenate([np.ravel(ep), np.ravel(eq)]), (0, 1, -1))) >= 2
        f2 = dict(feat, nan=bool(np.isnan(complex(got).real)), want_zero=bool(want == 0))
        ctx.judge("dist", bool(ok), [ep, eq], what=f"dist = {got}, Cartesian distance {want}", op="dist", feat=f2, expected=want, observed=complex(got), nontrivial=bool(nontriv))
    # symmetry (only at the outermost call, to avoid re-entering)
    if call.depth == 0:
        try:
            sw = np.asarray(call.orig(q, p))
            ok = sw.shape == res.shape and bool(np.all(np.isclose(sw, res, rtol=1e-7, atol=1e-9, equal_nan=True)))
            ctx.judge("dist.symmetric", ok, [p, q], what=f"dist(a,b) = {res!r} differs from dist(b,a) = {sw!r}", op="dist", feat=feat, nontrivial=True)
        except Exception as e:
            ctx.judge("dist.symmetric", False, [p, q], what=f"dist(b,a) raised {type(e).__name__} although dist(a,b) returned", op="dist", feat={**feat, "exc": type(e).__name__})


def _direction(t, e):
    """Cartesian direction vector of a single element: point (through the origin), 2D line, 3D line, plane normal."""
    from geometer.point import LineTensor, PlaneTensor, PointTensor

    e = _real(e)
    if e is None:
        return None
    dim = t.shape[-1] - 1
    if isinstance(t, PointTensor):
        c, fin = cart_point(e)
        return c
    if isinstance(t, LineTensor) and dim == 2:
        return np.array([e[1], -e[0]])
    if isinstance(t, LineTensor):
        B = _line3_points(e, t.tensor_shape)
        al = _affine_line(B) if B is not None else None
        return None if al is None else al[1]
    if isinstance(t, PlaneTensor):
        return e[:-1]
    return None


def _angle_mod_pi_close(got, want):
    d = abs((got - want + np.pi / 2) % np.pi - np.pi / 2)
    return d <= 1e-6


def post_angle(ctx, call):
    from geometer.point import LineTensor, PlaneTensor, PointTensor

    args = call.args
    if not all(S._is_tensor(a) for a in args) or len(args) not in (2, 3):
        return
    if not all(R.finite(a.array) for a in args):
        return
    dim = args[0].shape[-1] - 1
    try:
        cshape = np.broadcast_shapes(*[S.coll_shape(a) for a in args])
    except ValueError:
        return
    feat = {"kinds": [type(a).__name__ for a in args], "dim": dim, "coll": bool(cshape)}

    def elem(a, pos):
        cs = S.coll_shape(a)
        return a.array[tuple(0 if s == 1 else x for s, x in zip(cs, pos[len(cshape) - len(cs):]))] if cs else a.array

    refs = []
    for pos in R.positions(tuple(cshape), 12):
        es = [elem(a, pos) for a in args]
        want = None
        if len(args) == 3 and all(isinstance(a, PointTensor) for a in args):
            pts = [cart_point(e) for e in es]
            if all(c is not None and f for c, f in pts):
                a, b, c = (p[0] for p in pts)
                u, v = b - a, c - a
                if np.linalg.norm(u) > 1e-9 and np.linalg.norm(v) > 1e-9:
                    want = ("vec", u, v)
                else:
                    want = ("deg", u, v)  # the vertex coincides with another point: no angle is defined, raising is legitimate
        elif len(args) == 2:
            x, y = args
            if isinstance(x, PlaneTensor) != isinstance(y, PlaneTensor):
                want = None
            else:
                u, v = _direction(x, es[0]), _direction(y, es[1])
                if u is not None and v is not None and np.linalg.norm(u) > 1e-9 and np.linalg.norm(v) > 1e-9:
                    want = ("vec", u, v)
        refs.append((pos, es, want))
    if all(w is None or w[0] == "deg" for _, _, w in refs):
        ctx.skip("angle", "configuration not judged")
        return
    if call.exc is not None:
        def par(w):
            _, u, v = w
            cu = np.linalg.norm(np.cross(u, v)) if len(u) == 3 else abs(u[0] * v[1] - u[1] * v[0])
            return cu < 1e-9 * np.linalg.norm(u) * np.linalg.norm(v)

        plane_points = len(args) == 3 and dim == 2 and all(isinstance(a, PointTensor) for a in args) and all(w is not None and w[0] == "vec" for _, _, w in refs)
        if plane_points:
            pass  # three distinct points of the plane always have an angle (0 modulo pi when they are collinear): a raise is judged
        elif type(call.exc).__name__ in ("LinearDependenceError", "NotCoplanar") and (type(call.exc).__name__ == "NotCoplanar" or any(w is not None and (w[0] == "deg" or par(w)) for _, _, w in refs)):
            ctx.skip("angle", "coincident / skew lines (degenerate configuration)")
            return
        ctx.judge("angle", False, list(args), what=f"angle raised {type(call.exc).__name__}: {str(call.exc)[:100]}", op="angle", feat={**feat, "exc": type(call.exc).__name__})
        return
    res = np.asarray(call.result)
    if res.shape != tuple(cshape):
        ctx.judge("angle", False, list(args), what=f"result shape {res.shape} != {tuple(cshape)}", op="angle", feat=feat)
        return
    ctx.note(("angle_kinds", "-".join(feat["kinds"]) + f":dim{dim}"))
    for pos, es, want in refs:
        if want is None or want[0] == "deg":
            ctx.skip("angle", "position not judged")
            continue
        _, u, v = want
        got = complex(res[pos] if cshape else res)
        if abs(got.imag) > 1e-9 or not np.isfinite(got.real):
            # identical directions inside a collection: the equality short-cut is all-or-nothing (known finding of C04), not judged here
            cu = np.linalg.norm(np.cross(u, v)) if len(u) == 3 else abs(u[0] * v[1] - u[1] * v[0])
            if cu < 1e-9 * np.linalg.norm(u) * np.linalg.norm(v):
                def _par(w):
                    if w is None or w[0] == "deg":
                        return False
                    cw = np.linalg.norm(np.cross(w[1], w[2])) if len(w[1]) == 3 else abs(w[1][0] * w[2][1] - w[1][1] * w[2][0])
                    return cw < 1e-9 * np.linalg.norm(w[1]) * np.linalg.norm(w[2])

                if cshape and not all(_par(w) for _, _, w in refs):
                    # parallel directions at some positions of a collection only: the equality short-cut is all-or-nothing (finding F27 of C04)
                    ctx.skip("angle", "coincident directions at some positions of a collection (degenerate)")
                    continue
                if len(args) == 2 and all(isinstance(a, LineTensor) for a in args) and not any(
                        X.proj_residual(np.ravel(elem(args[0], p_)), np.ravel(elem(args[1], p_))) < 1e-9 for p_, _, _ in refs):
                    # two distinct parallel lines (every position): the angle is 0
                    ctx.judge("angle", False, es, what=f"angle of two distinct parallel lines = {got}, expected 0 (mod pi)", op="angle", feat={**feat, "parallel": True}, nontrivial=True)
                    continue
                ctx.skip("angle", "coincident directions (degenerate)")
                continue
            ctx.judge("angle", False, es, what=f"angle = {got} is not a finite real number", op="angle", feat=feat)
            continue
        got = got.real
        if dim == 2:
            ref = np.arctan2(u[1], u[0]) - np.arctan2(v[1], v[0])
            ok = _angle_mod_pi_close(got, ref)
        else:
            c = abs(np.dot(u, v)) / (np.linalg.norm(u) * np.linalg.norm(v))
            ref = float(np.arccos(min(1.0, c)))
            g = abs((got + np.pi / 2) % np.pi - np.pi / 2)
            ok = abs(g - ref) <= 1e-6
        nontriv = np.count_nonzero(~np.isin(np.concatenate([np.ravel(e) for e in es]), (0, 1, -1))) >= 2
        ctx.judge("angle", bool(ok), es, what=f"angle = {got}, Cartesian angle {ref} (mod pi{'; unoriented' if dim == 3 else ''})", op="angle", feat=feat, expected=float(ref), observed=got,
                  nontrivial=bool(nontriv))


def install(ctx):
    import geometer.operators as O

    core.wrap_function(O, "dist", post_dist)
    core.wrap_function(O, "angle", post_angle)


# ---------------------------------------------------------------------------------
# workload
# ---------------------------------------------------------------------------------

def _pt(rng, dim, mode, w=None):
    import geometer as g

    return g.Point(gen.finite_point(rng, dim, 9, mode, w))


def _polygon2d(rng, kind):
    zoo = [
        [(0, 0), (4, 0), (4, 4), (0, 4)],
        [(0, 0), (4, 0), (0, 3)],
        [(0, 0), (4, 0), (4, 4), (2, 1), (0, 4)],
        [(0, 0), (4, 0), (4, 1), (1, 1), (1, 4), (0, 4)],
        [(0, 0), (3, -1), (6, 0), (3, 5)],
    ]
    V = np.array(zoo[kind % len(zoo)], dtype=float)
    A = gen.invertible_int_matrix(rng, 2, 2).astype(float)
    V = V @ A.T + gen.coords(rng, (2,), 5, "int")
    if kind % 2:
        V = V[::-1].copy()
    return V


def g_dist(ctx, rng, i):
    import geometer as g

    dim = 2 + i % 2
    mode = ["int", "float", "int"][(i // 2) % 3]
    kind = (i // 6) % 12
    p, q = _pt(rng, dim, mode), _pt(rng, dim, mode)
    if kind == 0:
        g.dist(p, q)
        g.dist(p, p)
        g.dist(p, g.Point(np.append(gen.nonzero_vec(rng, dim, 5), 0)))
    elif kind == 1:
        l = g.Line(p, q)
        r = _pt(rng, dim, mode)
        g.dist(r, l)
        g.dist(l, r)
        g.dist(p, l)
        on = g.Point(2 * p.normalized_array - q.normalized_array)
        g.dist(on, l)
    elif kind == 2 and dim == 3:
        r = _pt(rng, dim, mode)
        e = g.Plane(p, q, r)
        s = _pt(rng, dim, mode)
        g.dist(s, e)
        g.dist(e, s)
        g.dist(p, e)
        # parallel plane and line
        off = gen.coords(rng, (3,), 4, "int")
        if abs(np.dot(e.array[:3], off)) > 1e-9:
            e2 = g.Plane(p + g.Point(*off), q + g.Point(*off), r + g.Point(*off))
            g.dist(e, e2)
            g.dist(e2, e)
            l = g.Line(p + g.Point(*off), q + g.Point(*off))
            g.dist(e, l)
            g.dist(l, e)
        g.dist(e, g.Plane(e.array * -2.0))
        # lines in special position and a plane parallel to them at a known distance: through the origin, parallel to a coordinate axis,
        # inside a coordinate plane
        for a0, d0 in ((np.zeros(3), np.array([1.0, 1.0, 0.0])), (np.zeros(3), gen.nonzero_vec(rng, 3, 3).astype(float)), (gen.coords(rng, (3,), 4, "int").astype(float), np.array([1.0, 0, 0])),
                       (gen.coords(rng, (3,), 4, "int").astype(float), np.array([0, 0, 1.0])), (np.array([0.0, 2, -1]), np.array([0.0, 1, 3]))):
            nrm = np.cross(d0, gen.nonzero_vec(rng, 3, 3).astype(float))
            if np.linalg.norm(nrm) < 1e-9:
                continue
            c0 = float(rng.integers(1, 6))
            ln = g.Line(g.Point(*a0), g.Point(*(a0 + d0)))
            pl = g.Plane(np.append(nrm, -(nrm @ a0 + c0)))
            g.dist(pl, ln)
            g.dist(ln, pl)
        g.dist(g.Point(e.array[:3] * 1.0, homogenize=True) if False else g.Point(*e.array[:3]), e)
    elif kind == 3:
        s = g.Segment(p, q)
        for _ in range(3):
            g.dist(_pt(rng, dim, mode), s)
        g.dist(s, p)
        g.dist(g.Point(3 * q.normalized_array - 2 * p.normalized_array), s)
        s.length
    elif kind == 4 and dim == 2:
        V = _polygon2d(rng, i // 72)
        poly = g.Polygon(*[g.Point(*v) for v in V])
        for _ in range(4):
            g.dist(_pt(rng, 2, mode), poly)
        c = V.mean(axis=0)
        g.dist(poly, g.Point(*c))
        g.dist(g.Point(*V[0]), poly)
        g.dist(g.Point(*((V[0] + V[1]) / 2)), poly)
        poly.angles
        # triangles in both orientations (their own membership code path): interior, boundary and exterior points
        T3 = np.array([gen.coords(rng, (2,), 6, "int") for _ in range(3)], dtype=float)
        if abs(np.linalg.det(np.c_[T3, np.ones(3)])) > 0.5:
            for order in ((0, 1, 2), (0, 2, 1)):
                tri = g.Triangle(*[g.Point(*T3[k]) for k in order])
                g.dist(g.Point(*T3.mean(axis=0)), tri)
                g.dist(tri, g.Point(*((T3[0] + T3[1]) / 2)))
                g.dist(_pt(rng, 2, mode), tri)
                g.dist(tri, g.Point(*(2 * T3[0] - T3.mean(axis=0))))
        off = gen.nonzero_vec(rng, 2, 5)
        for mp in (poly + g.Point(*off.tolist()), (g.translation(*off.tolist()) * g.rotation(float(rng.uniform(-3, 3)))) * poly):
            g.dist(_pt(rng, 2, mode), mp)
            g.dist(g.Point(*c), mp)
    elif kind == 5 and dim == 3:
        V2 = _polygon2d(rng, i // 72)
        o = gen.coords(rng, (3,), 4, "int").astype(float)
        e1 = gen.nonzero_vec(rng, 3, 3).astype(float)
        e2 = gen.nonzero_vec(rng, 3, 3).astype(float)
        if np.linalg.norm(np.cross(e1, e2)) < 1e-9:
            return
        V = o + np.outer(V2[:, 0], e1) + np.outer(V2[:, 1], e2)
        poly = g.Polygon(*[g.Point(*v) for v in V])
        for _ in range(3):
            g.dist(_pt(rng, 3, mode), poly)
        g.dist(poly, g.Point(*V.mean(axis=0)))
        g.dist(g.Point(*(V.mean(axis=0) + np.cross(e1, e2))), poly)
        # the same questions for a polygon that was moved out of its plane (objects returned by the library, not freshly constructed ones)
        off = gen.nonzero_vec(rng, 3, 4)
        moved = [poly + g.Point(*off.tolist()), g.translation(*off.tolist()) * poly,
                 (g.translation(*off.tolist()) * g.rotation(float(rng.uniform(-3, 3)), axis=g.Point(*gen.nonzero_vec(rng, 3, 3).tolist()))) * poly]
        for mp in moved:
            W = np.asarray(mp.normalized_array)[..., :3].reshape(-1, 3)
            g.dist(_pt(rng, 3, mode), mp)
            g.dist(mp, g.Point(*W.mean(axis=0)))
            g.dist(g.Point(*V.mean(axis=0)), mp)
    elif kind == 6 and dim == 3:
        o = gen.coords(rng, (3,), 3, "int")
        s = rng.integers(1, 4, size=3)
        cube = g.Cuboid(g.Point(*o), g.Point(*(o + [s[0], 0, 0])), g.Point(*(o + [0, s[1], 0])), g.Point(*(o + [0, 0, s[2]])))
        for _ in range(3):
            g.dist(_pt(rng, 3, mode), cube)
        g.dist(cube, g.Point(*(o + s / 2)))
        g.dist(g.Point(*o), cube)
        off = gen.nonzero_vec(rng, 3, 4)
        moved = g.translation(*off.tolist()) * cube
        g.dist(_pt(rng, 3, mode), moved)
        g.dist(g.Point(*o), moved)
    elif kind == 7:
        # collections
        shape = gen.pick(rng, [(3,), (2, 2), (1,), (4,)])
        a = np.stack([gen.finite_point(rng, dim, 9, mode) for _ in range(int(np.prod(shape)))]).reshape(shape + (dim + 1,))
        b = np.stack([gen.finite_point(rng, dim, 9, mode) for _ in range(int(np.prod(shape)))]).reshape(shape + (dim + 1,))
        A, B = g.PointCollection(a), g.PointCollection(b)
        g.dist(A, B)
        g.dist(A, p)
        g.dist(p, B)
        L = g.join(A, B)
        g.dist(L, p)
        g.dist(p, L)
        g.dist(L, g.PointCollection(b[..., ::1] * 1.0 + 0.0))
        if dim == 3:
            c = np.stack([gen.finite_point(rng, dim, 9, mode) for _ in range(int(np.prod(shape)))]).reshape(shape + (dim + 1,))
            try:
                E = g.join(A, B, g.PointCollection(c))
                g.dist(E, p)
                g.dist(q, E)
            except Exception:
                pass
        SC = g.SegmentCollection(np.stack([a, b], axis=-2))
        g.dist(SC, p)
        g.dist(p, SC)
        SC.length
    elif kind == 8:
        # isometry invariance
        a = float(rng.uniform(-3, 3))
        v = gen.coords(rng, (dim,), 5, "int")
        t = g.translation(*v.tolist()) * (g.rotation(a) if dim == 2 else g.rotation(a, axis=g.Point(*gen.nonzero_vec(rng, 3, 3))))
        if rng.random() < 0.5:
            h = np.append(gen.nonzero_vec(rng, dim, 4), int(rng.integers(-5, 6)))
            t = t * g.reflection((g.Line if dim == 2 else g.Plane)(h))
        r = _pt(rng, dim, mode)
        objs = [(p, q), (p, g.Line(q, r)), (p, g.Segment(q, r))]
        if dim == 3:
            objs.append((p, g.Plane(q, r, _pt(rng, 3, mode))))
        for x, y in objs:
            try:
                d0, d1 = float(g.dist(x, y)), float(g.dist(t * x, t * y))
            except Exception as e:
                ctx.judge("isometry", False, [x, y], what=f"dist raised {type(e).__name__}", op="dist∘isometry")
                continue
            ctx.judge("isometry", abs(d0 - d1) <= 1e-6 * max(1, d0), [x, y, t], what=f"dist changes under an isometry: {d0} vs {d1}", op="dist∘isometry", nontrivial=True)
        try:
            u_, v_ = (np.asarray(x.normalized_array, dtype=float)[:-1] - np.asarray(p.normalized_array, dtype=float)[:-1] for x in (q, r))
            if p == q or p == r or (dim == 3 and np.linalg.norm(np.cross(u_, v_)) <= 1e-9 * np.linalg.norm(u_) * np.linalg.norm(v_)):
                raise core.GeometrySkip()  # (three collinear points of space span no plane: angle legitimately raises)
            a0, a1 = float(g.angle(p, q, r)), float(g.angle(t * p, t * q, t * r))
            det = np.linalg.det(np.asarray(t.array)[:-1, :-1])
            ok = _angle_mod_pi_close(a0, a1 if det > 0 else -a1) if dim == 2 else _angle_mod_pi_close(abs(a0), abs(a1))
            ctx.judge("isometry", ok, [p, q, r, t], what=f"angle changes under an isometry: {a0} vs {a1}", op="angle∘isometry", nontrivial=True)
        except core.GeometrySkip:
            ctx.skip("isometry", "vertex coincides with another point")
        except Exception as e:
            ctx.judge("isometry", False, [p, q, r], what=f"angle raised {type(e).__name__}", op="angle∘isometry")
    elif kind == 9:
        # the coincidence "point and plane / line with equal coordinate vectors"
        v = gen.nonzero_vec(rng, dim + 1, 4)
        if v[-1] != 0 and np.any(v[:-1] != 0):
            P_, H_ = g.Point(v), (g.Line if dim == 2 else g.Plane)(v)
            g.dist(P_, H_)
            g.dist(H_, P_)
    else:
        g.dist(p, q)


def g_angle(ctx, rng, i):
    import geometer as g

    def ang(*a):
        try:
            return g.angle(*a)
        except Exception:
            return np.nan  # judged by the monitor

    if i % 2 == 0:
        # three distinct collinear points of the plane: the straight angle (0 modulo pi), vertex at the end or in the middle
        a0 = gen.coords(rng, (2,), 5, "int")
        d0 = gen.nonzero_vec(rng, 2, 3)
        k1, k2 = int(rng.integers(1, 4)), int(rng.integers(1, 4))
        ang(g.Point(*a0), g.Point(*(a0 + k1 * d0)), g.Point(*(a0 + (k1 + k2) * d0)))
        ang(g.Point(*a0), g.Point(*(a0 + k1 * d0)), g.Point(*(a0 - k2 * d0)))
        ang(g.PointCollection(np.array([np.append(a0, 1), np.append(a0 + d0, 1)])), g.PointCollection(np.array([np.append(a0 + k1 * d0, 1), np.append(a0 + 3 * d0, 1)])),
            g.PointCollection(np.array([np.append(a0 - k2 * d0, 1), np.append(a0 + d0 + np.array([-d0[1], d0[0]]), 1)])))
    dim = 2 + i % 2
    mode = ["int", "float"][(i // 2) % 2]
    for _ in range(20):
        a, b, c = _pt(rng, dim, mode), _pt(rng, dim, mode), _pt(rng, dim, mode)
        if X.rank([X.vec(a.array), X.vec(b.array), X.vec(c.array)]) == 3:
            break
    else:
        return
    x = ang(a, b, c)
    y = ang(a, c, b)
    if dim == 2 and np.all(np.isfinite([x, y])):
        ctx.judge("angle", _angle_mod_pi_close(float(x), -float(y)), [a, b, c], what=f"angle(a,b,c) = {x} is not -angle(a,c,b) = {y} (mod pi)", op="angle antisymmetry", nontrivial=True)
    l, m = g.Line(a, b), g.Line(a, c)
    ang(l, m)
    ang(m, l)
    if dim == 2:
        ang(g.Line(gen.nonzero_vec(rng, 3, 5)), g.Line(gen.nonzero_vec(rng, 3, 5)))
        ang(g.Line(1, 0, -3), l)  # vertical line
        ang(l, g.Line(0, 1, 2))
    # distinct parallel lines (angle 0), single and as collections in which every pair is parallel, also axis parallel ones
    off = gen.nonzero_vec(rng, dim, 3)
    lp = l + g.Point(*[int(x) for x in off])
    ang(l, lp)
    ang(lp, l)
    ang(l, l.parallel(c))
    e1 = np.zeros(dim + 1)
    e1[0] = 1
    ax1, ax2 = g.Line(a, g.Point(np.asarray(a.normalized_array, dtype=float) + e1)), g.Line(c, g.Point(np.asarray(c.normalized_array, dtype=float) + e1))
    ang(ax1, ax2)
    try:
        LL, MM = g.LineCollection([l, m]), g.LineCollection([lp, m + g.Point(*[int(x) for x in off])])
        ang(LL, MM)
    except Exception:
        pass
    ang(b, c)
    if dim == 2:
        ang(l, c)
        ang(b, m)
    else:
        o = g.Point(0, 0, 0)
        ang(g.Line(o, b), c)  # a line through the origin and a direction
        ang(b, g.Line(o, c))
    if dim == 3:
        d = _pt(rng, dim, mode)
        try:
            e, f = g.Plane(a, b, c), g.Plane(a, b, d)
            ang(e, f)
        except Exception:
            pass
    # collections
    shape = gen.pick(rng, [(3,), (2, 2)])
    n = int(np.prod(shape))
    A = g.PointCollection(np.stack([gen.finite_point(rng, dim, 9, mode) for _ in range(n)]).reshape(shape + (dim + 1,)))
    B = g.PointCollection(np.stack([gen.finite_point(rng, dim, 9, mode) for _ in range(n)]).reshape(shape + (dim + 1,)))
    C = g.PointCollection(np.stack([gen.finite_point(rng, dim, 9, mode) for _ in range(n)]).reshape(shape + (dim + 1,)))
    try:
        ang(A, B, C)
        ang(a, B, C)
        ang(g.join(A, B), g.join(A, C))
    except Exception:
        pass


_tolerant = core.tolerant


g_dist = _tolerant(g_dist)
g_angle = _tolerant(g_angle)

GROUPS = [
    {"name": "dist", "fn": g_dist, "quick": 1440, "thorough": 14400},
    {"name": "angle", "fn": g_angle, "quick": 480, "thorough": 4800},
]


def f27_coincident_position(rec, feat):
    """dist of collections: nan at positions where the two operands are incident/coincident while other positions are not (all-or-nothing equality short-cut)."""
    return rec["monitor"] == "dist" and bool(feat.get("coll")) and bool(feat.get("nan")) and bool(feat.get("want_zero"))


CLASSIFIERS = {"f27_coincident_position": f27_coincident_position}
