"""Shared analysis of calls to geometer.point._join_meet_duality (used by C01, C02 and others).

For every (sampled) collection position the exact status of the configuration is computed with rational
linear algebra: 'ind' (general position), 'dep' (linearly dependent / zero operand), 'skew' (two skew 3D lines),
'bad' (an operand that is not a valid object, e.g. a 4x4 matrix that is not a line: outside the domain).
"""
from __future__ import annotations

import numpy as np

from .. import exact as X
from .. import ref as R

MAXPOS = 64


class JM:
    __slots__ = ("op", "n", "fshape", "pos", "status", "refs", "kinds", "args", "supported", "why", "integral", "gap", "check", "norm", "intersect", "exactmode")


def classify_op(kinds, intersect):
    ks = sorted(kinds)
    if all(k == "point" for k in ks):
        return "join"
    if all(k == "hyper" for k in ks):
        return "meet"
    if len(ks) == 2:
        if ks == ["line3", "point"]:
            return "join"
        if ks == ["hyper", "line3"]:
            return "meet"
        if ks == ["line3", "line3"]:
            return "meet" if intersect else "join"
    return None


def analyse(call, maxpos=MAXPOS):
    a = JM()
    a.args = args = call.args
    a.intersect = call.kwargs.get("intersect_lines", True)
    a.check = call.kwargs.get("check_dependence", True)
    a.norm = call.kwargs.get("normalize_result", True)
    a.supported = False
    a.why = ""
    if len(args) < 2:
        a.why = "arity"
        return a
    try:
        kinds = [R.kind_of(t) for t in args]
    except Exception:
        a.why = "not tensors"
        return a
    if any(k is None for k in kinds):
        a.why = "unsupported operand kind"
        return a
    a.kinds = kinds
    n = args[0].shape[-1]
    if any(t.shape[-1] != n for t in args):
        a.why = "mixed dimensions"
        return a
    a.n = n
    a.op = classify_op(kinds, a.intersect)
    if a.op is None:
        a.why = "unsupported combination"
        return a
    if n == 4 and "hyper" in kinds and "line3" not in kinds and len(args) > 3:
        a.why = "arity"
        return a
    if not all(R.finite(t.array) for t in args):
        a.why = "non-finite operand"
        return a
    try:
        a.fshape = R.broadcast_free(*args)
    except ValueError:
        a.why = "collection shapes do not broadcast"
        return a
    # size of the result
    if a.op == "join":
        total = sum({"point": 1, "line3": 2}[k] for k in kinds)
        if kinds == ["line3", "line3"]:
            total = 3
        if not (2 <= total <= n - 1):
            a.why = "arity"
            return a
    else:
        total = sum({"hyper": 1, "line3": 2}[k] for k in kinds)
        if kinds == ["line3", "line3"]:
            total = 3
        if not (2 <= total <= n - 1):
            a.why = "arity"
            return a
    a.integral = all(R.is_integral(t.array, 2 ** 20) for t in args)
    a.exactmode = a.integral or all(R.is_dyadic(t.array, 40, 2 ** 20) for t in args)
    a.supported = True
    a.pos = R.positions(a.fshape, maxpos)
    a.status = []
    a.refs = []
    a.gap = []
    for pos in a.pos:
        elems = [R.element_array(t, pos, a.fshape) for t in args]
        if a.exactmode:
            st, refsub, gap = _exact_position(a, kinds, args, elems)
            if not a.integral and st == "ind":
                # dyadic data: the exact status is right, but the library's absolute zero test needs a clear margin
                nst, _, gap = _numeric_position(a, kinds, args, elems)
                if nst != "ind":
                    st = "bad"
        else:
            st, refsub, gap = _numeric_position(a, kinds, args, elems)
        a.status.append(st)
        a.refs.append(refsub if st == "ind" else None)
        a.gap.append(gap)
    return a


def _exact_position(a, kinds, args, elems):
    subs = []
    for k, t, e in zip(kinds, args, elems):
        if not np.any(e != 0):
            return "dep", None, 1.0  # zero operand
        s = R.sub_from_array(k, e, t.tensor_shape)
        if s is None:
            return "bad", None, 1.0
        subs.append(s)
    two_lines = kinds == ["line3", "line3"]
    if a.op == "join":
        S, tot = R.join_subs(subs)
        if two_lines:
            st = {4: "skew", 3: "ind", 2: "dep"}[S.dim]
        else:
            st = "ind" if S.dim == tot else "dep"
    else:
        S, tot = R.meet_subs(subs)
        if two_lines:
            st = {4: "skew", 3: "ind", 2: "dep"}[len(S.A)]
        else:
            st = "ind" if len(S.A) == tot else "dep"
    return st, S, 1.0


def _numeric_position(a, kinds, args, elems):
    """Floating-point operands: statuses are decided by singular-value gaps; anything in the ambiguous band
    between rounding noise and clearly non-zero is 'bad' (not judged)."""
    subs = []
    for k, t, e in zip(kinds, args, elems):
        if not np.any(e != 0):
            return "dep", None, 1.0
        s = R.nsub_from_array(k, e, t.tensor_shape)
        if s is None:
            return "bad", None, 1.0
        subs.append(s)
    two_lines = kinds == ["line3", "line3"]
    if a.op == "join":
        S, tot, amb, gap = R.njoin(subs)
        got = S.dim
    else:
        S, tot, amb, gap = R.nmeet(subs)
        got = len(S.A)
    if amb:
        return "bad", None, gap
    if two_lines:
        st = {4: "skew", 3: "ind", 2: "dep"}.get(got, "bad")
    else:
        st = "ind" if got == tot else "dep"
    return st, S, gap


def expected_kind(a, refsub):
    d = refsub.dim
    if d == 1:
        return "point"
    if d == a.n - 1:
        return "hyper"
    if d == 2 and a.n == 4:
        return "line3"
    return None


CLASSNAMES = {
    ("point", False): ("Point",),
    ("point", True): ("PointCollection",),
    ("line3", False): ("Line",),
    ("line3", True): ("LineCollection",),
}


def class_ok(res, kind, n, has_free):
    name = type(res).__name__
    if kind == "hyper":
        want = ("Line" if n == 3 else "Plane") + ("Collection" if has_free else "")
        return name == want, want
    want = CLASSNAMES[(kind, has_free)][0]
    return name == want, want


# ---------------------------------------------------------------------------------
# the public entry points of join / meet (functions and methods) judged by the same contracts as the internal dispatcher:
# a refactor that gives one of them its own code path (a "fast path" that no longer goes through _join_meet_duality) stays observed
# ---------------------------------------------------------------------------------

def _adapt(post, intersect, has_flags):
    from .. import core

    def adapted(ctx, call):
        kw = {"intersect_lines": intersect,
              "check_dependence": call.kwargs.get("_check_dependence", True) if has_flags else True,
              "normalize_result": call.kwargs.get("_normalize_result", True) if has_flags else False}  # methods: no un-normalised twin

        def orig(*a, **k):
            if has_flags:
                return call.orig(*a, _check_dependence=k.get("check_dependence", True), _normalize_result=k.get("normalize_result", True))
            return call.orig(*a)

        c = core.Call(call.name, call.args, kw, call.depth, orig)
        c.result, c.exc = call.result, call.exc
        post(ctx, c)

    return adapted


def install_public(post):
    from .. import core
    import geometer.point as P

    core.wrap_function(P, "join", _adapt(post, False, True))
    core.wrap_function(P, "meet", _adapt(post, True, True))
    core.wrap_method(P.PointTensor, "join", _adapt(post, False, False))
    core.wrap_method(P.SubspaceTensor, "join", _adapt(post, False, False))
    core.wrap_method(P.SubspaceTensor, "meet", _adapt(post, True, False))
    core.wrap_method(P.LineTensor, "meet", _adapt(post, True, False))


def line_histories(g, rng, gen, X):
    """Histories on 3D line objects: a line is used in a meet / join (whatever the library derives from it is computed), then moved by a
    transformation, copied, or overwritten in place, and used again -- as first and as second argument, in coplanar, skew and coincident
    position.  Every call is judged by the monitors from the coordinates the objects hold at that moment."""
    def tr(f, *a):
        try:
            return f(*a)
        except Exception as e:  # judged by the monitors  # noqa: BLE001
            return e

    for _ in range(50):
        P = [gen.nonzero_vec(rng, 4, 3) for _ in range(4)]
        if all(v[-1] != 0 for v in P) and X.rank([X.vec(v) for v in P]) == 4:
            break
    else:
        return
    p, q, r, s = (g.Point(v) for v in P)
    l, m, k = g.join(p, q), g.join(p, r), g.join(r, s)  # l, m meet in p; l, k are skew
    for a, b in ((l, m), (m, l), (l, k), (k, l)):
        tr(g.meet, a, b)
        tr(g.join, a, b)
        tr(a.is_coplanar, b)
        tr(a.contains, p)
    v = gen.nonzero_vec(rng, 3, 4)
    t = g.translation(*[int(x) for x in v])
    l2, m2 = t * l, t * m
    for a, b in ((l2, m2), (m2, l2), (l2, m), (m, l2), (l2, l), (l2, t * l)):
        tr(g.meet, a, b)
        tr(g.join, a, b)
    l3 = l + g.Point(*[int(x) for x in v])
    tr(g.meet, l3, m2)
    tr(l3.meet, m2)
    # overwritten in place with the coordinates of another line (documented mutator), then used again
    l4 = l.copy()
    tr(g.meet, l4, m)
    try:
        l4[...] = np.asarray(k.array)
    except Exception:  # noqa: BLE001
        return
    for a, b in ((l4, m), (m, l4), (l4, g.join(r, p)), (g.join(s, p), l4)):
        tr(g.meet, a, b)
        tr(g.join, a, b)
