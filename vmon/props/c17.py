"""C17 -- polytope measures equal closed forms; polytope equality ignores vertex order."""
from __future__ import annotations

import math
from fractions import Fraction as F

import numpy as np

from .. import core, gen
from .. import exact as X
from .. import ref as R
from . import c04 as S
from .c16 import ZOO, ZOO_NAMES, _variant, cart_exact

RULE = ("postconditions on PolygonTensor.area, Polygon.centroid, Simplex.volume, SegmentTensor.length / midpoint, Triangle.circumcenter, "
        "RegularPolygon.radius / inradius / center, Polyhedron.area and PolytopeTensor.__eq__ on every call: exact shoelace / Newell area and area "
        "centroid on rational vertices, determinant / Gram volume, equidistance (and coplanarity) of the circumcentre, vertex statistics of "
        "regular polygons, sum of exact face areas, equality <=> same vertex cycle up to rotation / reversal decided exactly (polyhedra: same faces "
        "in any order). Workload: polygon zoo, simplices, cuboids and regular polygons at every position and orientation in 2D and 3D (planes not "
        "through the origin, not z = const), all 2n re-orderings as positive equality cases, swapped / moved vertices as negative ones, "
        "invariance under random isometries. Non-trivial: vertices not at the origin / axis aligned unit shapes; distinct by digest."
        " Also: regular polygons moved after their measures were read, integer homogeneous vertices with w != 1 (fractional coordinates in an integer array) for simplices of every dimension; `==` of polygon / segment collections whose members are written from another start vertex, in the other orientation or listed in another order (a False is wrong whenever one common rotation / reversal maps every member onto its partner); area is monitored on every class of the polytope tree, with quadrilaterals that reach the class Rectangle through the library (collection elements, faces of a frustum, sheared rectangles); simplices with a repeated vertex (volume 0).")
SHARDS = (8, 16)
REQUIRED = ["area", "centroid", "volume", "length", "midpoint", "circumcenter", "regular", "polyhedron.area", "eq", "isometry"]
ASSUMPTIONS = ["vertices at infinity and complex vertices are not judged"]
EXHAUSTIVE = {"quick": ["all 2n re-orderings of each generated polygon for =="], "thorough": ["all 2n re-orderings of each generated polygon for =="]}


def _cartf(e):
    """float cartesian coords of finite real homogeneous points (..., d+1) or None."""
    e = np.asarray(e)
    if np.iscomplexobj(e):
        if np.any(np.abs(e.imag) > 1e-12):
            return None
        e = e.real
    if np.any(np.abs(e[..., -1]) < 1e-9):
        return None
    return e[..., :-1] / e[..., -1:]


def _cart_exact_list(V):
    out = []
    for v in V:
        c = cart_exact(v)
        if c is None or c[0] != "fin":
            return None
        out.append(c[1])
    return out


def newell_area(V):
    """Area of the planar polygon with rational cartesian vertices V (2D or 3D)."""
    n = len(V)
    if len(V[0]) == 2:
        s = sum((V[k][0] * V[(k + 1) % n][1] - V[(k + 1) % n][0] * V[k][1] for k in range(n)), F(0))
        return abs(float(s)) / 2
    nx = sum(((V[k][1] - V[(k + 1) % n][1]) * (V[k][2] + V[(k + 1) % n][2]) for k in range(n)), F(0))
    ny = sum(((V[k][2] - V[(k + 1) % n][2]) * (V[k][0] + V[(k + 1) % n][0]) for k in range(n)), F(0))
    nz = sum(((V[k][0] - V[(k + 1) % n][0]) * (V[k][1] + V[(k + 1) % n][1]) for k in range(n)), F(0))
    return math.sqrt(float(nx * nx + ny * ny + nz * nz)) / 2


def _exactable(a):
    return R.is_dyadic(a, 30, 2 ** 20) and not (np.iscomplexobj(a) and np.any(np.asarray(a).imag != 0))


def _each(self, nvert_axes=1):
    """(position, element array) over the collection axes of a polytope tensor."""
    cs = tuple(self.shape[: self.rank - 1 - nvert_axes])
    for pos in R.positions(cs, 12):
        yield pos, (self.array[pos] if cs else self.array), cs


def post_area(ctx, call):
    from geometer.shapes import Polyhedron

    if call.exc is not None:
        return
    self = call.args[0]
    if not R.finite(self.array):
        return
    res = np.asarray(call.result)
    if isinstance(self, Polyhedron):
        faces = np.asarray(self.array)
        want = 0.0
        for f in faces:
            V = _cart_exact_list(list(f)) if _exactable(f) else None
            if V is None:
                c = _cartf(f)
                if c is None:
                    return
                V = [[F(float(x)) for x in v] for v in c]
            want += newell_area(V)
        ok = abs(float(res) - want) <= 1e-8 * max(1.0, want)
        ctx.judge("polyhedron.area", ok, [self], what=f"Polyhedron.area = {float(res)}, sum of exact face areas {want}", op="Polyhedron.area", nontrivial=True)
        return
    for pos, e, cs in _each(self):
        if not _exactable(e):
            c = _cartf(e)
            if c is None:
                ctx.skip("area", "vertex at infinity / complex")
                continue
            V = [[F(float(x)) for x in v] for v in c]
        else:
            V = _cart_exact_list(list(e))
            if V is None:
                ctx.skip("area", "vertex at infinity")
                continue
        want = newell_area(V)
        got = float(res[pos] if cs else res)
        ok = abs(got - want) <= 1e-8 * max(1.0, want)
        ctx.judge("area", ok, [e], what=f"area = {got}, exact shoelace/Newell area {want}", op="Polygon.area", feat={"dim": int(self.shape[-1]) - 1, "coll": bool(cs)}, nontrivial=True)


def post_centroid(ctx, call):
    if call.exc is not None:
        return
    self = call.args[0]
    c = _cartf(self.array)
    if c is None or not R.finite(self.array):
        return
    V = np.asarray(c, dtype=float)
    n = len(V)
    # area centroid by fan triangulation with signed areas along the polygon normal
    if V.shape[1] == 2:
        cr = lambda a, b: a[0] * b[1] - a[1] * b[0]  # noqa: E731
        ws = np.array([cr(V[k] - V[0], V[k + 1] - V[0]) for k in range(1, n - 1)])
    else:
        nrm = sum(np.cross(V[k] - V[0], V[k + 1] - V[0]) for k in range(1, n - 1))
        if np.linalg.norm(nrm) < 1e-12:
            return
        nrm = nrm / np.linalg.norm(nrm)
        ws = np.array([np.dot(np.cross(V[k] - V[0], V[k + 1] - V[0]), nrm) for k in range(1, n - 1)])
    if abs(ws.sum()) < 1e-12:
        ctx.skip("centroid", "zero area")
        return
    cs_ = np.array([(V[0] + V[k] + V[k + 1]) / 3 for k in range(1, n - 1)])
    want = (ws[:, None] * cs_).sum(axis=0) / ws.sum()
    got = _cartf(call.result.array)
    ok = got is not None and np.allclose(got, want, rtol=1e-8, atol=1e-8 * max(1.0, np.abs(want).max()))
    ctx.judge("centroid", bool(ok), [self.array], what=f"centroid = {got}, area centroid {want}", op="Polygon.centroid", feat={"dim": V.shape[1]}, nontrivial=True)


def post_volume(ctx, call):
    if call.exc is not None:
        return
    self = call.args[0]
    try:
        verts = [np.asarray(v.array) for v in self.vertices]
    except Exception:
        return
    c = _cartf(np.array(verts))
    if c is None:
        return
    P = np.asarray(c, dtype=float)
    k = len(P) - 1
    if getattr(self, "pdim", k) > k:
        # fewer distinct vertices than a simplex of this dimension has (a repeated vertex): the simplex is degenerate, its volume is 0
        got0 = float(np.real(call.result))
        ctx.judge("volume", abs(got0) <= 1e-9, [P], what=f"Simplex.volume = {got0} for a {self.pdim}-simplex with only {len(P)} distinct vertices (expected 0)", op="Simplex.volume",
                  feat={"k": int(self.pdim), "dim": P.shape[1], "repeated_vertex": True}, nontrivial=True)
        return
    E = P[1:] - P[0]
    # exact Gram determinant of the (dyadic rational) float coordinates: the reference has no rounding noise of its own
    Ex = [[F(float(x)) for x in row] for row in E]
    Gx = [[sum(a * b for a, b in zip(r, s)) for s in Ex] for r in Ex]
    want2 = max(F(0), X.det(Gx)) / math.factorial(k) ** 2
    want = math.sqrt(float(want2))
    got = float(np.real(call.result))
    # the library takes a square root of a float (Cayley-Menger) determinant: near-degenerate simplices are compared in volume^2 with the
    # rounding bound eps * (Hadamard bound of the Gram determinant)
    had = float(np.prod(np.sum(E * E, axis=1))) / math.factorial(k) ** 2
    ok = abs(got - want) <= 1e-7 * max(1.0, want) or (got >= 0 and abs(got * got - float(want2)) <= 1e-11 * had)  # (a volume is never negative)
    ctx.judge("volume", ok, [P], what=f"Simplex.volume = {got}, Gram-determinant volume {want}", op="Simplex.volume", feat={"k": k, "dim": P.shape[1]}, nontrivial=True)


def post_length(ctx, call):
    if call.exc is not None:
        return
    self = call.args[0]
    res = np.asarray(call.result)
    for pos, e, cs in _each(self):
        c = _cartf(e)
        if c is None:
            ctx.skip("length", "endpoint at infinity / complex")
            continue
        want = float(np.linalg.norm(c[0] - c[1]))
        got = float(np.real(res[pos] if cs else res))
        ctx.judge("length", abs(got - want) <= 1e-8 * max(1.0, want), [e], what=f"length = {got}, Cartesian {want}", op="Segment.length", nontrivial=True)


def post_midpoint(ctx, call):
    self = call.args[0]
    if call.exc is not None:
        # a raise is judged when every segment has two distinct finite real end points
        try:
            cs_ = [_cartf(e) for _, e, _ in _each(self)]
            valid = bool(cs_) and all(c is not None and not np.allclose(c[0], c[1]) for c in cs_)
        except Exception:
            valid = False
        if valid:
            ctx.judge("midpoint", False, [self.array], what=f"midpoint raised {type(call.exc).__name__}: {str(call.exc)[:80]}", op="Segment.midpoint",
                      feat={"exc": type(call.exc).__name__}, nontrivial=True)
        else:
            ctx.skip("midpoint", "raised on a degenerate segment")
        return
    res = call.result
    for pos, e, cs in _each(self):
        c = _cartf(e)
        if c is None:
            ctx.skip("midpoint", "endpoint at infinity / complex")
            continue
        want = (c[0] + c[1]) / 2
        got = _cartf(res.array[pos] if cs else res.array)
        ok = got is not None and np.allclose(got, want, rtol=1e-8, atol=1e-8 * max(1.0, np.abs(want).max()))
        ctx.judge("midpoint", bool(ok), [e], what=f"midpoint = {got}, Cartesian {want}", op="Segment.midpoint", feat={"dim": len(want)}, nontrivial=True)


def post_circumcenter(ctx, call):
    self = call.args[0]
    c = _cartf(self.array)
    if c is None or not R.finite(self.array):
        return
    V = np.asarray(c, dtype=float)
    a, b, cc = V
    if np.linalg.norm(np.cross(np.append(b - a, 0)[:3], np.append(cc - a, 0)[:3])) < 1e-9 * max(1.0, np.abs(V).max()) ** 2:
        ctx.skip("circumcenter", "degenerate triangle")
        return
    if call.exc is not None:
        ctx.judge("circumcenter", False, [V], what=f"circumcenter raised {type(call.exc).__name__}: {str(call.exc)[:80]}", op="circumcenter", feat={"exc": type(call.exc).__name__, "dim": V.shape[1]})
        return
    got = _cartf(call.result.array)
    if got is None:
        ctx.judge("circumcenter", False, [V], what="circumcenter is not a finite real point", op="circumcenter", feat={"dim": V.shape[1]})
        return
    d = [np.linalg.norm(got - v) for v in V]
    sc = max(1.0, max(d))
    ok = max(d) - min(d) <= 1e-7 * sc
    if ok and V.shape[1] == 3:
        nrm = np.cross(b - a, cc - a)
        ok = abs(np.dot(got - a, nrm)) <= 1e-7 * sc * np.linalg.norm(nrm)
    ctx.judge("circumcenter", bool(ok), [V], what=f"circumcenter {got} is not equidistant from the vertices (distances {d}) / not in their plane", op="circumcenter",
              feat={"dim": V.shape[1]}, nontrivial=True)


def post_regular(ctx, call):
    """RegularPolygon.center / radius / inradius against the vertex statistics."""
    if call.exc is not None:
        return
    self = call.args[0]
    c = _cartf(self.array)
    if c is None:
        return
    V = np.asarray(c, dtype=float)
    cen = V.mean(axis=0)
    name = call.name.split(".")[-1]
    if name == "center":
        got = _cartf(call.result.array)
        ok = got is not None and np.allclose(got, cen, atol=1e-8 * max(1.0, np.abs(cen).max()))
        ctx.judge("regular", bool(ok), [V], what=f"center = {got}, centre of the vertices {cen}", op="RegularPolygon.center", nontrivial=True)
    elif name == "radius":
        want = float(np.linalg.norm(V[0] - cen))
        got = float(np.real(call.result))
        ctx.judge("regular", abs(got - want) <= 1e-8 * max(1.0, want), [V], what=f"radius = {got}, distance centre-vertex {want}", op="RegularPolygon.radius", nontrivial=True)
    elif name == "inradius":
        want = float(np.linalg.norm((V[0] + V[1]) / 2 - cen))
        got = float(np.real(call.result))
        ctx.judge("regular", abs(got - want) <= 1e-8 * max(1.0, want), [V], what=f"inradius = {got}, distance centre-edge midpoint {want}", op="RegularPolygon.inradius", nontrivial=True)


def _cycle_equal_exact(A, B):
    """Vertex arrays (n, d+1) describe the same cycle up to rotation / reversal (projectively, exact)."""
    n = len(A)
    if len(B) != n:
        return False
    a = [X.vec(v) for v in A]
    b = [X.vec(v) for v in B]

    def same(u, v):
        return X.proj_equal(u, v)

    for rev in (False, True):
        bb = b[::-1] if rev else b
        for r in range(n):
            if all(same(a[k], bb[(k + r) % n]) for k in range(n)):
                return True
    return False


def post_eq(ctx, call):
    from geometer.shapes import PolytopeTensor

    if call.exc is not None:
        return
    a, b = call.args[0], call.args[1]
    if not isinstance(b, PolytopeTensor) or call.result is NotImplemented:
        return
    if not (_exactable(a.array) and _exactable(b.array)):
        ctx.skip("eq", "operands not exactly representable")
        return
    if np.any(np.all(a.array == 0, axis=-1)) or np.any(np.all(b.array == 0, axis=-1)):
        return
    got = bool(call.result)
    if a.array.shape != b.array.shape:
        ctx.judge("eq", got is False, [a, b], what="== is True for polytopes of different shapes", op="Polytope.__eq__", nontrivial=False)
        return
    pd = getattr(a, "pdim", 0)
    if pd <= 2:
        cs = tuple(a.shape[: a.rank - 2])
        want = True
        # the library uses one common rotation for all elements of a collection: judged for single polytopes and for collections element-wise only
        # when the answer does not depend on that (all elements equal with the same rotation is not required by the statement)
        per = []
        for pos in R.positions(cs, 64):
            per.append(_cycle_equal_exact(a.array[pos] if cs else a.array, b.array[pos] if cs else b.array))
        want = all(per)
        if cs and want and got is False:
            common = None
            for pos in R.positions(cs, 64):
                m = _cycle_matches(a.array[pos], b.array[pos])
                common = m if common is None else (common & m)
            if not common:
                ctx.skip("eq", "collection whose elements need different rotations (one common rotation is used: not judged)")
                return
            # one re-ordering (rotation, reversal) maps every element of the collection onto its partner: equal under the library's reading, too
        ctx.judge("eq", got == want, [a, b], what=f"== is {got}, exact comparison of the vertex cycles up to rotation/reversal says {want}", op="Polytope.__eq__",
                  feat={"pdim": pd, "coll": bool(cs), "nvert": int(a.shape[-2])}, nontrivial=True)
    elif pd == 3:
        fa, fb = list(a.array), list(b.array)
        want = all(any(_cycle_equal_exact(x, y) for y in fb) for x in fa) and all(any(_cycle_equal_exact(x, y) for y in fa) for x in fb)
        ctx.judge("eq", got == want, [a, b], what=f"== is {got}, exact comparison of the face sets says {want}", op="Polyhedron.__eq__", feat={"pdim": 3}, nontrivial=True)


def install(ctx):
    import geometer.shapes as Sh

    core.wrap_method_everywhere(Sh.PolytopeTensor, "area", post_area)  # PolygonTensor.area, Polyhedron.area and any override
    core.wrap_method(Sh.Polygon, "centroid", post_centroid)
    core.wrap_method(Sh.Simplex, "volume", post_volume)
    core.wrap_method(Sh.SegmentTensor, "length", post_length)
    core.wrap_method(Sh.SegmentTensor, "midpoint", post_midpoint)
    core.wrap_method(Sh.Triangle, "circumcenter", post_circumcenter)
    for n in ("center", "radius", "inradius"):
        core.wrap_method(Sh.RegularPolygon, n, post_regular)
    core.wrap_method(Sh.PolytopeTensor, "__eq__", post_eq)


# ---------------------------------------------------------------------------------
# workload
# ---------------------------------------------------------------------------------

def _try(f, *a):
    try:
        return f(*a)
    except Exception:
        return None


def _embed(rng, V2, dim):
    """Integer affine image of 2D vertices: in the plane (dim 2) or embedded into a generic plane of 3-space."""
    V2 = [np.array(v) for v in V2]
    if dim == 2:
        A = gen.invertible_int_matrix(rng, 2, 2)
        b = gen.coords(rng, (2,), 5, "int")
        return [A @ v + b for v in V2]
    for _ in range(50):
        e1, e2 = gen.nonzero_vec(rng, 3, 2), gen.nonzero_vec(rng, 3, 2)
        if np.any(np.cross(e1, e2) != 0):
            break
    o = gen.coords(rng, (3,), 4, "int")
    return [o + v[0] * e1 + v[1] * e2 for v in V2]


def _isometry(rng, dim):
    import geometer as g

    a = float(rng.uniform(-3, 3))
    v = gen.coords(rng, (dim,), 5, "int")
    t = g.translation(*v.tolist()) * (g.rotation(a) if dim == 2 else g.rotation(a, axis=g.Point(*gen.nonzero_vec(rng, 3, 3))))
    if rng.random() < 0.5:
        h = np.append(gen.nonzero_vec(rng, dim, 4), int(rng.integers(-5, 6)))
        t = t * g.reflection((g.Line if dim == 2 else g.Plane)(h))
    return t


def _cycle_matches(A, B):
    """The set of (rotation, reversed) under which the vertex arrays describe the same cycle (projectively, exact)."""
    n = len(A)
    a = [X.vec(v) for v in A]
    b = [X.vec(v) for v in B]
    out = set()
    for rev in (False, True):
        bb = b[::-1] if rev else b
        for r in range(n):
            if all(X.proj_equal(a[k], bb[(k + r) % n]) for k in range(n)):
                out.add((r, rev))
    return out


def g_polygons(ctx, rng, i):
    import geometer as g

    dim = 2 + i % 2
    name = ZOO_NAMES[(i // 2) % len(ZOO_NAMES)]
    V = _embed(rng, ZOO[name], dim)
    n = len(V)
    lam = [gen.pick(rng, [1, 1, 2, -1]) for _ in V]
    H = [np.append(v, 1) * l for v, l in zip(V, lam)]
    mk = g.Triangle if n == 3 else g.Polygon
    poly = _try(mk, *[g.Point(h) for h in H])
    if poly is None:
        return
    a0 = _try(lambda: poly.area)
    _try(lambda: poly.centroid)
    # every re-ordering of the cycle: equal polygon, same measures
    ks = range(2 * n) if n <= 6 else rng.choice(2 * n, size=6, replace=False)
    for k in ks:
        W = _variant(H, int(k))
        q = _try(mk, *[g.Point(h * gen.pick(rng, [1, -2])) for h in W])
        if q is None:
            continue
        _try(lambda: poly == q)
        if k % 3 == 0:
            a1 = _try(lambda: q.area)
            if a0 is not None and a1 is not None:
                ctx.judge("isometry", abs(float(a0) - float(a1)) <= 1e-8 * max(1.0, float(a0)), [H, int(k)], what=f"area changes under re-ordering of the vertex cycle: {a0} vs {a1}",
                          op="area∘reorder", nontrivial=True)
    # negative cases: two vertices swapped (same vertex set, different cycle), one vertex moved
    if n >= 4:
        W = list(H)
        W[0], W[2] = W[2], W[0]
        q = _try(mk, *[g.Point(h) for h in W]) if dim == 2 else None
        if q is not None:
            _try(lambda: poly == q)
    W = list(H)
    W[1] = W[1] + np.append((V[2] - V[1]) if n > 2 else np.ones(dim, dtype=int), 0) * W[1][-1]  # moved along an edge direction: stays planar
    q = _try(mk, *[g.Point(h) for h in W])
    if q is not None:
        _try(lambda: poly == q)
    # isometry invariance of area / centroid
    t = _isometry(rng, dim)
    img = _try(lambda: t * poly)
    if img is not None and a0 is not None:
        a2 = _try(lambda: img.area)
        if a2 is not None:
            ctx.judge("isometry", abs(float(a2) - float(a0)) <= 1e-6 * max(1.0, float(a0)), [H], what=f"area changes under an isometry: {a0} vs {a2}", op="area∘isometry", nontrivial=True)
    # edges / angles / collections
    _try(lambda: [e.length for e in poly.edges])
    _try(lambda: poly.edges.length)
    _try(lambda: poly.edges.midpoint)
    if n == 4:
        V2 = [v + (np.array([9, 1]) if dim == 2 else np.array([9, 1, 2])) for v in V]
        pc = _try(g.PolygonCollection, np.stack([np.array(H), np.array([np.append(v, 1) for v in V2])]))
        if pc is not None:
            _try(lambda: pc.area)
            _try(lambda: pc == pc)
            pc2 = _try(g.PolygonCollection, np.stack([np.array(_variant(H, 1)), np.array([np.append(v, 1) for v in V2])[[1, 2, 3, 0]]]))
            if pc2 is not None:
                _try(lambda: pc == pc2)
    # collections compared with the same polygons written with another start vertex / in the other orientation, and with the members in another order
    V2 = [v + (np.array([9, 1]) if dim == 2 else np.array([9, 1, 2])) for v in V]
    V3 = [2 * v - (np.array([3, 20]) if dim == 2 else np.array([3, 20, 1])) for v in V]
    members = [np.array(H), np.array([np.append(v, 1) for v in V2]), np.array([np.append(v, 1) for v in V3])][: 2 + i % 2]
    pc = _try(g.PolygonCollection, np.stack(members))
    if pc is not None:
        for k in (rng.choice(2 * n, size=3, replace=False) if n > 2 else range(2 * n)):
            idx = [j % n for j in _variant(list(range(n)), int(k))]
            other = _try(g.PolygonCollection, np.stack([m[idx] * gen.pick(rng, [1, -2]) for m in members]))
            if other is not None:
                _try(lambda: pc == other)
                _try(lambda: other == pc)
        # the same members in reverse order: a different collection
        _try(lambda: pc == g.PolygonCollection(np.stack(members[::-1])))
        _try(lambda: pc == g.PolygonCollection(np.stack([np.flip(m, axis=0) for m in members[::-1]])))
        # two collection axes
        pc22 = _try(g.PolygonCollection, np.stack([np.stack(members[:2]), np.stack(members[:2][::-1])]))
        if pc22 is not None:
            _try(lambda: pc22 == g.PolygonCollection(np.flip(pc22.array, axis=-2)))
            _try(lambda: pc22 == g.PolygonCollection(np.flip(pc22.array, axis=0)))
    # quadrilaterals that reach the class Rectangle through the library (elements of a collection, faces of a solid, images under a shear)
    if n == 4:
        shear = g.Transformation(np.array([[1, gen.pick(rng, [1, 2, -1]), 0], [0, 1, 0], [0, 0, 1]]) if dim == 2 else np.array([[1, 1, 0, 0], [0, 1, 0, 0], [0, 2, 1, 0], [0, 0, 0, 1]]))
        rect = _try(g.Rectangle, g.Point(*([0] * dim)), g.Point(*([3] + [0] * (dim - 1))), g.Point(*([3, 2] + [0] * (dim - 2))), g.Point(*([0, 2] + [0] * (dim - 2))))
        if rect is not None:
            sheared = _try(lambda: shear * rect)
            if sheared is not None:
                _try(lambda: sheared.area)
        if pc is not None:
            for el in (_try(lambda: pc[0]), _try(lambda: pc[1]), *( _try(lambda: list(pc)) or [])):
                if el is not None and hasattr(el, "area"):
                    _try(lambda: el.area)
    # segment collections: the same segments with their end points swapped / listed in the opposite order
    sa = np.stack([np.array(H[:2]), np.array([np.append(v, 1) for v in V2[:2]]), np.array([np.append(v, 1) for v in V3[:2]])])
    sc = _try(g.SegmentCollection, sa)
    if sc is not None:
        _try(lambda: sc == g.SegmentCollection(np.flip(sa, axis=-2)))
        _try(lambda: sc == g.SegmentCollection(sa[::-1]))
        _try(lambda: sc == g.SegmentCollection(-2 * sa))


def g_simplices(ctx, rng, i):
    import geometer as g

    dim = 2 + i % 2
    mode = ["int", "float"][(i // 2) % 2]
    P = [g.Point(gen.finite_point(rng, dim, 7, mode)) for _ in range(4)]
    # special positions: segments on a coordinate axis / coordinate hyperplane / through the origin, triangles with such an edge
    k_ = int(rng.integers(0, dim))
    e1, e2 = np.zeros(dim), np.zeros(dim)
    e1[k_], e2[k_] = float(rng.integers(-6, 0)), float(rng.integers(1, 7))
    th = gen.finite_point(rng, dim, 7, mode)[:-1].astype(float)
    th[(k_ + 1) % dim] = 0.0  # lies in a coordinate hyperplane
    if not np.any(th):
        th[k_] = 3.0
    for A_, B_ in ((e1, e2), (0 * e1, e2), (th, -2 * th), (th, th + e2), (e1 + np.eye(dim)[(k_ + 1) % dim] * 0, th * 0 + e2 * 2)):
        if np.allclose(A_, B_):
            continue
        sp = _try(g.Segment, g.Point(*A_), g.Point(*B_))
        if sp is not None:
            _try(lambda: sp.midpoint)
            _try(lambda: sp.length)
        C_ = np.roll(e2, 1) + (np.eye(dim)[-1] if dim == 3 else 0)
        if np.linalg.matrix_rank(np.stack([B_ - A_, C_ - A_])) == 2:
            tr = _try(g.Triangle, g.Point(*A_), g.Point(*B_), g.Point(*C_))
            if tr is not None:
                _try(lambda: tr.circumcenter)
                _try(lambda: tr.area)
                _try(lambda: tr.centroid)
    s = _try(g.Segment, P[0], P[1])
    if s is not None:
        _try(lambda: s.length)
        _try(lambda: s.midpoint)
        _try(lambda: s == g.Segment(P[1], P[0]))
        _try(lambda: s == g.Segment(P[0], P[2]))
    tri = _try(g.Triangle, P[0], P[1], P[2])
    if tri is not None:
        _try(lambda: tri.area)
        _try(lambda: tri.volume)
        _try(lambda: tri.circumcenter)
        _try(lambda: tri.centroid)
    if dim == 3:
        tet = _try(g.Simplex, *P)
        if tet is not None:
            _try(lambda: tet.volume)
            _try(lambda: tet.area)
            _try(lambda: tet == g.Simplex(P[1], P[0], P[3], P[2]))
    # integer homogeneous representatives with w != 1 (fractional Cartesian coordinates held in an integer array), simplices of every
    # dimension k <= dim
    W = [np.append(gen.coords(rng, (dim,), 9, "int"), int(gen.pick(rng, [2, 3, -2, 5, 1]))) for _ in range(4)]
    Q = [g.Point(w) for w in W]
    for k in range(2, dim + 2):
        sx = _try(g.Simplex, *Q[:k])
        if sx is not None:
            _try(lambda: sx.volume)
    t2 = _try(g.Triangle, *Q[:3])
    if t2 is not None:
        _try(lambda: t2.volume)
        _try(lambda: t2.area)
        _try(lambda: t2.centroid)
    s2 = _try(g.Segment, Q[0], Q[1])
    if s2 is not None:
        _try(lambda: s2.length)
        _try(lambda: s2.midpoint)
    # flat simplices (three collinear points, four coplanar points): the volume is 0, not nan
    if dim == 3:
        a_, b_ = (np.asarray(x.normalized_array, dtype=float)[:3] for x in P[:2])
        c_ = a_ + float(gen.pick(rng, [1.3, -0.5, 2.0])) * (b_ - a_)
        flat = _try(g.Simplex, g.Point(*a_), g.Point(*b_), g.Point(*c_))
        if flat is not None:
            _try(lambda: flat.volume)
        # a tetrahedron with a repeated vertex
        d_ = a_ + np.array([0, 0, 2.0]) if len(a_) == 3 else None
        if d_ is not None and np.linalg.matrix_rank(np.stack([b_ - a_, d_ - a_])) == 2:
            rep = _try(g.Simplex, g.Point(*a_), g.Point(*b_), g.Point(*d_), g.Point(*gen.pick(rng, [b_, d_, a_])))
            if rep is not None:
                _try(lambda: rep.volume)
    # collections of segments
    A = np.stack([gen.finite_point(rng, dim, 7, mode) for _ in range(3)])
    B = np.stack([gen.finite_point(rng, dim, 7, mode) for _ in range(3)])
    sc = _try(g.SegmentCollection, np.stack([A, B], axis=-2))
    if sc is not None:
        _try(lambda: sc.length)
        _try(lambda: sc.midpoint)


def g_solids(ctx, rng, i):
    import geometer as g

    o = gen.coords(rng, (3,), 4, "int").astype(float)
    s = rng.integers(1, 5, size=3).astype(float)
    if i % 2 == 0:
        ex, ey, ez = np.eye(3)
    else:
        # rotated box: orthonormal frame from a random rotation
        Rm = np.asarray(g.rotation(float(rng.uniform(-3, 3)), axis=g.Point(*gen.nonzero_vec(rng, 3, 3))).array)[:3, :3]
        ex, ey, ez = Rm.T
    cube = _try(g.Cuboid, g.Point(*o), g.Point(*(o + s[0] * ex)), g.Point(*(o + s[1] * ey)), g.Point(*(o + s[2] * ez)))
    if cube is None:
        return
    a = _try(lambda: cube.area)
    if a is not None:
        want = 2 * (s[0] * s[1] + s[1] * s[2] + s[0] * s[2])
        ctx.judge("polyhedron.area", abs(float(a) - want) <= 1e-7 * want, [o, s], what=f"Cuboid.area = {a}, 2(ab+bc+ca) = {want}", op="Cuboid.area", nontrivial=True)
    cnt = (len(cube.vertices), len(cube.edges), len(cube.faces))
    ctx.judge("polyhedron.area", cnt == (8, 12, 6), [o, s], what=f"cuboid has {cnt} vertices/edges/faces", op="Cuboid counts", nontrivial=True)
    _try(lambda: cube == cube)
    # faces in another order: equal
    perm = rng.permutation(6)
    other = _try(g.Polyhedron, *[g.Polygon(cube.array[k]) for k in perm]) if False else None
    # a frustum (square base, smaller square top): its side faces are trapezia; the area of every face object the solid hands out
    if i % 2 == 1:
        b_, t_, h_ = int(rng.integers(3, 6)), int(rng.integers(1, 3)), int(rng.integers(1, 4))
        oo = gen.coords(rng, (3,), 3, "int")
        base = [oo + np.array(v) for v in ([0, 0, 0], [b_, 0, 0], [b_, b_, 0], [0, b_, 0])]
        dd = (b_ - t_) // 2
        top = [oo + np.array(v) for v in ([dd, dd, h_], [dd + t_, dd, h_], [dd + t_, dd + t_, h_], [dd, dd + t_, h_])]
        P4 = lambda vs: g.Polygon(*[g.Point(*v.tolist()) for v in vs])  # noqa: E731
        fr = _try(lambda: g.Polyhedron(P4(base), P4(top), *[P4([base[j], base[(j + 1) % 4], top[(j + 1) % 4], top[j]]) for j in range(4)]))
        if fr is not None:
            _try(lambda: fr.area)
            for face in (_try(lambda: list(fr.faces)) or []):
                _try(lambda: face.area)
            f0 = _try(lambda: fr.faces[2])
            if f0 is not None:
                _try(lambda: f0.area)
    # regular polygons anywhere
    n = int(rng.integers(3, 9))
    r = float(gen.pick(rng, [1, 2, 0.5, 3.5]))
    if i % 3 == 0:
        c = gen.coords(rng, (2,), 5, "int").astype(float)
        rp = _try(g.RegularPolygon, g.Point(*c), r, n)
    else:
        c = gen.coords(rng, (3,), 4, "int").astype(float)
        rp = _try(lambda: g.RegularPolygon(g.Point(*c), r, n, axis=g.Point(*gen.nonzero_vec(rng, 3, 3))))
    if rp is not None:
        rad = _try(lambda: rp.radius)
        inr = _try(lambda: rp.inradius)
        cen = _try(lambda: rp.center)
        if rad is not None:
            ctx.judge("regular", abs(float(rad) - r) <= 1e-7 * max(1, r), [c, r, n], what=f"RegularPolygon.radius = {rad}, constructed with {r}", op="RegularPolygon.radius", nontrivial=True)
        if inr is not None:
            ctx.judge("regular", abs(float(inr) - r * math.cos(math.pi / n)) <= 1e-7 * max(1, r), [c, r, n], what=f"inradius = {inr}, r cos(pi/n) = {r * math.cos(math.pi / n)}",
                      op="RegularPolygon.inradius", nontrivial=True)
        if cen is not None:
            cc = _cartf(cen.array)
            ctx.judge("regular", cc is not None and np.allclose(cc, c, atol=1e-7 * max(1, np.abs(c).max())), [c, r, n], what=f"center = {cc}, constructed with {c}", op="RegularPolygon.center",
                      nontrivial=True)
        ar = _try(lambda: rp.area)
        if ar is not None:
            want = 0.5 * n * r * r * math.sin(2 * math.pi / n)
            ctx.judge("area", abs(float(ar) - want) <= 1e-7 * max(1, want), [c, r, n], what=f"regular polygon area = {ar}, n r^2 sin(2pi/n)/2 = {want}", op="RegularPolygon.area", nontrivial=True)
        # the measures of the polygon after it has been moved (an object returned by the library, queried before the move)
        off = gen.nonzero_vec(rng, len(c), 6).astype(float)
        for mv in (lambda: rp + g.Point(*off), lambda: g.translation(*off) * rp):
            mp = _try(mv)
            if mp is None or not hasattr(mp, "radius"):
                continue
            rad, inr, cen, ar = _try(lambda: mp.radius), _try(lambda: mp.inradius), _try(lambda: mp.center), _try(lambda: mp.area)
            cc = _cartf(cen.array) if cen is not None else None
            ok = (rad is not None and abs(float(rad) - r) <= 1e-7 * max(1, r) and inr is not None and abs(float(inr) - r * math.cos(math.pi / n)) <= 1e-7 * max(1, r)
                  and cc is not None and np.allclose(cc, c + off, atol=1e-6 * max(1, np.abs(c + off).max()))
                  and ar is not None and abs(float(ar) - 0.5 * n * r * r * math.sin(2 * math.pi / n)) <= 1e-7 * max(1, r * r))
            ctx.judge("isometry", bool(ok), [c, r, n, off], what=f"regular polygon moved by {off}: radius {rad}, inradius {inr}, center {cc}, area {ar}; expected radius {r}, center {c + off}",
                      op="RegularPolygon after translation", nontrivial=True)


GROUPS = [
    {"name": "polygons", "fn": g_polygons, "quick": 320, "thorough": 3200},
    {"name": "simplices", "fn": g_simplices, "quick": 400, "thorough": 4000},
    {"name": "solids", "fn": g_solids, "quick": 240, "thorough": 2400},
]
