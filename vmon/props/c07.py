"""C07 -- transformations preserve incidence and commute with join and meet."""
from __future__ import annotations

import numpy as np

from .. import core, gen, xform
from .. import exact as X
from .. import ref as R
from . import c04 as S
from . import c06

RULE = ("twin execution with a transformation instead of a scale: for random invertible integer matrices (shears, non-uniform scalings, "
        "genuinely projective maps -- not only isometries), rotations and translations t, and lattice / random configurations of points, "
        "lines, planes, quadrics and polytopes in 2D and 3D (incident and non-incident ones), op(x...) and op(t*x...) are recorded and "
        "compared: t*join(...) == join(t*...), t*meet(...) == meet(t*...), equal answers of contains / is_tangent / quadric.contains / "
        "is_coplanar / is_collinear, equal cross ratios, polytope vertices = images of the vertices in order. The basis-point transform "
        "SubspaceTensor._matrix_transform is compared with the exact action model on every call. "
        "Non-trivial = t is not a multiple of the identity; distinct by (matrix, configuration) digest."
        " Also 8x8 collections of transformations (batched inverse kernels) and transformations edited in place; complex (Gaussian integer) matrices on points, hyperplanes and their joins / meets; both sides of every commutation rule are evaluated inside the judgement (a side that raises while the other returns is a violation); pairs of 3D lines through a point in special position (coordinates adding up to zero, on an axis, at infinity); integer matrices with determinants of 10^3..10^5 on objects with decimal coordinates; 3D lines in covariant form (covariant_tensor) under transformations.")
SHARDS = (8, 16)
REQUIRED = ["commute.join", "commute.meet", "incidence", "crossratio", "matrix_transform", "polytope"]
ASSUMPTIONS = ["exact inverse for integer matrices; numpy trusted for floats",
               "the tangency of an image is judged only where the rounding error of h^T D h (64 eps |D| |h|^2 n^2) stays below the library's absolute tolerance 1e-8"]
EXHAUSTIVE = {"quick": [], "thorough": []}


def post_matrix_transform(ctx, call):
    """SubspaceTensor._matrix_transform / PointTensor._matrix_transform(m): rows of m applied to points (m may be rectangular:
    projection onto a basis); for square invertible m the result must be the image under m."""
    if call.exc is not None:
        return
    self, m = call.args[0], np.asarray(call.args[1])
    res = call.result
    if m.ndim < 2 or not R.finite(m) or not R.finite(self.array):
        return
    kind = R.kind_of(self)
    if kind == "point":
        fs = R.free_shape(self)
        try:
            cshape = np.broadcast_shapes(fs, m.shape[:-2])
        except ValueError:
            return
        for pos in R.positions(tuple(cshape), 8):
            if m.ndim > 2:
                bs = m.shape[:-2]
                pp = pos[len(cshape) - len(bs):]
                mm = m[tuple(0 if bs[j] == 1 else pp[j] for j in range(len(bs)))]
            else:
                mm = m
            x = R.element_array(self, pos, cshape)
            want = mm.astype(complex) @ x.astype(complex)
            got = np.asarray(res.array[pos] if cshape else res.array)
            if not np.any(np.abs(want) > 1e-12):
                continue
            r = X.proj_residual(got, want) if got.shape == want.shape else 1.0
            ctx.judge("matrix_transform", r <= 1e-9, [mm, x], what=f"point._matrix_transform differs from m @ x (residual {r:.3g})", op="_matrix_transform", nontrivial=True)
        return
    if kind in ("hyper", "line3"):
        if m.ndim != 2 or m.shape[0] != m.shape[1] or self.free_indices > 0 and False:
            # rectangular m: projection of a subspace into a coordinate system; judged only through its callers
            ctx.skip("matrix_transform", "rectangular / batched matrix (projection)")
            return
        Mi, cond = xform._inv(m)
        if Mi is None or cond > 1e6:
            ctx.skip("matrix_transform", "singular matrix")
            return
        fs = R.free_shape(self)
        k = self.free_indices
        cov = sorted(i - k for i in self._covariant_indices)
        con = sorted(i - k for i in self._contravariant_indices)
        for pos in R.positions(fs, 8):
            e = R.element_array(self, pos, fs)
            want, _ = xform.act(m, e, cov, con)
            rr = np.asarray(res.array[pos] if fs else res.array)
            # the result may use the other (covariant/contravariant) representation of a 3D line
            if rr.shape != want.shape:
                ctx.judge("matrix_transform", False, [m, e], what="shape differs", op="_matrix_transform")
                continue
            if res.tensor_shape != self.tensor_shape and kind == "line3":
                from .c02 import _dual

                want = _dual(want, None)
            r = X.proj_residual(rr, want)
            ctx.judge("matrix_transform", r <= 1e-8 * max(1, cond), [m, e], what=f"subspace._matrix_transform differs from the action model (residual {r:.3g})",
                      op="_matrix_transform", nontrivial=True)


def install(ctx):
    import geometer.point as P

    core.wrap_method(P.SubspaceTensor, "_matrix_transform", post_matrix_transform)
    core.wrap_method(P.PointTensor, "_matrix_transform", post_matrix_transform)
    core.wrap_method(P.LineTensor, "_matrix_transform", post_matrix_transform)


# ---------------------------------------------------------------------------------
# workload: recorded base/twin events compared offline
# ---------------------------------------------------------------------------------

def _proj_same(a, b, tol=1e-8):
    """Two library results (same class) projectively equal element by element."""
    if type(a) is not type(b) or a.array.shape != b.array.shape:
        return False, "class/shape differs"
    k = S.coll_axes(a)
    if hasattr(a, "pdim"):
        A, B = a.array.reshape(-1, a.shape[-1]), b.array.reshape(-1, b.shape[-1])
    else:
        n = int(np.prod(a.shape[:k], dtype=int))
        A, B = a.array.reshape(n, -1), b.array.reshape(n, -1)
    worst = max((X.proj_residual(x, y) for x, y in zip(A, B)), default=0.0)
    return worst <= tol, f"residual {worst:.3g}"


def _tmat(rng, n, kind):
    return c06._rand_matrix(rng, n, kind)


def _indep(*vs):
    return X.rank([X.vec(v) for v in vs]) == len(vs)


def _pts(rng, n, k, mode="int"):
    for _ in range(100):
        vs = [gen.nonzero_vec(rng, n, 5 if mode == "int" else 4, mode) for _ in range(k)]
        if _indep(*vs[: min(k, n)]) and all(_indep(*c) for c in __import__("itertools").combinations(vs, min(k, n))):
            return vs
    raise RuntimeError("no general position")


def g_commute(ctx, rng, i):
    import geometer as g

    dim = 2 + i % 2
    n = dim + 1
    kind = (i // 2) % 6
    t = g.Transformation(_tmat(rng, n, kind))
    cond = float(np.linalg.cond(np.asarray(t.array, dtype=float)))
    tol = 1e-9 * max(1.0, cond) ** 2
    mode = "int" if kind != 3 else "float"
    nt = X.proj_residual(np.asarray(t.array).ravel(), np.eye(n).ravel()) > 1e-9
    P = [g.Point(v) for v in _pts(rng, n, 4, mode)]
    H = [(g.Line if dim == 2 else g.Plane)(v) for v in _pts(rng, n, 3, mode)]

    def rec(monitor, what, lhs, rhs, ops):
        # both sides are evaluated here: a side that raises while the other one returns is a violation, two raising sides are a
        # degenerate configuration (judged by C02)
        vals, excs = [], []
        for side in (lhs, rhs):
            try:
                vals.append(side())
                excs.append(None)
            except Exception as e:  # noqa: BLE001
                vals.append(None)
                excs.append(e)
        if excs[0] is not None and excs[1] is not None:
            ctx.skip(monitor, "both sides raise (degenerate configuration)")
            return
        if (excs[0] is not None or excs[1] is not None) and cond > 1e3:
            # an ill-conditioned (nearly singular) matrix blows the image representatives up until the library's absolute dependence /
            # coplanarity tolerances decide inside rounding noise: not judged (the value comparison below has a cond**2 tolerance for the same reason)
            ctx.skip(monitor, "one side raises for an ill-conditioned transformation (condition number > 1e3)")
            return
        if excs[0] is not None or excs[1] is not None:
            e = excs[0] or excs[1]
            ctx.judge(monitor, False, ops, what=f"{what}: the {'left' if excs[0] is not None else 'right'} side raises {type(e).__name__}: {str(e)[:80]}, the other side returns",
                      op=what, nontrivial=nt, feat={"dim": dim, "tkind": kind, "exc": type(e).__name__})
            return
        ok, why = _proj_same(vals[0], vals[1], tol)
        ctx.judge(monitor, ok, ops, what=f"{what}: {why}", op=what, nontrivial=nt, feat={"dim": dim, "tkind": kind})

    # join / meet commute with t
    rec("commute.join", "t*join(p,q) vs join(t*p,t*q)", lambda: t * g.join(P[0], P[1]), lambda: g.join(t * P[0], t * P[1]), [t, P[0], P[1]])
    rec("commute.meet", "t*meet(g,h) vs meet(t*g,t*h)", lambda: t * g.meet(H[0], H[1]), lambda: g.meet(t * H[0], t * H[1]), [t, H[0], H[1]])
    if dim == 3:
        rec("commute.join", "t*join(p,q,r)", lambda: t * g.join(P[0], P[1], P[2]), lambda: g.join(t * P[0], t * P[1], t * P[2]), [t, P[0], P[1], P[2]])
        rec("commute.meet", "t*meet(e,f,h)", lambda: t * g.meet(H[0], H[1], H[2]), lambda: g.meet(t * H[0], t * H[1], t * H[2]), [t, *H])
        l = g.join(P[0], P[1])
        m = g.join(P[0], P[2])
        rec("commute.join", "t*join(l,p)", lambda: t * g.join(l, P[2]), lambda: g.join(t * l, t * P[2]), [t, l, P[2]])
        if any(abs(float(np.dot(np.asarray(P[j].array, dtype=float), np.asarray(H[0].array, dtype=float)))) > 1e-6 for j in (0, 1)):
            # (a line lying in the plane has no meet: the library legitimately raises, judged by C02)
            rec("commute.meet", "t*meet(l,e)", lambda: t * g.meet(l, H[0]), lambda: g.meet(t * l, t * H[0]), [t, l, H[0]])
        rec("commute.meet", "t*meet(l,m) coplanar lines", lambda: t * g.meet(l, m), lambda: g.meet(t * l, t * m), [t, l, m])
        rec("commute.join", "t*join(l,m) coplanar lines", lambda: t * g.join(l, m), lambda: g.join(t * l, t * m), [t, l, m])
        rec("commute.meet", "t*meet(e,f) -> line", lambda: t * g.meet(H[0], H[1]), lambda: g.meet(t * H[0], t * H[1]), [t, H[0], H[1]])
        # the same line in its covariant (dual) form: its image is the covariant form of the image
        rec("commute.join", "t*(l.covariant_tensor) vs (t*l).covariant_tensor", lambda: t * l.covariant_tensor, lambda: (t * l).covariant_tensor, [t, l])
        rec("commute.join", "(t*l.covariant_tensor).contravariant_tensor vs t*l", lambda: (t * l.covariant_tensor).contravariant_tensor, lambda: t * l, [t, l])
        # two lines through a common point in special position (coordinates adding up to zero, on an axis, at infinity)
        if mode == "int":
            cp = np.array(gen.pick(rng, [[1, -2, 0, 1], [-1, 0, 0, 1], [2, -4, 1, 1], [1, -1, 0, 0], [0, 0, 0, 1], [3, 0, 0, 1], [1, 1, -2, 0]]))
            for _ in range(20):
                d1, d2 = np.append(gen.nonzero_vec(rng, 3, 3), 0), np.append(gen.nonzero_vec(rng, 3, 3), 0)
                if X.rank([X.vec(cp), X.vec(d1), X.vec(d2)]) == 3:
                    break
            else:
                d1 = None
            if d1 is not None:
                cpt = g.Point(cp)
                q1 = cp + d1 if cp[3] else cp + np.array([0, 0, 0, 1]) + 0 * d1
                q2 = cp + d2 if cp[3] else cp + np.array([1, 2, 3, 1])
                try:
                    l1, l2 = g.join(cpt, g.Point(q1)), g.join(cpt, g.Point(q2))
                except Exception:
                    l1 = None
                if l1 is not None and X.rank([X.vec(cp), X.vec(q1), X.vec(q2)]) == 3:
                    rec("commute.join", "t*join(l,m) lines through a point in special position", lambda: t * g.join(l1, l2), lambda: g.join(t * l1, t * l2), [t, l1, l2])
                    rec("commute.meet", "t*meet(l,m) lines through a point in special position", lambda: t * g.meet(l1, l2), lambda: g.meet(t * l1, t * l2), [t, l1, l2])
    # integer matrices with a large determinant on objects with decimal coordinates (the scale of the matrix must cancel between the
    # action on points and the action on lines / planes)
    if i % 3 == 0:
        for _ in range(30):
            Mi = gen.coords(rng, (n, n), 9, "int")
            if abs(np.linalg.det(Mi)) > (300 if dim == 2 else 3000) and np.linalg.cond(Mi) < 40:
                break
        else:
            Mi = None
        if Mi is not None:
            ti = g.Transformation(Mi.astype(np.int64))
            dp = [np.append(gen.coords(rng, (dim,), 40, "int") / 10.0, 1.0) for _ in range(4)]
            if np.linalg.matrix_rank(np.stack(dp[:n])) == n and np.linalg.cond(np.stack(dp[:n])) < 1e3:
                D = [g.Point(v) for v in dp]
                ci = float(np.linalg.cond(Mi))
                l_ = g.join(D[0], D[1])
                on = g.Point(0.3 * dp[0] + 0.7 * dp[1])

                def inc(what, f_):
                    try:
                        ok = bool(np.all(f_()))
                        ctx.judge("incidence", ok, [ti, *D[:3]], what=f"integer matrix with determinant {np.linalg.det(Mi):.0f}: {what}", op="contains (integer matrix)", nontrivial=True,
                                  feat={"dim": dim, "tkind": "bigdet"})
                    except Exception as e:  # noqa: BLE001
                        ctx.judge("incidence", False, [ti, *D[:3]], what=f"integer matrix with determinant {np.linalg.det(Mi):.0f}: {what}: raised {type(e).__name__}: {str(e)[:60]}",
                                  op="contains (integer matrix)", nontrivial=True, feat={"dim": dim, "tkind": "bigdet", "exc": type(e).__name__})

                inc("the image of a line does not contain the image of one of its points", lambda: (ti * l_).contains(ti * on))
                if dim == 3:
                    e_ = g.join(D[0], D[1], D[2])
                    m_ = g.join(D[0], D[2])
                    inc("the image of a plane does not contain the image of one of its lines", lambda: (ti * e_).contains(ti * l_))
                    inc("the images of two meeting lines do not meet in the image of their common point", lambda: g.meet(ti * l_, ti * m_) == ti * D[0])
                    inc("the images of two meeting lines do not span the image of their plane", lambda: g.join(ti * l_, ti * m_) == ti * e_)
    # collections
    pc = g.PointCollection(np.stack([p.array for p in P[:3]]))
    qc = g.PointCollection(np.stack([p.array for p in (P[1], P[2], P[3])]))
    rec("commute.join", "t*join(collections)", lambda: t * g.join(pc, qc), lambda: g.join(t * pc, t * qc), [t, pc, qc])

    # complex projective maps (Gaussian integer matrices): the same commutation rules
    if i % 4 == 1:
        for _ in range(20):
            Mc = gen.coords(rng, (n, n), 2, "int") + 1j * gen.coords(rng, (n, n), 2, "int")
            if abs(np.linalg.det(Mc)) > 0.5 and np.linalg.cond(Mc) < 50:
                break
        else:
            Mc = None
        if Mc is not None:
            tcx = g.Transformation(Mc)
            cc = float(np.linalg.cond(Mc))

            def recc(monitor, what, lhs, rhs, ops):
                ok, why = _proj_same(lhs, rhs, 1e-9 * cc ** 2)
                ctx.judge(monitor, ok, ops, what=f"{what} (complex matrix): {why}", op=what, nontrivial=True, feat={"dim": dim, "tkind": "complex"})

            try:
                recc("commute.join", "t*join(p,q) vs join(t*p,t*q)", tcx * g.join(P[0], P[1]), g.join(tcx * P[0], tcx * P[1]), [tcx, P[0], P[1]])
                recc("commute.meet", "t*meet(g,h) vs meet(t*g,t*h)", tcx * g.meet(H[0], H[1]), g.meet(tcx * H[0], tcx * H[1]), [tcx, H[0], H[1]])
                if dim == 3:
                    recc("commute.join", "t*join(p,q,r)", tcx * g.join(P[0], P[1], P[2]), g.join(tcx * P[0], tcx * P[1], tcx * P[2]), [tcx, *P[:3]])
                    recc("commute.meet", "t*meet(e,f,h)", tcx * g.meet(H[0], H[1], H[2]), g.meet(tcx * H[0], tcx * H[1], tcx * H[2]), [tcx, *H])
                hyper = g.join(P[0], P[1]) if dim == 2 else g.join(P[0], P[1], P[2])
                inc = bool(np.all((tcx * hyper).contains(tcx * P[0])))
                ctx.judge("incidence", inc, [tcx, P[0], P[1]], what="complex matrix: the image of a hyperplane does not contain the image of one of its points", op="contains (complex matrix)",
                          nontrivial=True, feat={"dim": dim, "tkind": "complex"})
            except Exception as e:
                ctx.judge("commute.join", False, [tcx], what=f"complex matrix: raised {type(e).__name__}: {e}", op="complex transformation", feat={"exc": type(e).__name__})

    # a large collection of transformations with two collection axes (the batched inverse kernels) on single objects
    if i % 6 == 0:
        ms = np.stack([c06._rand_matrix(rng, n, j % 4) for j in range(64)]).astype(float).reshape(8, 8, n, n)
        tb = g.TransformationCollection(ms)
        cb = float(np.max(np.linalg.cond(ms)))
        if cb < 1e3:
            # (operands as collections of the same shape: a transformation collection on a single object is open finding F32 of C04)
            A8, B8 = (g.PointCollection(np.broadcast_to(np.asarray(x.array), (8, 8, n)).copy()) for x in (P[0], P[1]))
            lhs, rhs = tb * g.join(A8, B8), g.join(tb * A8, tb * B8)
            ok, why = _proj_same(lhs, rhs, 1e-9 * cb ** 2)
            ctx.judge("commute.join", ok, [tb, P[0], P[1]], what=f"(8,8) transformations: t*join(p,q) vs join(t*p,t*q): {why}", op="t*join (collection of transformations)", nontrivial=True,
                      feat={"dim": dim, "tkind": "batch"})
            inc = np.asarray(lhs.contains(tb * A8))
            ctx.judge("incidence", bool(np.all(inc)), [tb, P[0], P[1]], what=f"(8,8) transformations: t*join(p,q) contains t*p at {int(inc.sum())} of {inc.size} positions",
                      op="contains (collection of transformations)", nontrivial=True, feat={"dim": dim, "tkind": "batch"})

    # incidence: contains answers are preserved (incident and non-incident configurations)
    def same_bool(monitor, what, a, b, ops):
        ctx.judge(monitor, bool(np.array_equal(np.asarray(a), np.asarray(b))), ops, what=f"{what}: {a!r} vs {b!r}", op=what, nontrivial=nt, feat={"dim": dim, "tkind": kind})

    if mode == "int":
        l = g.join(P[0], P[1])
        on = g.Point(2 * P[0].array - 3 * P[1].array)
        if i % 3 == 0:
            # history: the same single line and point are first mapped by a collection of transformations (values judged by C04 / C06), then used again
            try:
                tcs = g.TransformationCollection(np.stack([c06._rand_matrix(rng, n, j % 4) for j in range(int(rng.integers(1, 4)))]).astype(float))
                before = t * l
                tcs * l
                tcs * P[0]
                tcs.apply(H[0])
                after = t * l
                okh, why = _proj_same(before, after, 1e-9)
                if okh:
                    okh = bool(l.contains(P[0])) and bool(after.contains(t * P[0])) and bool(np.all(np.asarray((tcs * l).contains(tcs * P[0]))))
                    why = "incidence of the line and its point lost"
            except Exception as e:
                okh, why = False, f"raised {type(e).__name__}: {e}"
            ctx.judge("incidence", bool(okh), [t, l, P[0]], what=f"after the line and the point were mapped by a TransformationCollection: {why}", op="history: collection of transformations, then single",
                      nontrivial=True, feat={"dim": dim, "tkind": "history"})
        for q, tag in ((on, "incident"), (P[2], "non-incident"), (P[0], "incident")):
            same_bool("incidence", f"line.contains({tag})", l.contains(q), (t * l).contains(t * q), [t, l, q])
        same_bool("incidence", "hyperplane.contains", H[0].contains(P[0]), (t * H[0]).contains(t * P[0]), [t, H[0], P[0]])
        e = g.join(P[0], P[1], P[2]) if dim == 3 else l
        inpl = g.Point(P[0].array + P[1].array + (P[2].array if dim == 3 else 0))
        same_bool("incidence", "plane.contains(incident)", e.contains(inpl), (t * e).contains(t * inpl), [t, e, inpl])
        same_bool("incidence", "contains(collection)", e.contains(pc), (t * e).contains(t * pc), [t, e, pc])
        if dim == 3:
            same_bool("incidence", "plane.contains(line)", e.contains(l), (t * e).contains(t * l), [t, e, l])
            l2 = g.join(P[0], P[3])
            same_bool("incidence", "plane.contains(line) non-incident", e.contains(l2), (t * e).contains(t * l2), [t, e, l2])
            same_bool("incidence", "is_coplanar(4 points)", g.is_coplanar(*P), g.is_coplanar(*[t * p for p in P]), [t, *P])
            same_bool("incidence", "is_coplanar(coplanar)", g.is_coplanar(P[0], P[1], P[2], inpl), g.is_coplanar(t * P[0], t * P[1], t * P[2], t * inpl), [t, *P[:3], inpl])
            same_bool("incidence", "line.is_coplanar(line)", l.is_coplanar(l2), (t * l).is_coplanar(t * l2), [t, l, l2])
            l3 = g.join(P[2], P[3])
            same_bool("incidence", "line.is_coplanar(skew line)", l.is_coplanar(l3), (t * l).is_coplanar(t * l3), [t, l, l3])
        else:
            same_bool("incidence", "is_collinear(3 points)", g.is_collinear(*P[:3]), g.is_collinear(*[t * p for p in P[:3]]), [t, *P[:3]])
            same_bool("incidence", "is_collinear(collinear)", g.is_collinear(P[0], P[1], on), g.is_collinear(t * P[0], t * P[1], t * on), [t, P[0], P[1], on])
            same_bool("incidence", "is_concurrent", g.is_concurrent(*H), g.is_concurrent(*[t * h for h in H]), [t, *H])
        # quadrics: point on quadric / tangent hyperplane
        m = gen.coords(rng, (n, n), 3, "int")
        A = m + m.T + np.diag(np.arange(2, n + 2) * np.array([1, -1, 1, -1][:n]))
        if abs(np.linalg.det(A)) > 0.5:
            Q = g.Quadric(A)
            # a point of the quadric: solve along a line through two lattice points (rational point exists if we construct it): use x with x^T A x = 0 by construction
            x0 = gen.nonzero_vec(rng, n, 3)
            # make x0 lie on the quadric by adjusting the matrix: A' = A - (x0^T A x0)/(x0^T D x0) D  for D = e_k e_k^T with x0_k != 0
            kx = int(np.flatnonzero(x0)[0])
            val = int(x0 @ A @ x0)
            if val % int(x0[kx] ** 2) == 0:
                A2 = A.copy()
                A2[kx, kx] -= val // int(x0[kx] ** 2)
                if abs(np.linalg.det(A2)) > 0.5:
                    Q2 = g.Quadric(A2)
                    xp = g.Point(x0)
                    same_bool("incidence", "quadric.contains(point on it)", Q2.contains(xp), (t * Q2).contains(t * xp), [t, Q2, xp])
                    same_bool("incidence", "quadric.contains(point off it)", Q2.contains(P[0]), (t * Q2).contains(t * P[0]), [t, Q2, P[0]])
                    h = Q2.tangent(xp) if dim == 3 else g.Line(A2 @ x0)
                    if cond < 1e4:
                        # the library's tangency test compares h^T D h with the absolute tolerance 1e-8: it is judged only where the rounding
                        # error of that quantity (eps * |D| * |h|^2 for the image) stays below the tolerance
                        try:
                            tq_, th_ = t * Q2, t * h
                            D_ = np.linalg.inv(np.asarray(tq_.array, dtype=float))
                            noise = 64 * np.finfo(float).eps * float(np.abs(D_).max()) * float(np.abs(np.asarray(th_.array, dtype=float)).max()) ** 2 * n * n
                        except Exception:
                            noise = 0.0
                        if noise < 1e-8:
                            same_bool("incidence", "is_tangent(tangent hyperplane)", Q2.is_tangent(h), (t * Q2).is_tangent(t * h), [t, Q2, h])
                        else:
                            ctx.skip("incidence", "tangency of the image decided inside the rounding noise of the absolute tolerance (magnitude of the image representatives)")
                        same_bool("incidence", "is_tangent(other hyperplane)", Q2.is_tangent(H[0]), (t * Q2).is_tangent(t * H[0]), [t, Q2, H[0]])
            same_bool("incidence", "quadric.contains(generic)", Q.contains(pc), (t * Q).contains(t * pc), [t, Q, pc])

    # cross ratios are unchanged
    a, b = P[0].array, P[1].array
    lam = [gen.pick(rng, [2, -1, 3, -2, 5]) for _ in range(2)]
    cpts = [g.Point(a), g.Point(b), g.Point(a + lam[0] * b), g.Point(lam[1] * a + b)]
    try:
        cr0 = g.crossratio(*cpts)
        cr1 = g.crossratio(*[t * p for p in cpts])
        ok = bool(np.isclose(cr0, cr1, rtol=1e-6 * max(1, cond), atol=1e-9))
        ctx.judge("crossratio", ok, [t, *cpts], what=f"cross ratio of collinear points changes under t: {cr0} vs {cr1}", op="crossratio", nontrivial=nt)
    except Exception as e:
        ctx.judge("crossratio", False, [t, *cpts], what=f"crossratio raised {type(e).__name__}: {e}", op="crossratio", feat={"exc": type(e).__name__, "dim": dim})
    # pencils of lines: vertex finite / at infinity (parallel lines), and a map that sends a finite vertex to infinity
    if mode == "int":
        V = [P[2].array, np.append(gen.nonzero_vec(rng, dim, 3), 0)]
        rowk = np.asarray(t.array)[-1]
        if abs(np.dot(rowk, np.asarray(P[2].array, dtype=float))) < 1e-9:
            V.append(P[2].array)  # (t itself sends this vertex to infinity)
        for v in V:
            try:
                q1, q2 = P[0].array, P[1].array
                if X.rank([X.vec(v), X.vec(q1), X.vec(q2)]) < 3:
                    continue
                ends = [q1, q2, q1 + lam[0] * q2, lam[1] * q1 + q2]
                pencil = [g.Line(g.Point(v), g.Point(e_)) for e_ in ends]
                cr0 = g.crossratio(*pencil)
                cr1 = g.crossratio(*[t * l_ for l_ in pencil])
                crp = g.crossratio(*[g.Point(e_) for e_ in ends])
                ok = bool(np.isclose(cr0, cr1, rtol=1e-6 * max(1, cond), atol=1e-9) and np.isclose(cr0, crp, rtol=1e-6, atol=1e-9))
                ctx.judge("crossratio", ok, [t, v, *ends], what=f"cross ratio of a pencil of lines: {cr0}, of its image {cr1}, of the points it projects {crp}", op="crossratio(lines)", nontrivial=nt,
                          feat={"dim": dim, "vertex_at_infinity": bool(v[-1] == 0)})
            except Exception as e:
                ctx.judge("crossratio", False, [t, v], what=f"crossratio of a pencil of lines raised {type(e).__name__}: {e}", op="crossratio(lines)", feat={"exc": type(e).__name__, "dim": dim})
    if dim == 2:
        o = P[2]
        try:
            cr0 = g.crossratio(*P[:2], P[3], g.Point(P[0].array + P[1].array + P[3].array), o)
            cr1 = g.crossratio(t * P[0], t * P[1], t * P[3], t * g.Point(P[0].array + P[1].array + P[3].array), t * o)
            if not (np.isfinite(cr0) and 1e-6 < abs(cr0) < 1e6):
                raise ZeroDivisionError
            ctx.judge("crossratio", bool(np.isclose(cr0, cr1, rtol=1e-6 * max(1, cond), atol=1e-9)), [t, *P], what=f"cross ratio seen from a point changes under t: {cr0} vs {cr1}",
                      op="crossratio(from_point)", nontrivial=nt)
        except ZeroDivisionError:
            ctx.skip("crossratio", "degenerate configuration seen from the point (zero bracket)")
        except Exception as e:
            ctx.judge("crossratio", False, [t, *P], what=f"crossratio(from_point) raised {type(e).__name__}: {e}", op="crossratio")

    # polytopes: vertices are the images of the vertices, in order
    if dim == 2:
        polys = [g.Segment(P[0], P[1]), g.Triangle(P[0], P[1], P[2]), g.Polygon(g.Point(0, 0), g.Point(4, 0), g.Point(4, 4), g.Point(2, 1), g.Point(0, 4))]
    else:
        inpl = g.Point(P[0].array + P[1].array + P[2].array)
        polys = [g.Segment(P[0], P[1]), g.Triangle(P[0], P[1], P[2]), g.Polygon(P[0], P[1], inpl, P[2]),
                 g.Cuboid(g.Point(0, 0, 0), g.Point(2, 0, 0), g.Point(0, 1, 0), g.Point(0, 0, 3))]
    for poly in polys:
        if np.any(np.isclose(poly.array[..., -1], 0)):
            continue
        c06.check_image(ctx, "polytope", t, poly, t * poly, "t*polytope")

    # the same relations after the matrix of t has been edited in place (documented mutator __setitem__): nothing stale may survive
    if mode == "int":
        t[0, n - 1] = t.array[0, n - 1] + 3
        if abs(np.linalg.det(np.asarray(t.array, dtype=float))) > 0.5:
            tol = 1e-9 * max(1.0, float(np.linalg.cond(np.asarray(t.array, dtype=float)))) ** 2
            rec("commute.join", "after in-place edit of t: t*join(p,q) vs join(t*p,t*q)", t * g.join(P[0], P[1]), g.join(t * P[0], t * P[1]), [t, P[0], P[1]])
            rec("commute.meet", "after in-place edit of t: t*meet(g,h) vs meet(t*g,t*h)", t * g.meet(H[0], H[1]), g.meet(t * H[0], t * H[1]), [t, H[0], H[1]])
            l2 = g.join(P[0], P[1])
            same_bool("incidence", "after in-place edit of t: line.contains(incident)", l2.contains(P[0]), (t * l2).contains(t * P[0]), [t, l2, P[0]])


GROUPS = [
    {"name": "commute", "fn": g_commute, "quick": 720, "thorough": 7200},
]
