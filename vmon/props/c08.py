"""C08 -- transformation constructors realise their Euclidean / projective definition."""
from __future__ import annotations

import itertools

import numpy as np

from .. import core, gen
from .. import exact as X
from .. import ref as R

RULE = ("postconditions on translation, rotation, scaling, reflection, affine_transform, identity, Transformation.from_points and "
        "from_points_and_conics, evaluated on every call (workload, library-internal calls from Cone/RegularPolygon/__add__, repository tests): "
        "translation matrix = identity with the offset in the last column and p -> p+v on sample points; rotation(a) = [[c,-s],[s,c]]; "
        "rotation(a, axis) (axis a finite point or a direction at infinity): finite, orthogonal, det 1, fixes the axis, trace 1+2cos a, rotation(a)rotation(b) = rotation(a+b); scaling diagonal; "
        "reflection: involution, fixes points of the mirror, orthogonal linear part, agrees with mirror(); from_points maps each of the n+2 "
        "source points to its target; from_points_and_conics maps the three points and the conic. Workload: offsets as numbers and as Point, "
        "angles in (-7,7), axes in all octants, mirrors vertical / through the origin / generic / far away, random lattice frames in general "
        "position in 2D and 3D, circles and ellipses. Non-trivial = parameters not all 0/1; distinct by parameter digest. Point collections with axes of length 1 ((1,), (1,4), (3,1), (1,1)): the image has the shape of the collection. from_points with targets in representatives with an imaginary common factor, as typed and as mirror() returns them.")
SHARDS = (4, 16)
REQUIRED = ["translation", "rotation2d", "rotation3d", "scaling", "reflection", "affine_transform", "identity", "from_points", "from_points_and_conics", "rotation.additive"]
ASSUMPTIONS = ["the handedness of rotation(a, axis) is not fixed by the statement and not judged"]
EXHAUSTIVE = {"quick": [], "thorough": []}


def _mat(t):
    return np.asarray(t.array)


def post_translation(ctx, call):
    if call.exc is not None:
        return
    from geometer.base import Tensor

    coords = call.args
    if len(coords) == 1 and isinstance(coords[0], Tensor):
        a = np.asarray(coords[0].array, dtype=complex)
        if a.ndim != 1 or abs(a[-1]) < 1e-12:
            return
        v = a[:-1] / a[-1]
    elif len(coords) == 1 and np.ndim(coords[0]) == 1:
        a = np.asarray(coords[0], dtype=complex)
        if abs(a[-1]) < 1e-12:
            return
        v = a[:-1] / a[-1]  # a single array is read as homogeneous coordinates of the offset point
    else:
        v = np.asarray(coords, dtype=complex)
    n = len(v)
    want = np.eye(n + 1, dtype=complex)
    want[:-1, -1] = v
    m = _mat(call.result)
    ok = m.shape == want.shape and np.allclose(m, want, rtol=1e-12, atol=1e-12)
    ctx.judge("translation", bool(ok), [np.real_if_close(v)], what="translation matrix is not the identity with the offset as last column", op="translation", observed=m,
              nontrivial=bool(np.any(v != 0)))


def post_rotation(ctx, call):
    if call.exc is not None:
        return
    angle = call.args[0] if call.args else call.kwargs.get("angle")
    axis = call.args[1] if len(call.args) > 1 else call.kwargs.get("axis")
    m = np.asarray(_mat(call.result), dtype=float)
    a = float(angle)
    if axis is None:
        want = np.array([[np.cos(a), -np.sin(a), 0], [np.sin(a), np.cos(a), 0], [0, 0, 1]])
        ok = m.shape == (3, 3) and np.allclose(m, want, atol=1e-12)
        ctx.judge("rotation2d", bool(ok), [a], what="rotation(a) is not the counter-clockwise rotation matrix [[c,-s],[s,c]]", op="rotation", observed=m, nontrivial=a != 0)
        return
    ax = np.asarray(axis.array, dtype=float)
    if ax.shape != (4,):
        return
    # an axis given as a direction (a point at infinity) is the axis through the origin with that direction
    u = ax[:-1] / ax[-1] if abs(ax[-1]) >= 1e-12 else ax[:-1].copy()
    nu = np.linalg.norm(u)
    if nu < 1e-12:
        return
    u = u / nu
    Rm = m[:3, :3]
    why = None
    if m.shape != (4, 4) or not np.all(np.isfinite(m)):
        why = "matrix is not a finite 4x4 matrix"
    elif not np.allclose(m[3], [0, 0, 0, 1], atol=1e-12) or not np.allclose(m[:3, 3], 0, atol=1e-12):
        why = "not a linear map embedded affinely"
    elif not np.allclose(Rm.T @ Rm, np.eye(3), atol=1e-10):
        why = "linear part is not orthogonal"
    elif abs(np.linalg.det(Rm) - 1) > 1e-10:
        why = f"determinant {np.linalg.det(Rm):.6g} != 1"
    elif not np.allclose(Rm @ u, u, atol=1e-10):
        why = "the axis is not fixed"
    elif abs(np.trace(Rm) - (1 + 2 * np.cos(a))) > 1e-10:
        why = f"trace {np.trace(Rm):.6g} != 1 + 2 cos(a): does not turn by |a|"
    ctx.judge("rotation3d", why is None, [a, ax], what=f"rotation(a, axis): {why}", op="rotation", observed=m, nontrivial=a != 0)


def post_scaling(ctx, call):
    if call.exc is not None:
        return
    f = np.asarray(call.args, dtype=complex)
    if f.ndim != 1:
        return
    want = np.diag(np.append(f, 1))
    m = _mat(call.result)
    ok = m.shape == want.shape and np.allclose(m, want, atol=1e-12)
    ctx.judge("scaling", bool(ok), [np.real_if_close(f)], what="scaling matrix is not diag(factors, 1)", op="scaling", observed=m, nontrivial=bool(np.any(f != 1)))


def post_affine(ctx, call):
    if call.exc is not None:
        return
    matrix = call.args[0] if call.args else call.kwargs.get("matrix")
    offset = call.args[1] if len(call.args) > 1 else call.kwargs.get("offset", 0)
    m = _mat(call.result)
    n = m.shape[0] - 1
    A = np.eye(n) if matrix is None else np.asarray(matrix)
    want = np.eye(n + 1, dtype=complex)
    try:
        want[:-1, :-1] = A
        want[:-1, -1] = offset
    except ValueError:
        ctx.judge("affine_transform", False, [A, offset], what="result has the wrong size", op="affine_transform")
        return
    ok = np.allclose(m, want, rtol=1e-12, atol=1e-12)
    ctx.judge("affine_transform", bool(ok), [A, np.asarray(offset)], what="affine embedding differs from [[A, b], [0, 1]]", op="affine_transform", observed=m,
              nontrivial=matrix is not None)


def post_identity(ctx, call):
    if call.exc is not None:
        return
    dim = call.args[0]
    cd = call.args[1] if len(call.args) > 1 else call.kwargs.get("collection_dims")
    m = _mat(call.result)
    shape = (tuple(cd) if cd is not None else ()) + (dim + 1, dim + 1)
    ok = m.shape == shape and np.array_equal(m, np.broadcast_to(np.eye(dim + 1), shape)) and call.result.tensor_shape == (1, 1)
    ctx.judge("identity", bool(ok), [dim, list(cd) if cd is not None else None], what="identity is not a (collection of) identity matrices with index types (1,1)", op="identity", nontrivial=True)


def post_reflection(ctx, call):
    if call.exc is not None:
        return
    axis = call.args[0]
    h = np.asarray(axis.array)
    if h.ndim != 1 or np.iscomplexobj(h) and np.any(h.imag != 0):
        return
    h = np.real(h).astype(float)
    n = len(h)
    m = np.asarray(_mat(call.result), dtype=float)
    nv = h[:-1]
    if np.linalg.norm(nv) < 1e-9 * max(1.0, abs(h[-1])):
        ok = np.allclose(m / m[-1, -1], np.eye(n), atol=1e-10)
        ctx.judge("reflection", bool(ok), [h], what="reflection at the hyperplane at infinity is not the identity", op="reflection", nontrivial=False)
        return
    u = nv / np.linalg.norm(nv)
    d = h[-1] / np.linalg.norm(nv)
    want = np.eye(n)
    want[:-1, :-1] = np.eye(n - 1) - 2 * np.outer(u, u)
    want[:-1, -1] = -2 * d * u
    why = None
    mm = m / m[-1, -1] if abs(m[-1, -1]) > 1e-12 else m
    scale = max(1.0, abs(d)) ** 2
    if not np.allclose(mm @ mm, np.eye(n), atol=1e-9 * scale):
        why = "not an involution"
    elif not np.allclose(mm[:-1, :-1].T @ mm[:-1, :-1], np.eye(n - 1), atol=1e-10):
        why = "linear part not orthogonal"
    elif not np.allclose(mm, want, atol=1e-9 * scale):
        why = "differs from the Householder reflection x -> x - 2(u.x + d)u (does not fix the mirror pointwise)"
    ctx.judge("reflection", why is None, [h], what=f"reflection: {why}", op="reflection", observed=m, expected=want, nontrivial=True)


def post_from_points(ctx, call):
    if call.exc is not None:
        return
    pairs = call.args[1:] if isinstance(call.args[0], type) else call.args
    try:
        src = [np.asarray(p[0].array) for p in pairs]
        dst = [np.asarray(p[1].array) for p in pairs]
    except Exception:
        return
    n = len(src[0])
    if len(src) != n + 1:
        return
    # only frames in exact general position (both) are in the domain
    for frame in (src, dst):
        if not all(R.is_integral(v, 10 ** 6) for v in frame):
            gp = all(R.sv_gap([frame[k] for k in c]) > 1e-6 for c in itertools.combinations(range(n + 1), n))
        else:
            gp = all(X.rank([X.vec(frame[k]) for k in c]) == n for c in itertools.combinations(range(n + 1), n))
        if not gp:
            ctx.skip("from_points", "frame not in general position")
            return
    m = np.asarray(_mat(call.result), dtype=complex)
    if not np.all(np.isfinite(m)):
        ctx.judge("from_points", False, [src, dst], what="the matrix of the transformation has non-finite entries", op="from_points", observed=m, nontrivial=True)
        return
    cond = np.linalg.cond(m)
    worst = max(X.proj_residual(m @ s.astype(complex), d) for s, d in zip(src, dst))
    ctx.judge("from_points", worst <= 1e-9 * max(1.0, cond), [src, dst], what=f"a source point is not mapped to its target (residual {worst:.3g})", op="from_points", observed=m, nontrivial=True)


def post_from_points_and_conics(ctx, call):
    if call.exc is not None:
        return
    args = call.args[1:] if isinstance(call.args[0], type) else call.args
    pts1, pts2, c1, c2 = args
    m = np.asarray(_mat(call.result), dtype=complex)
    if not np.all(np.isfinite(m)):
        ctx.judge("from_points_and_conics", False, [[p.array for p in pts1], [p.array for p in pts2], c1, c2], what="the matrix of the transformation has non-finite entries",
                  op="from_points_and_conics", nontrivial=True)
        return
    cond = np.linalg.cond(m)
    if cond > 1e8:
        ctx.skip("from_points_and_conics", "ill-conditioned result")
        return
    worst = max(X.proj_residual(m @ np.asarray(a.array, dtype=complex), np.asarray(b.array)) for a, b in zip(pts1, pts2))
    mi = np.linalg.inv(m)
    img = mi.T @ np.asarray(c1.array, dtype=complex) @ mi
    rc = X.proj_residual(img.ravel(), np.asarray(c2.array).ravel())
    ok = worst <= 1e-7 * max(1, cond) and rc <= 1e-7 * max(1, cond) ** 2
    ctx.judge("from_points_and_conics", ok, [[p.array for p in pts1], [p.array for p in pts2], c1, c2],
              what=f"points not mapped (residual {worst:.3g}) or conic not mapped onto the target conic (residual {rc:.3g})", op="from_points_and_conics", nontrivial=True)


def install(ctx):
    import geometer.transformation as T

    core.wrap_function(T, "translation", post_translation)
    core.wrap_function(T, "rotation", post_rotation)
    core.wrap_function(T, "scaling", post_scaling)
    core.wrap_function(T, "affine_transform", post_affine)
    core.wrap_function(T, "identity", post_identity)
    core.wrap_function(T, "reflection", post_reflection)
    core.wrap_method(T.Transformation, "from_points", post_from_points)
    core.wrap_method(T.Transformation, "from_points_and_conics", post_from_points_and_conics)


# ---------------------------------------------------------------------------------
# workload
# ---------------------------------------------------------------------------------

def _cart(p):
    a = np.asarray(p.array, dtype=complex)
    return a[:-1] / a[-1]


def g_euclid(ctx, rng, i):
    import geometer as g

    dim = 2 + i % 2
    mode = ["int", "float"][(i // 2) % 2]
    v = gen.coords(rng, (dim,), 9, mode)
    t = g.translation(*v.tolist())
    g.translation(g.Point(*v.tolist()))
    g.translation(g.Point(np.append(v * 2, 2)))
    # coordinates as numpy scalars of several types (what unpacking an array yields)
    for cast in (np.int64, np.int32, np.float32, np.float64):
        try:
            vv = np.asarray(v).astype(cast)
            g.translation(*vv)
            g.translation(g.Point(*vv))
            g.scaling(*np.where(vv == 0, cast(2), vv))
        except Exception as e:
            ctx.judge("translation", False, [v, str(cast)], what=f"translation / scaling with {cast.__name__} scalar arguments raised {type(e).__name__}: {e}", op="translation(numpy scalars)")
    # p -> p + v on sample points (through apply)
    for _ in range(3):
        p = gen.coords(rng, (dim,), 9, mode)
        w = gen.pick(rng, [1, 2, -3])
        q = t * g.Point(np.append(p * w, w))
        ok = np.allclose(_cart(q), p + v, atol=1e-9)
        ctx.judge("translation", bool(ok), [v, p], what="translation(v) does not map p to p+v", op="translation*p", nontrivial=True)
    # ... and on collections of 5 ... 200 points at once (the action on a collection is the action on its elements)
    # (collection shapes with axes of length 1 included: the image has the shape of the collection)
    for cs in ((1,), (1, 4), (3, 1), (1, 1), (2, 3)):
        ptsc = gen.coords(rng, cs + (dim,), 9, mode).astype(float)
        try:
            imgc = t * g.PointCollection(np.concatenate([ptsc, np.ones(cs + (1,))], axis=-1))
            ok = type(imgc).__name__ == "PointCollection" and imgc.shape == cs + (dim + 1,) and np.allclose(np.asarray(imgc.normalized_array, dtype=complex)[..., :-1], ptsc + np.asarray(v, dtype=float), atol=1e-9)
            why = f"{type(imgc).__name__} of shape {imgc.shape}"
        except Exception as e:  # noqa: BLE001
            ok, why = False, f"raised {type(e).__name__}: {str(e)[:80]}"
        ctx.judge("translation", bool(ok), [v, list(cs)], what=f"translation(v) on a point collection of shape {cs}: the image ({why}) is not the collection of the points p+v", op="translation*collection",
                  nontrivial=True, feat={"cshape": list(cs)})
    for kk in (5, 63, 64, 200)[i % 2::2]:
        pts = gen.coords(rng, (kk, dim), 9, mode).astype(float)
        img = t * g.PointCollection(np.c_[pts, np.ones(kk)])
        got = np.asarray(img.normalized_array, dtype=complex)[..., :-1]
        ctx.judge("translation", bool(img.shape == (kk, dim + 1) and np.allclose(got, pts + np.asarray(v, dtype=float), atol=1e-9)), [v, kk], what=f"translation(v) does not map the {kk} points of a collection to p+v", op="translation*collection",
                  nontrivial=True)
        a_ = float(rng.uniform(-3, 3))
        if dim == 2:
            r_ = g.rotation(a_) * g.PointCollection(np.c_[pts, np.ones(kk)])
            want = pts @ np.array([[np.cos(a_), -np.sin(a_)], [np.sin(a_), np.cos(a_)]]).T
            ctx.judge("rotation2d", bool(np.allclose(np.asarray(r_.normalized_array, dtype=complex)[..., :-1], want, atol=1e-9)), [a_, kk],
                      what=f"rotation(a) does not turn the {kk} points of a collection counter-clockwise by a", op="rotation*collection", nontrivial=True)
    f = gen.coords(rng, (dim,), 5, mode)
    f = np.where(f == 0, 2, f)
    s = g.scaling(*f.tolist())
    p = gen.coords(rng, (dim,), 9, mode)
    ok = np.allclose(_cart(s * g.Point(*p.tolist())), f * p, atol=1e-9)
    ctx.judge("scaling", bool(ok), [f, p], what="scaling does not multiply the coordinates", op="scaling*p", nontrivial=True)
    g.identity(dim)
    g.identity(dim, (2,))
    g.identity(dim, (2, 3))
    A = gen.coords(rng, (dim, dim), 4, mode)
    b = gen.coords(rng, (dim,), 4, mode)
    g.affine_transform(A, b)
    g.affine_transform(A)
    g.affine_transform(offset=b)
    a = float(rng.uniform(-7, 7))
    b2 = float(rng.uniform(-7, 7))
    if dim == 2:
        ra, rb, rab = g.rotation(a), g.rotation(b2), g.rotation(a + b2)
        g.rotation(np.float64(a))
        g.rotation(0.0)
        g.rotation(np.pi / 2)
    else:
        ax = gen.nonzero_vec(rng, 3, 4, mode)
        if i % 5 == 0:
            ax = np.array([[1, 0, 0], [0, 1, 0], [0, 0, 1], [0, 0, -1], [-1, 0, 0]][(i // 5) % 5])
        w = gen.pick(rng, [1, 2, -1])
        axis = g.Point(np.append(ax * w, w))
        if i % 4 == 3:
            axis = g.Point(np.append(ax * w, 0))  # the axis as a direction
        ra, rb, rab = g.rotation(a, axis=axis), g.rotation(b2, axis=axis), g.rotation(a + b2, axis=axis)
        g.rotation(0.0, axis=axis)
    prod = np.asarray((ra * rb).array, dtype=float)
    ok = X.proj_residual(prod.ravel(), np.asarray(rab.array, dtype=float).ravel()) < 1e-10
    ctx.judge("rotation.additive", ok, [a, b2, dim], what="rotation(a)*rotation(b) != rotation(a+b)", op="rotation*rotation", nontrivial=True)
    inv = np.asarray((ra * g.rotation(-a) if dim == 2 else ra * g.rotation(-a, axis=axis)).array, dtype=float)
    ctx.judge("rotation.additive", X.proj_residual(inv.ravel(), np.eye(dim + 1).ravel()) < 1e-10, [a, dim], what="rotation(a)*rotation(-a) != identity", op="rotation*rotation", nontrivial=True)


def g_reflection(ctx, rng, i):
    import geometer as g

    dim = 2 + i % 2
    kind = (i // 2) % 5
    if kind == 0:
        h = np.append(gen.nonzero_vec(rng, dim, 5), int(rng.integers(-9, 10)))
    elif kind == 1:
        h = np.append(gen.nonzero_vec(rng, dim, 5), 0)  # through the origin
    elif kind == 2:
        h = np.zeros(dim + 1)
        h[0] = 1
        h[-1] = -int(rng.integers(-5, 6))  # vertical: x = const
    elif kind == 3:
        h = np.append(gen.nonzero_vec(rng, dim, 3), int(rng.integers(200, 900)))  # far from the origin
    else:
        h = np.append(gen.nonzero_vec(rng, dim, 5, "float"), rng.uniform(-5, 5))
    lam = gen.pick(rng, [1, -2, 0.5, 3])
    H = (g.Line if dim == 2 else g.Plane)(h * lam)
    t = g.reflection(H)
    # agrees with mirror for points off the mirror, fixes exact points of the mirror
    for _ in range(3):
        p = gen.coords(rng, (dim,), 6, "int")
        # the point in an arbitrary homogeneous representative (as join/meet would return it)
        P = g.Point(np.append(p, 1) * gen.pick(rng, [1, 1, 2, -1, -3, 0.5]))
        on = abs(np.dot(h[:-1], p) + h[-1]) < 1e-12
        img = t * P
        if on:
            ok = np.allclose(_cart(img), p, atol=1e-8)
            ctx.judge("reflection", bool(ok), [h, p], what="a point of the mirror is not fixed", op="reflection*p", nontrivial=True)
        else:
            try:
                mp = H.mirror(P)
            except Exception as e:
                ctx.judge("reflection", False, [h, p], what=f"mirror raised {type(e).__name__}", op="mirror")
                continue
            ok = np.allclose(_cart(img), _cart(mp), atol=1e-7 * max(1.0, float(np.abs(_cart(img)).max())))
            ctx.judge("reflection", bool(ok), [h, p], what=f"reflection(h)*p = {_cart(img)} differs from h.mirror(p) = {_cart(mp)}", op="reflection vs mirror", nontrivial=True)
    if dim == 2 and kind == 0:
        g.reflection(g.infty)


def _frame(rng, n, mode="int"):
    for _ in range(300):
        vs = [gen.nonzero_vec(rng, n, 4, mode) for _ in range(n + 1)]
        if all(X.rank([X.vec(vs[k]) for k in c]) == n for c in itertools.combinations(range(n + 1), n)):
            return vs
    raise RuntimeError("no frame")


def g_from_points(ctx, rng, i):
    import geometer as g

    dim = 2 + i % 2
    n = dim + 1
    mode = ["int", "int", "float"][(i // 2) % 3]
    src, dst = _frame(rng, n, mode), _frame(rng, n, mode)
    lam = [gen.pick(rng, [1, -1, 2, 0.5]) for _ in range(2 * (n + 1))]
    pairs = [(g.Point(s * lam[2 * k]), g.Point(d * lam[2 * k + 1])) for k, (s, d) in enumerate(zip(src, dst))]
    t = g.Transformation.from_points(*pairs)
    # frames in special position: the origin (or a point of a coordinate axis) among the sources, its target at infinity (and vice versa)
    o = np.zeros(n, dtype=int)
    o[-1] = 1
    inf = np.append(gen.nonzero_vec(rng, n - 1, 3), 0)
    for s0, d0 in ((o, inf), (inf, o), (o, o)):
        src2, dst2 = [s0] + [v for v in src[1:]], [d0] + [v for v in dst[1:]]
        gp = all(X.rank([X.vec(fr[k]) for k in c]) == n for fr in (src2, dst2) for c in itertools.combinations(range(n + 1), n)) if mode == "int" else False
        if gp:
            try:
                g.Transformation.from_points(*[(g.Point(a), g.Point(b)) for a, b in zip(src2, dst2)])
            except Exception as e:
                ctx.judge("from_points", False, [src2, dst2], what=f"from_points raised {type(e).__name__}: {e} for frames in general position", op="from_points")
    # real points in representatives with a complex (imaginary) common factor: as typed, and as the library's own mirror / center return them
    if mode == "int":
        facs = [gen.pick(rng, [1, 1j, -2j, 1 + 1j]) for _ in range(n + 1)]
        facs[-1] = gen.pick(rng, [1j, -3j])
        try:
            g.Transformation.from_points(*[(g.Point(s), g.Point(d * f_)) for s, d, f_ in zip(src, dst, facs)])
        except Exception as e:  # noqa: BLE001
            ctx.judge("from_points", False, [src, dst], what=f"from_points raised {type(e).__name__}: {str(e)[:80]} for targets with a complex common factor", op="from_points", feat={"exc": type(e).__name__})
        hyp = (g.Line if dim == 2 else g.Plane)(np.append(gen.nonzero_vec(rng, dim, 3), int(rng.integers(-4, 5))))
        try:
            mirrored = [hyp.mirror(g.Point(d)) for d in dst]
            msrc = [np.asarray(m_.array) for m_ in mirrored]
            gp2 = all(np.linalg.matrix_rank(np.stack([msrc[k] for k in c])) == n for c in itertools.combinations(range(n + 1), n))
        except Exception:
            gp2 = False
        if gp2:
            try:
                g.Transformation.from_points(*[(g.Point(s), m_) for s, m_ in zip(src, mirrored)])
                g.Transformation.from_points(*[(m_, g.Point(s)) for s, m_ in zip(src, mirrored)])
            except Exception as e:  # noqa: BLE001
                ctx.judge("from_points", False, [src, msrc], what=f"from_points raised {type(e).__name__}: {str(e)[:80]} for targets returned by mirror()", op="from_points", feat={"exc": type(e).__name__})
    # the same frame onto itself gives the identity
    t2 = g.Transformation.from_points(*[(p, p) for p, _ in pairs])
    ok = X.proj_residual(np.asarray(t2.array).ravel(), np.eye(n).ravel()) < 1e-8
    ctx.judge("from_points", ok, [src], what="from_points of a frame onto itself is not the identity", op="from_points", nontrivial=True)


def _circle_points(c, r, ts):
    return [np.array([c[0] + r * (1 - t * t) / (1 + t * t), c[1] + r * 2 * t / (1 + t * t), 1.0]) for t in ts]


def g_conics(ctx, rng, i):
    import geometer as g

    c1 = gen.coords(rng, (2,), 4, "int").astype(float)
    c2 = gen.coords(rng, (2,), 4, "int").astype(float)
    r1, r2 = float(rng.integers(1, 5)), float(rng.integers(1, 5))
    ts1 = rng.choice([0.0, 0.5, 1.0, 2.0, -1.0, -0.5, 3.0], size=3, replace=False)
    ts2 = rng.choice([0.0, 0.5, 1.0, 2.0, -1.0, -0.5, 3.0], size=3, replace=False)
    if i % 2 == 0:
        k1, k2 = g.Circle(g.Point(*c1), r1), g.Circle(g.Point(*c2), r2)
        p1 = [g.Point(v) for v in _circle_points(c1, r1, ts1)]
        p2 = [g.Point(v) for v in _circle_points(c2, r2, ts2)]
    else:
        k1, k2 = g.Ellipse(g.Point(*c1), r1, r1 + 1), g.Circle(g.Point(*c2), r2)
        p1 = [g.Point(np.array([c1[0] + (v[0] - c1[0]), c1[1] + (v[1] - c1[1]) * (r1 + 1) / r1, 1.0])) for v in _circle_points(c1, r1, ts1)]
        p2 = [g.Point(v) for v in _circle_points(c2, r2, ts2)]
    try:
        g.Transformation.from_points_and_conics(p1, p2, k1, k2)
    except Exception as e:
        ctx.judge("from_points_and_conics", False, [c1, r1, c2, r2, ts1, ts2], what=f"raised {type(e).__name__}: {e}", op="from_points_and_conics", feat={"exc": type(e).__name__})
    # hyperbolas and parabolas with one of the three points at infinity (in any of the three positions, on either side)
    hyp = g.Conic(np.diag([1.0, -1.0, -1.0]))  # x^2 - y^2 = 1
    par = g.Conic(np.array([[1.0, 0, 0], [0, 0, -0.5], [0, -0.5, 0]]))  # y = x^2
    hp = lambda u: g.Point(float(np.cosh(u)), float(np.sinh(u)))  # noqa: E731
    pp = lambda x: g.Point(float(x), float(x * x))  # noqa: E731
    us = [float(x) for x in rng.choice([-1.0, -0.5, 0.25, 0.75, 1.25], size=3, replace=False)]
    finite_h, finite_p = [hp(u) for u in us], [pp(u) for u in us]
    inf_h, inf_p = g.Point(np.array([1.0, gen.pick(rng, [1.0, -1.0]), 0.0]) * gen.pick(rng, [1, -2, 0.5])), g.Point(np.array([0.0, 1.0, 0.0]) * gen.pick(rng, [1, -3]))
    pos = int(rng.integers(0, 3))
    with_inf_h = list(finite_h)
    with_inf_h[pos] = inf_h
    with_inf_p = list(finite_p)
    with_inf_p[pos] = inf_p
    for a_, b_, ca, cb in ((with_inf_h, p2, hyp, k2), (p1, with_inf_h, k1, hyp), (with_inf_p, finite_h, par, hyp), (finite_p, with_inf_p, par, par)):
        try:
            g.Transformation.from_points_and_conics(a_, b_, ca, cb)
        except Exception as e:
            ctx.judge("from_points_and_conics", False, [[x.array for x in a_], [x.array for x in b_]], what=f"a point at infinity among the points: raised {type(e).__name__}: {e}",
                      op="from_points_and_conics", feat={"exc": type(e).__name__, "at_infinity": True})


GROUPS = [
    {"name": "euclid", "fn": g_euclid, "quick": 600, "thorough": 6000},
    {"name": "reflection", "fn": g_reflection, "quick": 400, "thorough": 4000},
    {"name": "from_points", "fn": g_from_points, "quick": 360, "thorough": 3600},
    {"name": "conics", "fn": g_conics, "quick": 120, "thorough": 1200},
]
