"""C02 -- degenerate join/meet inputs raise the documented error, never a wrong answer."""
from __future__ import annotations

import numpy as np

from .. import core, gen
from .. import exact as X
from .. import ref as R
from . import jm

RULE = ("cases: every ordered pair of {-2..2}^3 (zero vector included) as 2D points and lines, every ordered pair of {-1,0,1}^4 "
        "(zero included) as 3D points and planes, degenerate configurations by construction for every arity/kind (coincident points, "
        "point on line, line in plane, equal planes/lines, three collinear points, three planes through a line, zero vector, skew lines) "
        "with random rational/dyadic multipliers, collections with random dependent subsets (mask check), mixed coplanar/skew collections; "
        "non-trivial = at least one operand position is degenerate or the call is a collection call; distinct by operand digest."
        " Tensor.is_zero (the predicate behind every dependence verdict) is compared on every call with the definition 'all tensor entries within the tolerance'; large collections (400-1200 positions, one and two axes); function and method forms; the same object passed twice; histories on 3D line objects; three-argument calls in every way three vectors can be dependent (third in the span of the others, first two proportional, last two proportional, all proportional), mixed inside one collection; the module constants infty / infty_plane themselves as operands against their own representatives.")
SHARDS = (8, 16)
REQUIRED = ["jm.raise", "is_coplanar", "is_zero"]
ASSUMPTIONS = ["Fraction arithmetic is exact", "numpy correct", "wrappers behaviour-preserving"]
EXHAUSTIVE = {"quick": ["all 15625 ordered pairs of {-2..2}^3 incl. zero (2D points / lines)", "all 6561 ordered pairs of {-1,0,1}^4 incl. zero (3D points / planes)"],
              "thorough": ["all 15625 ordered pairs of {-2..2}^3 incl. zero (2D points / lines)", "all 6561 ordered pairs of {-1,0,1}^4 incl. zero (3D points / planes)"]}


def post_jm(ctx, call):
    from geometer.exceptions import LinearDependenceError, NotCoplanar

    a = jm.analyse(call, maxpos=256)
    if not a.supported:
        ctx.skip("jm.raise", a.why)
        return
    if not a.check:
        ctx.skip("jm.raise", "check_dependence=False (internal caller handles degenerate positions)")
        return
    total = int(np.prod(a.fshape, dtype=int)) if a.fshape else 1
    complete = len(a.pos) == total
    st = a.status
    if "bad" in st:
        ctx.skip("jm.raise", "operand outside the domain / ambiguous float configuration")
        return
    if not a.integral:
        # floating point: judge clear cases only
        mags = [float(np.abs(t.array).max()) for t in a.args]
        if min(mags) < 0.1 or max(mags) > 1e4:
            ctx.skip("jm.raise", "float operands of extreme magnitude")
            return
        if any(s == "ind" and g < 1e-3 for s, g in zip(st, a.gap)):
            ctx.skip("jm.raise", "float configuration close to degenerate")
            return
    ops = list(a.args)
    feat = {"op": a.op, "kinds": a.kinds, "n": a.n, "fshape": list(a.fshape), "status": sorted(set(st))}
    nontriv = any(s != "ind" for s in st) or len(a.fshape) > 0
    ctx.note(("status", "+".join(sorted(set(st))) + ("/coll" if a.fshape else "/single")))
    exc = call.exc
    any_skew = "skew" in st
    any_dep = "dep" in st
    if any_skew:
        ok = isinstance(exc, NotCoplanar)
        ctx.judge("jm.raise", ok, ops, what=f"skew 3D lines: expected NotCoplanar, got {_desc(exc)}", feat=feat, op=a.op, nontrivial=nontriv)
        return
    if any_dep:
        if not isinstance(exc, LinearDependenceError):
            ctx.judge("jm.raise", False, ops, what=f"dependent arguments: expected LinearDependenceError, got {_desc(exc)}", feat=feat, op=a.op,
                      nontrivial=nontriv, observed=call.result if exc is None else None)
            return
        dv = np.asarray(exc.dependent_values)
        if not a.fshape:
            ok = dv.shape == () and bool(dv)
            ctx.judge("jm.raise", ok, ops, what=f"dependent_values of a single-object error is {dv!r}, expected True", feat=feat, op=a.op, nontrivial=nontriv)
            return
        if dv.shape != tuple(a.fshape):
            ctx.judge("jm.raise", False, ops, what=f"dependent_values shape {dv.shape} != collection shape {tuple(a.fshape)}", feat=feat, op=a.op, nontrivial=nontriv)
            return
        bad = [(p, s, bool(dv[p])) for p, s in zip(a.pos, st) if bool(dv[p]) != (s == "dep")]
        ctx.judge("jm.raise", not bad, ops, what=f"dependent_values mask wrong at positions {bad[:4]}", feat=feat, op=a.op, nontrivial=nontriv,
                  expected=[s == "dep" for s in st], observed=dv)
        return
    # every sampled position independent
    if exc is not None:
        if complete:
            ctx.judge("jm.raise", False, ops, what=f"general position: raised {_desc(exc)}", feat=feat, op=a.op, nontrivial=nontriv)
        else:
            ctx.skip("jm.raise", "raised; positions only sampled")
        return
    ctx.judge("jm.raise", True, ops, feat=feat, op=a.op, nontrivial=nontriv)


def _desc(exc):
    return "a normal return" if exc is None else f"{type(exc).__name__}({exc})"


def post_is_coplanar(ctx, call):
    if call.exc is not None:
        return
    self, other = call.args[0], call.args[1]
    if self.dim != 3 or R.kind_of(self) != "line3" or R.kind_of(other) != "line3":
        ctx.skip("is_coplanar", "not two 3D lines")
        return
    if not (R.is_dyadic(self.array, 40, 2 ** 20) and R.is_dyadic(other.array, 40, 2 ** 20)):
        ctx.skip("is_coplanar", "float operands")
        return
    fshape = R.broadcast_free(self, other)
    res = np.asarray(call.result)
    if res.shape != tuple(fshape):
        ctx.judge("is_coplanar", False, [self, other], what=f"result shape {res.shape} != {tuple(fshape)}", op="Line.is_coplanar")
        return
    for pos in R.positions(fshape, 32):
        ea, eb = R.element_array(self, pos, fshape), R.element_array(other, pos, fshape)
        sa, sb = R.sub_from_array("line3", ea, self.tensor_shape), R.sub_from_array("line3", eb, other.tensor_shape)
        if sa is None or sb is None:
            ctx.skip("is_coplanar", "not a line")
            continue
        want = X.rank(sa.B + sb.B) <= 3
        if not want:
            # clearly skew? the library tests |double contraction| <= 1e-8 on the given representatives
            val = abs(np.einsum("ij,ij->", _dual(ea, self.tensor_shape), eb if other.tensor_shape == (0, 2) else _dual(_dual(eb, (2, 0)), (0, 2))))
            if val < 1e-5:
                ctx.skip("is_coplanar", "within the tolerance band")
                continue
        got = bool(res[pos]) if fshape else bool(res)
        ctx.judge("is_coplanar", got == want, [ea, eb], what=f"is_coplanar returned {got}, exact answer {want}", op="Line.is_coplanar")


def _dual(m, ts):
    """Other Pluecker matrix of a 3D line (exchange of the 6 coordinates), independent of the library's epsilon code."""
    m = np.asarray(m, dtype=float if np.isrealobj(m) else complex)
    d = np.zeros_like(m)
    pairs = {(0, 1): (2, 3), (0, 2): (3, 1), (0, 3): (1, 2), (1, 2): (0, 3), (1, 3): (2, 0), (2, 3): (0, 1)}
    for (i, j), (k, l) in pairs.items():
        d[i, j] = m[k, l]
        d[j, i] = -m[k, l]
    return d


def post_is_zero(ctx, call):
    """Tensor.is_zero decides every dependence verdict and mask: it must be 'all tensor entries are zero within the tolerance' at each
    collection position, for every size of the collection (judged on every call, the library's internal ones included)."""
    if call.exc is not None:
        return
    self = call.args[0]
    tol = call.args[1] if len(call.args) > 1 else call.kwargs.get("tol", 1e-8)
    arr = np.asarray(self.array)
    if arr.dtype.kind not in "iufc" or not np.all(np.isfinite(arr)):
        return
    axes = tuple(sorted(set(self._covariant_indices) | set(self._contravariant_indices)))
    mag = np.abs(arr).max(axis=axes) if axes else np.abs(arr)
    want = mag <= tol
    band = (mag > 0.5 * tol) & (mag < 2 * tol)  # entries within a factor 2 of the tolerance are not judged (isclose adds a relative term)
    got = np.asarray(call.result)
    if got.shape != want.shape:
        ctx.judge("is_zero", False, [arr], what=f"is_zero has shape {got.shape}, the collection has shape {want.shape}", op="Tensor.is_zero", nontrivial=True)
        return
    bad = (got != want) & ~band
    ctx.judge("is_zero", not bool(np.any(bad)), [arr[tuple(np.argwhere(bad)[0])] if np.any(bad) and bad.ndim else arr], op="Tensor.is_zero",
              what=f"is_zero wrong at {int(np.count_nonzero(bad))} of {bad.size} positions (first: {tuple(int(x) for x in np.argwhere(bad)[0]) if np.any(bad) else ()})",
              nontrivial=bool(arr.size > 4), feat={"size": int(arr.size)})


def install(ctx):
    import geometer.base as B
    import geometer.point as P

    core.wrap_method(B.Tensor, "is_zero", post_is_zero)

    core.wrap_function(P, "_join_meet_duality", post_jm)
    jm.install_public(post_jm)
    core.wrap_method(P.LineTensor, "is_coplanar", post_is_coplanar)


# ---------------------------------------------------------------------------------
# workload
# ---------------------------------------------------------------------------------

def G():
    import geometer

    return geometer


def _try(fn, *a, **k):
    try:
        return fn(*a, **k)
    except Exception as e:  # judged by the monitor
        return e


L3Z = gen.lattice(3, 2, zero=True)
L4Z = gen.lattice(4, 1, zero=True)


def g_lattice2d(ctx, rng, i):
    g = G()
    n = len(L3Z)
    p, q = L3Z[i // n], L3Z[i % n]
    _try(g.join, g.Point(p), g.Point(q))
    _try(g.meet, g.Line(p), g.Line(q))


def g_lattice3d(ctx, rng, i):
    g = G()
    n = len(L4Z)
    p, q = L4Z[i // n], L4Z[i % n]
    _try(g.join, g.Point(p), g.Point(q))
    _try(g.meet, g.Plane(p), g.Plane(q))
    r = L4Z[(i * 31 + 7) % n]
    _try(g.join, g.Point(p), g.Point(q), g.Point(r))
    _try(g.meet, g.Plane(p), g.Plane(q), g.Plane(r))


def _mult(rng, mode):
    if mode == "int":
        return int(gen.pick(rng, [-3, -2, -1, 2, 3, 5]))
    return float(gen.pick(rng, [-3.0, -0.5, 0.25, 2.0, 1.5, -0.125]))


def _vec(rng, n, mode):
    if mode == "int":
        return gen.nonzero_vec(rng, n, 9)
    if mode == "dyadic":
        return gen.nonzero_vec(rng, n, 64, "dyadic")
    return gen.nonzero_vec(rng, n, 9, "float")


def _indep(*vs):
    return X.rank([X.vec(v) for v in vs]) == len(vs)


def _gen_indep(rng, n, k, mode):
    for _ in range(50):
        vs = [_vec(rng, n, mode) for _ in range(k)]
        if _indep(*vs) and (mode != "float" or R.sv_gap(vs) > 1e-2):
            return vs
    raise RuntimeError("no independent configuration")


def _line3(g, p, q):
    """3D line through two independent points without going through the monitored dispatcher's checks."""
    return g.Line(g.Point(p), g.Point(q))


def _degenerate_triple(rng, p, q, r, a, b):
    """One of the ways three vectors can be dependent: the third in the span of the others, two of them proportional, all proportional."""
    v = int(rng.integers(0, 6))
    if v <= 2:
        return p, q, a * p + b * q
    if v == 3:
        return p, a * p, r
    if v == 4:
        return p, q, b * q
    return p, a * p, b * p


def degenerate_case(g, rng, kind, mode, degenerate):
    """Returns (fn, args) for one configuration of the given kind; degenerate=True builds the measure-zero case."""
    a, b = _mult(rng, mode), _mult(rng, mode)
    if kind == 0:  # two points 2D
        p, q = _gen_indep(rng, 3, 2, mode)
        if degenerate:
            q = a * p
        return g.join, [g.Point(p), g.Point(q)]
    if kind == 1:  # two lines 2D
        p, q = _gen_indep(rng, 3, 2, mode)
        if degenerate:
            q = a * p
        return g.meet, [g.Line(p), g.Line(q)]
    if kind == 2:  # two points 3D
        p, q = _gen_indep(rng, 4, 2, mode)
        if degenerate:
            q = a * p
        return g.join, [g.Point(p), g.Point(q)]
    if kind == 3:  # three points 3D: collinear
        p, q, r = _gen_indep(rng, 4, 3, mode)
        if degenerate:
            p, q, r = _degenerate_triple(rng, p, q, r, a, b)
        return g.join, [g.Point(p), g.Point(q), g.Point(r)]
    if kind == 4:  # point + line 3D: point on the line
        p, q, r = _gen_indep(rng, 4, 3, mode)
        if degenerate:
            r = a * p + b * q
        args = [_line3(g, p, q), g.Point(r)]
        if rng.integers(0, 2):
            args.reverse()
        return g.join, args
    if kind == 5:  # two planes: equal
        e, f = _gen_indep(rng, 4, 2, mode)
        if degenerate:
            f = a * e
        return g.meet, [g.Plane(e), g.Plane(f)]
    if kind == 6:  # three planes through a line
        e, f, h = _gen_indep(rng, 4, 3, mode)
        if degenerate:
            e, f, h = _degenerate_triple(rng, e, f, h, a, b)
        return g.meet, [g.Plane(e), g.Plane(f), g.Plane(h)]
    if kind == 7:  # plane + line: line in the plane
        p, q, r = _gen_indep(rng, 4, 3, mode)
        l = _line3(g, p, q)
        if degenerate:
            e = g.Plane(g.Point(p), g.Point(q), g.Point(r))  # contains l
        else:
            e = g.Plane(_gen_indep(rng, 4, 1, mode)[0])
            if e.contains(g.Point(p)) and e.contains(g.Point(q)):
                return None
        args = [e, l]
        if rng.integers(0, 2):
            args.reverse()
        return g.meet, args
    if kind == 8:  # two lines 3D: equal (degenerate) / coplanar distinct (general)
        p, q, r = _gen_indep(rng, 4, 3, mode)
        l = _line3(g, p, q)
        if degenerate:
            m = _line3(g, a * p + b * q, a * p + (b + 11) * q)
        else:
            m = _line3(g, p, r)
        return (g.meet if rng.integers(0, 2) else g.join), [l, m]
    if kind == 9:  # two skew lines
        p, q, r, s = _gen_indep(rng, 4, 4, mode)
        l, m = _line3(g, p, q), _line3(g, r, s)
        if not degenerate:
            m = _line3(g, p, r)
        return (g.meet if rng.integers(0, 2) else g.join), [l, m]
    if kind == 10:  # zero vector operand
        p, q = _gen_indep(rng, 4, 2, mode)
        z = np.zeros(4, dtype=p.dtype)
        if degenerate:
            return (g.join, [g.Point(p), g.Point(z)]) if rng.integers(0, 2) else (g.meet, [g.Plane(z), g.Plane(q)])
        return g.join, [g.Point(p), g.Point(q)]
    raise ValueError(kind)


NK = 11


def g_single(ctx, rng, i):
    g = G()
    if i % 8 == 7:
        jm.line_histories(g, rng, gen, X)
    kind = i % NK
    mode = ["int", "dyadic", "int", "float"][(i // NK) % 4]
    deg = (i // (NK * 4)) % 2 == 0
    c = degenerate_case(g, rng, kind, mode, deg)
    if c is None:
        return
    fn, args = c
    _try(fn, *args)
    if kind in (8, 9):
        _try(args[0].is_coplanar, args[1])
    _method_form(g, fn, args)
    # the very same object passed twice is the plainest coincidence (function and method forms)
    x = args[int(rng.integers(len(args)))]
    if type(x).__name__ in ("Point", "Line", "Plane"):
        f2 = g.join if type(x).__name__ == "Point" else g.meet
        _try(f2, x, x)
        _try(getattr(x, "join" if f2 is g.join else "meet"), x)
        if x.dim == 3 and len(args) >= 2 and type(args[0]) is type(args[1]) is type(x) and type(x).__name__ != "Line":
            y = args[0] if args[1] is x else args[1]
            _try(f2, x, y, x)
            _try(f2, y, x, x)


def _method_form(g, fn, args):
    """a.join(b, ...) / a.meet(b): the method entry points with the same arguments."""
    name = "join" if fn is g.join else "meet" if fn is g.meet else None
    if name is None or not hasattr(args[0], name):
        return
    if name == "meet" and len(args) != 2:
        return
    _try(getattr(args[0], name), *args[1:])


def _stack(g, objs):
    """Collection object from a list of single objects of one class."""
    arr = np.stack([o.array for o in objs])
    cls = {"Point": g.PointCollection, "Line": g.LineCollection, "Plane": g.PlaneCollection}[type(objs[0]).__name__]
    return cls(arr)


def g_collection(ctx, rng, i):
    """Collections in which a random subset of positions is degenerate: the mask must mark exactly those."""
    g = G()
    kind = i % NK
    mode = ["int", "dyadic", "int"][(i // NK) % 3]
    shape = gen.SHAPES[(i // (NK * 3)) % len(gen.SHAPES)]
    total = int(np.prod(shape))
    pdeg = [0.0, 0.3, 0.6, 1.0][(i // 5) % 4]
    cols = None
    fn = None
    for t in range(total):
        c = None
        while c is None:
            c = degenerate_case(g, rng, kind, mode, bool(rng.random() < pdeg))
            if c is not None and fn is not None and c[0] is not fn:
                # keep one operation and argument order per collection
                c = None
        if fn is None:
            fn = c[0]
            order = [type(x).__name__ for x in c[1]]
            cols = [[] for _ in c[1]]
        if [type(x).__name__ for x in c[1]] != order:
            c[1].reverse()
        for j, x in enumerate(c[1]):
            cols[j].append(x)
    args = []
    for col in cols:
        arr = np.stack([o.array for o in col])
        arr = arr.reshape(shape + arr.shape[1:])
        cls = {"Point": g.PointCollection, "Line": g.LineCollection, "Plane": g.PlaneCollection}[type(col[0]).__name__]
        args.append(cls(arr))
    # sometimes broadcast a single object against the collection
    if (i // 3) % 4 == 0 and kind in (0, 1, 2, 5):
        args[0] = cols[0][0]
    _try(fn, *args)
    if kind in (8, 9):
        _try(args[0].is_coplanar, args[1])
    _method_form(g, fn, args)
    if kind == 1:
        # the module constants as operands: the line at infinity (any representative, alone or inside a collection) against geometer.infty
        c_ = int(gen.pick(rng, [1, -2, 5]))
        inf_like = g.Line(np.array([0, 0, c_]))
        for a_, b_ in ((inf_like, g.infty), (g.infty, inf_like), (g.infty, g.infty),
                       (g.LineCollection(np.array([[1, 2, 3], [0, 0, c_], [2, 0, 1]])), g.infty), (g.infty, g.LineCollection(np.array([[0, 0, 1], [1, 0, 1]])))):
            _try(g.meet, a_, b_)
            _try(a_.meet, b_)
    if kind == 5:
        pl = g.Plane(np.array([0, 0, 0, int(gen.pick(rng, [1, -3]))]))
        for a_, b_ in ((pl, g.infty_plane), (g.infty_plane, pl), (g.PlaneCollection(np.array([[1, 0, 2, 3], [0, 0, 0, 2]])), g.infty_plane)):
            _try(g.meet, a_, b_)


def g_large(ctx, rng, i):
    """Large collections (hundreds to thousands of positions, one and two axes) of lattice objects with a sprinkling of dependent
    positions: the mask must be right whatever internal path the size of the arrays selects."""
    g = G()
    n = 3 + i % 2
    lat = L3Z if n == 3 else L4Z
    shape = [(400,), (1100,), (20, 20), (3, 150), (40, 30)][(i // 2) % 5]
    k = int(np.prod(shape))
    A = np.array([lat[j] for j in rng.integers(0, len(lat), size=k)])
    B = np.array([lat[j] for j in rng.integers(0, len(lat), size=k)])
    dep = rng.random(k) < [0.0, 0.02, 0.3][(i // 10) % 3]
    B[dep] = A[dep] * rng.choice([1, -2, 3], size=(int(dep.sum()), 1))
    A, B = A.reshape(shape + (n,)), B.reshape(shape + (n,))
    as_points = (i // 20) % 2 == 0
    if as_points:
        _try(g.join, g.PointCollection(A), g.PointCollection(B))
        _try(g.PointCollection(B).join, g.PointCollection(A))
    else:
        cls = g.LineCollection if n == 3 else g.PlaneCollection
        _try(g.meet, cls(A), cls(B))
        _try(g.meet, cls(B), cls(A))


def g_small(ctx, rng, i):
    """Small figures: finite lattice points scaled by 2^-6 ... 2^-14 about an integer offset (coordinates stay exactly representable, the
    last coordinate is 1): independent objects whose join / meet tensor is small but far above the tolerance must not be reported
    dependent, coincident ones must."""
    g = G()
    s = 2.0 ** -[6, 10, 12, 14][i % 4]
    dim = 2 + (i // 4) % 2
    off = gen.coords(rng, (dim,), 3, "int").astype(float) * [0, 1][(i // 8) % 2]
    pts = [np.append(off + s * gen.coords(rng, (dim,), 4, "int"), 1.0) for _ in range(4)]
    P = [g.Point(p) for p in pts]
    _try(g.join, P[0], P[1])
    _try(P[0].join, P[1])
    _try(g.join, P[0], g.Point(pts[0] * 3))
    if dim == 3:
        _try(g.join, P[0], P[1], P[2])
        l, m = _try(g.join, P[0], P[1]), _try(g.join, P[2], P[3])
        if not isinstance(l, Exception) and not isinstance(m, Exception):
            _try(g.meet, l, m)
            _try(g.join, l, m)
            _try(l.is_coplanar, m)
    else:
        l, m = _try(g.join, P[0], P[1]), _try(g.join, P[2], P[3])
        if not isinstance(l, Exception) and not isinstance(m, Exception):
            _try(g.meet, l, m)
    k = 5
    A = np.stack([np.append(off + s * gen.coords(rng, (dim,), 4, "int"), 1.0) for _ in range(k)])
    B = np.stack([np.append(off + s * gen.coords(rng, (dim,), 4, "int"), 1.0) for _ in range(k)])
    B[1] = A[1]
    _try(g.join, g.PointCollection(A), g.PointCollection(B))


GROUPS = [
    {"name": "small", "fn": g_small, "quick": 160, "thorough": 1600},
    {"name": "large", "fn": g_large, "quick": 60, "thorough": 600},
    {"name": "lattice2d", "fn": g_lattice2d, "quick": 125 * 125, "thorough": 125 * 125},
    {"name": "lattice3d", "fn": g_lattice3d, "quick": 81 * 81, "thorough": 81 * 81},
    {"name": "single", "fn": g_single, "quick": 1760, "thorough": 17600},
    {"name": "collection", "fn": g_collection, "quick": 1188, "thorough": 11880},
]
