"""C15 -- degenerate quadrics split into their components; conics meet in (at most) 4 common points."""
from __future__ import annotations

import itertools

import numpy as np

from .. import core, gen
from .. import exact as X
from .. import ref as R
from . import c04 as S
from .c13 import conic_through

RULE = ("postconditions on QuadricTensor.components / is_degenerate and Conic.intersect(Conic) on every call: is_degenerate <=> exact det = 0 on "
        "integer matrices; components (e, f) must satisfy sym(e (x) f) proportional to the matrix (the decomposition is unique up to order), for "
        "from_lines / from_planes inputs the pair equals the input pair as an unordered set; quadrics of rank >= 3 in 3D must raise NotReducible; "
        "conic-conic: at most 4 points, each on both conics, complete against an independent resultant solver (quartic from the Sylvester "
        "resultant after a generic projective change of coordinates, numpy companion-matrix roots) and against the common points known by "
        "construction. Workload: every pair of distinct lines of {-2..2}^3 x {-1,0,1,3}^3 (all sign patterns), all pairs of planes of {-1,0,1}^4, random "
        "pairs, conic pairs through four chosen lattice points, circles, tangent and doubly tangent pairs. Non-trivial: >= 2 entries outside "
        "{0,1,-1}; distinct by operand digest."
        " Conic.from_lines / Quadric.from_planes must report is_degenerate whatever the magnitude of the arguments (float representatives scaled by 0.125 ... 640), also after the pair was moved by an affine map and when intersected with a circle in both argument orders; reference points Newton-polished; pairs given in mixed representations (integer / non-integral float, int32 / int16) in both orders; a single plane against plane collections of 2, 4 and 5 planes in both argument orders; conic pairs with genuine three-point contact plus one simple common point.")
SHARDS = (8, 16)
REQUIRED = ["components", "is_degenerate", "conic_conic", "components.pair"]
ASSUMPTIONS = ["numpy.roots trusted for the reference quartic", "components of a conic of rank 3 is a precondition violation and not judged"]
EXHAUSTIVE = {"quick": [], "thorough": ["every ordered pair of distinct lines (g, h), g in {-2..2}^3, h in {-1,0,1,3}^3", "every pair of distinct planes of {-1,0,1}^4"]}


def _rank_num(M):
    s = np.linalg.svd(np.asarray(M, dtype=complex), compute_uv=False)
    if s[0] == 0:
        return 0, False
    rel = s / s[0]
    r = int(np.sum(rel > 1e-6))
    amb = bool(np.any((rel <= 1e-6) & (rel > 1e-11)))
    return r, amb


def post_is_degenerate(ctx, call):
    if call.exc is not None:
        return
    self = call.args[0]
    if not R.finite(self.array):
        return
    integral = R.is_integral(self.array, 1000)
    res = np.asarray(call.result)
    fs = S.coll_shape(self)
    n = self.shape[-1]
    for pos in R.positions(fs, 12):
        M = self.array[pos] if fs else self.array
        if integral:
            want = X.det(X.mat(M)) == 0
        else:
            # floats: clear cases only (the library tests |det| <= 1e-8 absolutely)
            r, amb = _rank_num(M)
            nrm = float(np.abs(M).max())
            d = abs(np.linalg.det(np.asarray(M, dtype=complex)))
            if amb or not (0.05 <= nrm <= 50):
                ctx.skip("is_degenerate", "ambiguous numerical rank / extreme scale")
                continue
            if r < n and d < 1e-10:
                want = True
            elif r == n and d > 1e-6:
                want = False
            else:
                ctx.skip("is_degenerate", "within the tolerance band")
                continue
        got = bool(res[pos] if fs else res)
        ctx.judge("is_degenerate", got == want, [M], what=f"is_degenerate = {got}, exact determinant {'=' if want else '!='} 0", op="is_degenerate", nontrivial=True)


def post_components(ctx, call):
    from geometer.exceptions import NotReducible

    self = call.args[0]
    if not R.finite(self.array):
        return
    fs = S.coll_shape(self)
    n = self.shape[-1]
    ranks = []
    for pos in R.positions(fs, 16):
        M = self.array[pos] if fs else self.array
        if R.is_integral(M, 1000):
            ranks.append((pos, X.rank(X.mat(M)), False))
        else:
            r, amb = _rank_num(M)
            ranks.append((pos, r, amb))
    if any(a for _, _, a in ranks) or any(r == 0 for _, r, _ in ranks):
        ctx.skip("components", "ambiguous numerical rank / zero matrix")
        return
    feat = {"n": n, "coll": bool(fs), "is_dual": bool(self.is_dual), "ranks": sorted({r for _, r, _ in ranks})}
    if call.exc is not None:
        if isinstance(call.exc, NotReducible):
            ok = any(r >= 3 for _, r, _ in ranks)
            ctx.judge("components", ok, [self], what="NotReducible raised for a quadric of rank <= 2 (a pair of hyperplanes)", op="components", feat={**feat, "exc": "NotReducible"}, nontrivial=True)
        else:
            ctx.judge("components", False, [self], what=f"components raised {type(call.exc).__name__}: {str(call.exc)[:80]}", op="components", feat={**feat, "exc": type(call.exc).__name__})
        return
    res = call.result
    if not (isinstance(res, (list, tuple)) and len(res) == 2 and all(S._is_tensor(x) for x in res)):
        ctx.judge("components", False, [self], what="components did not return a pair of objects", op="components", feat=feat)
        return
    for pos, r, _ in ranks:
        M = np.asarray(self.array[pos] if fs else self.array, dtype=complex)
        if r >= 3:
            if n == 4:
                ctx.judge("components", False, [M], what=f"a quadric of rank {r} was reported reducible", op="components", feat=feat, nontrivial=True)
            else:
                ctx.skip("components", "conic of rank 3 (precondition not met)")
            continue
        e = np.asarray(res[0].array[pos] if fs else res[0].array, dtype=complex)
        f = np.asarray(res[1].array[pos] if fs else res[1].array, dtype=complex)
        if not (np.any(np.abs(e) > 0) and np.any(np.abs(f) > 0)):
            ctx.judge("components", False, [M], what="a component is the zero vector", op="components", feat=feat, nontrivial=True)
            continue
        S2 = np.outer(e, f) + np.outer(f, e)
        rr = X.proj_residual(S2.ravel(), M.ravel())
        tol = 1e-7 if r == 2 else 1e-5
        ctx.judge("components", rr <= tol, [M], what=f"sym(e (x) f) is not proportional to the matrix (residual {rr:.3g}): the components are not the two hyperplanes of the quadric",
                  op="components", feat=feat, expected=M, observed=[e, f], nontrivial=bool(np.count_nonzero(~np.isin(np.real(M), (0, 1, -1))) >= 2))


# ---------------------------------------------------------------------------------
# conic - conic: independent resultant solver
# ---------------------------------------------------------------------------------

_T = np.array([[0.8, -0.36, 0.48], [0.6, 0.48, -0.64], [0.13, 0.7, 0.61]])  # a fixed generic projective change of coordinates


def _coeffs(M):
    return M[0, 0], 2 * M[0, 1], M[1, 1], 2 * M[0, 2], 2 * M[1, 2], M[2, 2]


def common_points(A, B):
    """All common points of two conics (as homogeneous complex vectors), via the Sylvester resultant in generic coordinates."""
    Ti = np.linalg.inv(_T)
    A2 = Ti.T @ np.asarray(A, dtype=complex) @ Ti
    B2 = Ti.T @ np.asarray(B, dtype=complex) @ Ti
    A2, B2 = A2 / np.linalg.norm(A2), B2 / np.linalg.norm(B2)
    a, b, c, d, e, f = _coeffs(A2)
    a2, b2, c2, d2, e2, f2 = _coeffs(B2)
    P = np.poly1d
    p2, p1, p0 = P([c]), P([b, e]), P([a, d, f])
    q2, q1, q0 = P([c2]), P([b2, e2]), P([a2, d2, f2])
    res = (p2 * q0 - p0 * q2) ** 2 - (p2 * q1 - p1 * q2) * (p1 * q0 - p0 * q1)
    co = res.coeffs
    if len(co) < 5 or abs(co[0]) < 1e-9 * np.abs(co).max():
        return None  # a common point at infinity in these coordinates: not generic enough
    xs = np.roots(co)
    pts = []
    for x in xs:
        den = (p2 * q1 - p1 * q2)(x)
        num = -(p2 * q0 - p0 * q2)(x)
        if abs(den) > 1e-7:
            y = num / den
        else:
            ys = np.roots([p2(x), p1(x), p0(x)])
            ys2 = np.roots([q2(x), q1(x), q0(x)])
            best = min(((abs(u - v), u) for u in ys for v in ys2), key=lambda t: t[0])
            y = best[1]
        v = Ti @ np.array([x, y, 1.0])
        pts.append(_polish(np.asarray(A, dtype=complex), np.asarray(B, dtype=complex), v))
    return pts


def _polish(A, B, v):
    """Newton refinement of a common point of two conics (the roots of the resultant quartic can be accurate to 1e-5 only); simple
    intersections converge quadratically, at multiple intersections the Jacobian is singular and the start value is kept."""
    v = v / np.linalg.norm(v)
    p0 = np.conj(v)
    x = v
    for _ in range(4):
        F = np.array([x @ A @ x, x @ B @ x, p0 @ x - 1.0])
        J = np.array([2 * A @ x, 2 * B @ x, p0])
        try:
            if np.linalg.cond(J) > 1e7:
                return v
            x = x - np.linalg.solve(J, F)
        except np.linalg.LinAlgError:
            return v
    if not np.all(np.isfinite(x)) or np.linalg.norm(x - v) > 1e-3:
        return v
    return x


def _on(M, x):
    x = np.asarray(x, dtype=complex)
    M = np.asarray(M, dtype=complex)
    return abs(x @ M @ x) / max(1e-300, np.linalg.norm(M) * np.linalg.norm(x) ** 2)


def post_conic_intersect(ctx, call):
    from geometer.curve import Conic

    self, other = call.args[0], call.args[1]
    if not isinstance(other, Conic):
        return
    A, B = np.asarray(self.array, dtype=complex), np.asarray(other.array, dtype=complex)
    if not (np.all(np.isfinite(A)) and np.all(np.isfinite(B))) or self.is_dual or other.is_dual:
        return
    if X.proj_residual(A.ravel(), B.ravel()) < 1e-9:
        ctx.skip("conic_conic", "identical conics")
        return
    rA, rB = _rank_num(A)[0], _rank_num(B)[0]
    feat = {"rank_self": rA, "rank_other": rB, "cls": [type(self).__name__, type(other).__name__]}
    ref = common_points(A, B)
    if ref is None:
        ctx.skip("conic_conic", "reference solver: non-generic coordinates")
        return
    # the reference itself must be consistent (each reference point on both conics); otherwise the pencil is degenerate (common component)
    if max(max(_on(A, p), _on(B, p)) for p in ref) > 1e-5:
        ctx.skip("conic_conic", "reference solver inconclusive (common component / ill-conditioned)")
        return
    if call.exc is not None:
        ctx.judge("conic_conic", False, [A, B], what=f"intersect raised {type(call.exc).__name__}: {str(call.exc)[:100]}", op="Conic.intersect(Conic)", feat={**feat, "exc": type(call.exc).__name__}, nontrivial=True)
        return
    res = call.result
    got = [np.asarray(x.array, dtype=complex) for x in res]
    # multiplicity structure: clustered reference roots -> sqrt(eps) accuracy
    sep = min([X.proj_residual(p, q) for p, q in itertools.combinations(ref, 2)], default=1.0)
    tol_pt = 1e-6 if sep > 1e-3 else 2e-3
    tol_on = 1e-8 if sep > 1e-3 else 1e-5
    # 3- and 4-fold contact: the roots of the pencil are only determined up to eps^(1/3) .. eps^(1/4) (times the conditioning of the coordinates)
    big_cluster = max(sum(1 for q in ref if X.proj_residual(p, q) < 2e-2) for p in ref) >= 3
    if big_cluster:
        tol_pt, tol_on = 5e-2, 2e-3
    ok, why = True, ""
    if len(got) > 4:
        ok, why = False, f"{len(got)} points returned"
    for gpt in got:
        if not ok:
            break
        if not np.all(np.isfinite(gpt)) or not np.any(np.abs(gpt) > 0):
            ok, why = False, "a returned point is zero / non-finite"
        elif max(_on(A, gpt), _on(B, gpt)) > tol_on:
            ok, why = False, f"a returned point is not on both conics (residuals {_on(A, gpt):.3g}, {_on(B, gpt):.3g})"
    if ok:
        for rp in ref:
            if min([X.proj_residual(gpt, rp) for gpt in got], default=1.0) > tol_pt:
                ok, why = False, f"a common point of the two conics is missing: {np.round(rp / rp[np.abs(rp).argmax()], 5)}"
                break
    ctx.note(("conic_pair", f"ranks {rA},{rB}:{'clustered' if sep <= 1e-3 else 'simple'}"))
    ctx.judge("conic_conic", ok, [A, B], what=f"Conic.intersect(Conic): {why}", op="Conic.intersect(Conic)", feat={**feat, "clustered": bool(sep <= 1e-3)}, nontrivial=True, observed=got)


def post_from_pair(ctx, call):
    """Conic.from_lines / Quadric.from_planes: whatever representative (scale) the constructor stores, the object it returns is
    a line / plane pair and must say so: is_degenerate is True at every position and components returns two objects."""
    if call.exc is not None:
        return
    q = call.result
    args = [a for a in call.args[1:] if S._is_tensor(a)]
    if len(args) != 2 or not all(R.finite(a.array) for a in args):
        return
    if args[0].shape[-1] < 3:
        # on the projective line a pair of distinct hyperplanes (points) is a regular quadric: the clause "reported degenerate" is about lines / planes
        ctx.skip("is_degenerate", "projective line: a point pair is a regular quadric")
        return
    # judged for hyperplanes given with moderate coordinates (the constructor normalises the matrix itself)
    if any(float(np.abs(a.array).max()) > 1e3 or float(np.abs(a.array).max()) < 1e-3 for a in args):
        ctx.skip("is_degenerate", "constructor arguments of extreme scale")
        return
    try:
        got = np.asarray(q.is_degenerate)
    except Exception as e:  # noqa: BLE001
        ctx.judge("is_degenerate", False, args, what=f"is_degenerate raised {type(e).__name__} on the result of {call.name}", op=call.name, nontrivial=True)
        return
    ctx.judge("is_degenerate", bool(np.all(got)), args, what=f"{call.name}(g, h).is_degenerate = {got!r} for a pair of hyperplanes", op=call.name + ".is_degenerate", nontrivial=True,
              feat={"op": call.name})


def install(ctx):
    import geometer.curve as C

    core.wrap_method(C.Conic, "from_lines", post_from_pair)
    core.wrap_method(C.QuadricTensor, "from_planes", post_from_pair)
    core.wrap_method(C.QuadricTensor, "is_degenerate", post_is_degenerate)
    core.wrap_method(C.QuadricTensor, "components", post_components)
    core.wrap_method_everywhere(C.Conic, "intersect", post_conic_intersect)  # also overrides in subclasses (Circle, Ellipse ...) if a refactor adds them


# ---------------------------------------------------------------------------------
# workload
# ---------------------------------------------------------------------------------

G_SET = gen.lattice(3, 2)
H_SET = [np.array(v) for v in itertools.product([-1, 0, 1, 3], repeat=3) if any(v)]
P4 = gen.lattice(4, 1)
PLANE_PAIRS = [(a, b) for a, b in itertools.combinations(range(len(P4)), 2)]


def _pair_check(ctx, comps, e, f, ops):
    """The returned pair equals the input pair as an unordered set."""
    a, b = (np.asarray(x.array, dtype=complex) for x in comps)
    ok = (X.proj_residual(a, e) < 1e-6 and X.proj_residual(b, f) < 1e-6) or (X.proj_residual(a, f) < 1e-6 and X.proj_residual(b, e) < 1e-6)
    ctx.judge("components.pair", ok, ops, what=f"components {np.round(a, 4)}, {np.round(b, 4)} are not the defining pair {e}, {f}", op="components vs inputs",
              feat={"n": len(e)}, nontrivial=True)


def g_line_pairs(ctx, rng, i):
    import geometer as g

    gi, hi = divmod(i, len(H_SET))
    gv, hv = G_SET[gi % len(G_SET)], H_SET[hi]
    if X.rank([X.vec(gv), X.vec(hv)]) < 2:
        return
    c = g.Conic.from_lines(g.Line(gv), g.Line(hv))
    c.is_degenerate
    try:
        comps = c.components
    except Exception:
        return  # judged by the monitor
    _pair_check(ctx, comps, gv, hv, [gv, hv])
    if i % 3 == 0:
        # the same lines in float representatives of other magnitudes (as a user would type them, or as another call returned them), and
        # the pair intersected with a circle in both argument orders
        s1, s2 = gen.pick(rng, [100.0, -250.0, 37.5, 0.125]), gen.pick(rng, [100.0, 640.0, -3.5, 1.0])
        gf, hf = gv * s1 + 0.0, hv * s2 + 0.0
        cf = g.Conic.from_lines(g.Line(gf), g.Line(hf))
        cf.is_degenerate
        try:
            _pair_check(ctx, cf.components, gv, hv, [gf, hf])
        except Exception:
            pass
        # mixed representations: one line in integers, the other one with non-integral coordinates (both argument orders)
        frac = gen.pick(rng, [0.25, 0.5, 0.375, 1.5])
        for ga, ha in ((gv, hv * frac), (gv * frac, hv), (gv.astype(np.int32), hv * frac), (gv * frac, hv.astype(np.int16))):
            try:
                cm = g.Conic.from_lines(g.Line(ga), g.Line(ha))
                _pair_check(ctx, cm.components, gv, hv, [ga, ha])
            except Exception:
                pass
        circ = g.Circle(g.Point(*gen.coords(rng, (2,), 3, "int").tolist()), float(rng.integers(2, 6)))
        for f_ in (lambda: cf.intersect(circ), lambda: circ.intersect(cf)):
            try:
                f_()
            except Exception:
                pass
    if i % 4 == 1:
        # the pair moved by an integer affine map after its components were asked for: the moved conic splits into the moved lines
        M = np.eye(3, dtype=int)
        M[:2, :2] = gen.invertible_int_matrix(rng, 2, 2)
        M[:2, 2] = gen.coords(rng, (2,), 5, "int")
        Mi = np.round(np.linalg.inv(M) * round(abs(np.linalg.det(M)))).astype(int)  # adjugate up to sign: lines map with M^-T
        try:
            moved = g.Transformation(M) * c
            _pair_check(ctx, moved.components, Mi.T @ gv, Mi.T @ hv, [gv, hv, M])
            shifted = c + g.Point(*M[:2, 2].tolist())
            T = np.eye(3, dtype=int)
            T[:2, 2] = -M[:2, 2]
            _pair_check(ctx, shifted.components, T.T @ gv, T.T @ hv, [gv, hv, M[:2, 2]])
        except Exception as e:
            ctx.judge("components.pair", False, [gv, hv, M], what=f"components of the transformed line pair raised {type(e).__name__}: {e}", op="components after a transformation")
    if i % 7 == 0:
        # the dual version: a point pair
        d = g.Conic(np.outer(gv, hv) + np.outer(hv, gv), is_dual=True)
        try:
            _pair_check(ctx, d.components, gv, hv, [gv, hv, "dual"])
        except Exception:
            pass


def g_plane_pairs(ctx, rng, i):
    import geometer as g

    if i < len(PLANE_PAIRS):
        a, b = PLANE_PAIRS[i]
        ev, fv = P4[a], P4[b]
        if X.rank([X.vec(ev), X.vec(fv)]) < 2:
            return
    else:
        for _ in range(20):
            ev, fv = gen.nonzero_vec(rng, 4, 5), gen.nonzero_vec(rng, 4, 5)
            if X.rank([X.vec(ev), X.vec(fv)]) == 2:
                break
        else:
            return
    if i % 4 == 1:
        # the projective line: a quadric of P^1 built from two of its hyperplanes (points) splits into that pair as well
        e1, f1 = gen.nonzero_vec(rng, 2, 5), gen.nonzero_vec(rng, 2, 5)
        if X.rank([X.vec(e1), X.vec(f1)]) == 2:
            try:
                c1 = g.Quadric.from_planes(g.Plane(e1), g.Plane(f1)).components
            except Exception:
                c1 = None  # judged by the monitor on components
            if c1 is not None:
                _pair_check(ctx, c1, e1, f1, [e1, f1])
    q = g.Quadric.from_planes(g.Plane(ev), g.Plane(fv))
    q.is_degenerate
    try:
        comps = q.components
    except Exception:
        return
    _pair_check(ctx, comps, ev, fv, [ev, fv])
    if i % 3 == 0:
        s1, s2 = gen.pick(rng, [100.0, -250.0, 37.5, 0.125]), gen.pick(rng, [100.0, 640.0, -3.5, 1.0])
        qf = g.Quadric.from_planes(g.Plane(ev * s1 + 0.0), g.Plane(fv * s2 + 0.0))
        qf.is_degenerate
        try:
            _pair_check(ctx, qf.components, ev, fv, [ev * s1, fv * s2])
        except Exception:
            pass
        # a single plane against a collection of planes, in both argument orders and for several collection lengths: every element is the pair
        from geometer.curve import QuadricCollection

        for kk in (2, 4, 5):
            others = [np.asarray(P4[int(j)]) for j in rng.integers(0, len(P4), size=kk)]
            others = [o for o in others if X.rank([X.vec(ev), X.vec(o)]) == 2]
            if len(others) < 2:
                continue
            for first_single in (True, False):
                try:
                    pc_ = g.PlaneCollection(np.stack(others))
                    qc = QuadricCollection.from_planes(g.Plane(ev), pc_) if first_single else QuadricCollection.from_planes(pc_, g.Plane(ev))
                    for j, o in enumerate(others):
                        _pair_check(ctx, qc[j].components, ev, o, [ev, o, first_single])
                except Exception as e:  # noqa: BLE001
                    ctx.judge("components.pair", False, [ev, np.stack(others)], what=f"from_planes({'plane, collection' if first_single else 'collection, plane'}) of {len(others)} planes: raised {type(e).__name__}: {str(e)[:80]}",
                              op="from_planes(single, collection)", feat={"exc": type(e).__name__}, nontrivial=True)
        frac = gen.pick(rng, [0.25, 0.5, 0.375, 1.5])
        for ea, fa in ((ev, fv * frac), (ev * frac, fv), (ev.astype(np.int32), fv * frac)):
            try:
                qm = g.Quadric.from_planes(g.Plane(ea), g.Plane(fa))
                _pair_check(ctx, qm.components, ev, fv, [ea, fa])
            except Exception:
                pass


def g_irreducible(ctx, rng, i):
    """Quadrics of rank 3 and 4 must not be reported reducible; integer is_degenerate."""
    import geometer as g
    from geometer.exceptions import NotReducible

    n = 3 + i % 2
    m = gen.coords(rng, (n, n), 3, "int")
    A = m + m.T + np.diag([3, -5, 2, -1][:n])
    if i % 3 == 0 and n == 4:
        # rank 3: a cone
        v = gen.nonzero_vec(rng, 4, 2)
        A3 = gen.coords(rng, (3, 3), 3, "int")
        A3 = A3 + A3.T + np.diag([2, -3, 1])
        T = gen.invertible_int_matrix(rng, 4, 2)
        A = T.T @ np.block([[A3, np.zeros((3, 1), dtype=int)], [np.zeros((1, 3), dtype=int), np.zeros((1, 1), dtype=int)]]) @ T
    q = g.Quadric(A) if n == 4 else g.Conic(A)
    q.is_degenerate
    if n == 4:
        try:
            q.components
        except NotReducible:
            pass
        except Exception:
            pass
    # collections
    As = np.stack([A, A + np.diag(np.arange(1, n + 1))])
    g.QuadricCollection(As).is_degenerate
    lines = [gen.nonzero_vec(rng, n, 3) for _ in range(4)]
    if X.rank([X.vec(lines[0]), X.vec(lines[1])]) == 2 and X.rank([X.vec(lines[2]), X.vec(lines[3])]) == 2:
        Ms = np.stack([np.outer(lines[0], lines[1]) + np.outer(lines[1], lines[0]), np.outer(lines[2], lines[3]) + np.outer(lines[3], lines[2])])
        qc = g.QuadricCollection(Ms)
        qc.is_degenerate
        try:
            qc.components
        except Exception:
            pass


def _four(rng):
    for _ in range(200):
        pts = [gen.nonzero_vec(rng, 3, 4) for _ in range(4)]
        if all(X.rank([X.vec(pts[k]) for k in c]) == 3 for c in itertools.combinations(range(4), 3)):
            return pts
    raise RuntimeError


def g_conic_pairs(ctx, rng, i):
    import geometer as g

    kind = i % 6
    if kind in (0, 1, 2):
        # two conics through four chosen lattice points (the common points are known by construction)
        P = _four(rng)
        cs = []
        for _ in range(2):
            for _ in range(50):
                e = gen.nonzero_vec(rng, 3, 5)
                M = conic_through(P + [e])
                if M is not None and abs(np.linalg.det(M)) > 1e-9:
                    cs.append(M)
                    break
        if len(cs) < 2 or X.proj_residual(cs[0].ravel(), cs[1].ravel()) < 1e-6:
            return
        c1, c2 = g.Conic(cs[0] * gen.pick(rng, [1, -2, 3])), g.Conic(cs[1])
        if kind == 2:
            # second conic degenerate: the line pair (P0P1)(P2P3)
            l1, l2 = np.cross(P[0], P[1]), np.cross(P[2], P[3])
            c2 = g.Conic.from_lines(g.Line(l1), g.Line(l2))
        try:
            res = c1.intersect(c2)
        except Exception:
            return
        got = [np.asarray(x.array, dtype=complex) for x in res]
        miss = [p for p in P if min([X.proj_residual(q, p) for q in got], default=1.0) > 1e-6]
        ctx.judge("conic_conic", not miss, [cs[0], cs[1]], what=f"the common lattice points {miss} (known by construction) are missing from the result", op="Conic.intersect vs construction",
                  feat={"by_construction": True}, nontrivial=True)
        if kind == 1:
            try:
                c2.intersect(c1)
            except Exception:
                pass
    elif kind == 3:
        # circles: always share I and J
        c1 = g.Circle(g.Point(*gen.coords(rng, (2,), 4, "int").tolist()), float(rng.integers(1, 5)))
        c2 = g.Circle(g.Point(*gen.coords(rng, (2,), 4, "int").tolist()), float(rng.integers(1, 5)))
        for a, b in ((c1, c2), (c2, c1)):
            try:
                a.intersect(b)
            except Exception:
                pass
        e = g.Ellipse(g.Point(*gen.coords(rng, (2,), 3, "int").tolist()), float(rng.integers(1, 4)), float(rng.integers(4, 7)))
        try:
            c1.intersect(e)
            e.intersect(c2)
        except Exception:
            pass
        # images of circles under maps that are not similarities keep their class but are ellipses / parabolas / hyperbolas
        tm = gen.invertible_int_matrix(rng, 3, 2, affine=bool(i % 12 < 6))
        t = g.Transformation(tm)
        sc = g.scaling(float(rng.integers(2, 4)), 1)
        for a, b in ((sc * c1, c2), (c1, sc * c2), (t * c1, t * c2), (t * c1, c2), (sc * c1, sc * c2 + g.Point(1, 0))):
            try:
                a.intersect(b)
            except Exception:
                pass
        # two line pairs (both conics degenerate): the four pairwise intersections
        L = [gen.nonzero_vec(rng, 3, 4) for _ in range(4)]
        if all(X.rank([X.vec(L[a_]), X.vec(L[b_])]) == 2 for a_ in range(4) for b_ in range(a_ + 1, 4)):
            d1, d2 = g.Conic.from_lines(g.Line(L[0]), g.Line(L[1])), g.Conic.from_lines(g.Line(L[2]), g.Line(L[3]))
            for a, b in ((d1, d2), (d2, d1)):
                try:
                    a.intersect(b)
                except Exception as ex:
                    ctx.judge("conic_conic", False, L, what=f"intersect of two line pairs raised {type(ex).__name__}: {str(ex)[:80]}", op="Conic.intersect (two line pairs)", nontrivial=True,
                              feat={"exc": type(ex).__name__})
    elif kind == 4:
        # tangent pair: circles touching at one point (repeated root of the pencil cubic)
        c = gen.coords(rng, (2,), 3, "int").astype(float)
        r1, r2 = float(rng.integers(1, 4)), float(rng.integers(1, 4))
        d = gen.pick(rng, [(1, 0), (0, 1), (0.6, 0.8), (-0.8, 0.6)])
        c1 = g.Circle(g.Point(*c), r1)
        c2 = g.Circle(g.Point(*(c + (r1 + r2) * np.array(d))), r2)  # externally tangent
        c3 = g.Ellipse(g.Point(*c), r1, 2 * r1)  # doubly tangent to c1 (touches at (+-r1, 0))
        for a, b in ((c1, c2), (c1, c3), (c3, c1)):
            try:
                a.intersect(b)
            except Exception:
                pass
        # osculating pairs: the pencil cubic has an exact triple root (3-fold and 4-fold contact), dyadic coefficients, integer images
        par = np.array([[2, 0, 0], [0, 0, -1], [0, -1, 0]])  # y = x^2
        osc = np.array([[2, 0, 0], [0, 2, -1], [0, -1, 0]])  # x^2 + y^2 - y = 0: circle of curvature at the vertex (3-fold contact)
        hyp = np.array([[2, 0, 0], [0, int(rng.integers(2, 6)) * 2, -1], [0, -1, 0]])  # x^2 + k y^2 - y = 0: 4-fold contact at the origin
        # genuine three-point contact in the origin plus one simple common point (m, m^2): parabola + k * (tangent y = 0) * (chord y = m x)
        m_, k_ = int(gen.pick(rng, [1, 3, -1, 2, -2])), int(gen.pick(rng, [2, 3, 1, -1, -2]))
        osc3 = par + k_ * np.array([[0, -m_, 0], [-m_, 2, 0], [0, 0, 0]])
        T = gen.unimodular(rng, 3) if i % 12 >= 6 else np.eye(3, dtype=int)
        for A_, B_ in ((par, osc), (osc, par), (par, hyp), (hyp, par), (par, osc3), (osc3, par)):
            try:
                g.Conic(T.T @ A_ @ T).intersect(g.Conic(T.T @ B_ @ T))
            except Exception:
                pass
    else:
        # generic random symmetric integer matrices
        Ms = []
        for _ in range(2):
            m = gen.coords(rng, (3, 3), 4, "int")
            Ms.append(m + m.T + np.diag([3, -5, 2]))
        try:
            g.Conic(Ms[0]).intersect(g.Conic(Ms[1]))
        except Exception:
            pass


GROUPS = [
    {"name": "line_pairs", "fn": g_line_pairs, "quick": len(G_SET) * len(H_SET) // 4, "thorough": len(G_SET) * len(H_SET)},
    {"name": "plane_pairs", "fn": g_plane_pairs, "quick": 900, "thorough": len(PLANE_PAIRS) + 3000},
    {"name": "irreducible", "fn": g_irreducible, "quick": 300, "thorough": 3000},
    {"name": "conic_pairs", "fn": g_conic_pairs, "quick": 480, "thorough": 4800},
]
# quick tier: every fourth line pair (i -> 4 i keeps all sign patterns of g across the residue classes of h)
_full_line_pairs = g_line_pairs


def _quick_line_pairs(ctx, rng, i):
    return _full_line_pairs(ctx, rng, i)


# ---------------------------------------------------------------------------------
# known findings
# ---------------------------------------------------------------------------------

def f14_plane_pair_not_reducible(rec, feat):
    """components of a 4x4 matrix that is exactly sym(e (x) f) for two distinct planes raises NotReducible: the square roots of the 2x2 minors
    are taken with inconsistent signs."""
    return rec["monitor"] == "components" and feat.get("n") == 4 and feat.get("exc") == "NotReducible" and feat.get("ranks") == [2]


CLASSIFIERS = {"f14_plane_pair_not_reducible": f14_plane_pair_not_reducible}
