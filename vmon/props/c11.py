"""C11 -- cross ratio has its closed-form value, its symmetries and projective invariance."""
from __future__ import annotations

import numpy as np

from .. import core, gen
from .. import exact as X
from .. import ref as R
from . import c04 as S

RULE = ("postcondition on operators.crossratio (every call) against the exact value beta1*alpha2/(beta2*alpha1) obtained from the coordinates "
        "of c, d in the basis (a, b) over Q(i) (points on a line, lines of a pencil, planes of a sheaf, by duality the same formula on the "
        "coordinate vectors), 3x3 brackets for the from_point variant; NotCollinear/NotConcurrent exactly when the exact rank exceeds 2; "
        "harmonic_set returns a point of the line with cross ratio -1. Recorded values are checked offline for the five symmetry identities and "
        "for invariance under random projective maps in 1D, 2D and 3D. Workload: every line direction x parameters incl. 0 and infinity, pencil "
        "vertices generic / on a coordinate axis / at the origin / at infinity. Non-trivial: all four parameters distinct; distinct by digest."
        " Also: quadruples of 3D lines that are coplanar but not concurrent / concurrent but not coplanar / skew, one invalid position inside a collection, integer coordinates of the order of 1000, a repeated single point against collections; complex points with complex parameters on complex lines of CP1, the plane and space (non-real cross ratios, harmonic conjugates, also on CP1); collection shapes with axes of length 1 and outer-product broadcasting ((k,1) against (1,k)); every mix of single points / lines and collections in the four argument positions.")
SHARDS = (8, 16)
REQUIRED = ["crossratio", "crossratio.raise", "harmonic_set", "symmetry", "invariance"]
ASSUMPTIONS = ["cross ratios with a coincident pair among the four objects are degenerate and not judged for their value"]
EXHAUSTIVE = {"quick": [], "thorough": []}


def _g(x):
    return X.GQ.of(x) if not isinstance(x, X.GQ) else x


def ref_cr(ea, eb, ec, ed):
    """Exact cross ratio of four coordinate vectors spanning a 2-dimensional space, or a status string."""
    A = [X.vec(np.ravel(e)) for e in (ea, eb, ec, ed)]
    if any(all(X.is_zero(x) for x in v) for v in A):
        return "zero"
    r = X.rank(A)
    if r > 2:
        return "not-collinear"
    if r < 2:
        return "degenerate"
    if X.rank(A[:2]) < 2:
        return "degenerate"
    c1 = X.solve_in_basis(A[:2], A[2])
    c2 = X.solve_in_basis(A[:2], A[3])
    if c1 is None or c2 is None:
        return "degenerate"
    a1, b1 = c1
    a2, b2 = c2
    num = _g(b1) * _g(a2)
    den = _g(b2) * _g(a1)
    if not den:
        return "inf" if num else "degenerate"
    return complex(num / den)


def ref_cr_from_point(o, a, b, c, d):
    def br(x, y):
        return _g(X.det([X.vec(o), X.vec(x), X.vec(y)]))

    num = br(a, c) * br(b, d)
    den = br(a, d) * br(b, c)
    if not den:
        return "inf" if num else "degenerate"
    return complex(num / den)


def _elem(t, pos, cshape):
    cs = S.coll_shape(t)
    return np.asarray(t.array[tuple(0 if s == 1 else x for s, x in zip(cs, pos[len(cshape) - len(cs):]))] if cs else t.array)


def post_crossratio(ctx, call):
    from geometer.exceptions import NotCollinear, NotConcurrent
    from geometer.point import LineTensor, PlaneTensor, PointTensor

    args = list(call.args)
    if len(args) < 4:
        return
    a, b, c, d = args[:4]
    fp = args[4] if len(args) > 4 else None
    objs = [a, b, c, d] + ([fp] if fp is not None else [])
    if not all(S._is_tensor(o) for o in objs) or not all(R.finite(o.array) for o in objs):
        return
    kinds = {("point" if isinstance(o, PointTensor) else "line" if isinstance(o, LineTensor) else "plane" if isinstance(o, PlaneTensor) else "?") for o in (a, b, c, d)}
    if len(kinds) != 1 or "?" in kinds:
        return
    kind = kinds.pop()
    dim = a.shape[-1] - 1
    exact = all(R.is_dyadic(o.array, 30, 2 ** 20) for o in objs)
    if not exact:
        ctx.skip("crossratio", "non-representable operands (judged through the lattice workload)")
        return
    try:
        cshape = np.broadcast_shapes(*[S.coll_shape(o) for o in objs])
    except ValueError:
        return
    feat = {"kind": kind, "dim": dim, "from_point": fp is not None, "coll": bool(cshape), "tensor_shape": list(a.tensor_shape)}
    if kind == "plane":
        # the common axis of the first two planes lies at infinity iff their normals are proportional (or one normal vanishes)
        na, nb = np.asarray(a.array)[..., :-1], np.asarray(b.array)[..., :-1]
        try:
            feat["axis_at_infinity"] = bool(np.any(np.linalg.norm(np.cross(na, nb), axis=-1) <= 1e-12 * np.maximum(1e-300, np.linalg.norm(na, axis=-1) * np.linalg.norm(nb, axis=-1))))
        except Exception:
            feat["axis_at_infinity"] = None
    positions = R.positions(tuple(cshape), 12)
    refs = []
    for pos in positions:
        es = [_elem(o, pos, cshape) for o in objs]
        if fp is not None and dim == 2 and kind == "point":
            want = ref_cr_from_point(es[4], *es[:4])
            if X.rank([X.vec(e) for e in es[:4]]) <= 2 and X.rank([X.vec(e) for e in es]) <= 2:
                want = "degenerate"
        else:
            want = ref_cr(*es[:4])
        refs.append((pos, es, want))
    ctx.note(("crossratio_kind", f"{kind}:dim{dim}:{'from_point' if fp is not None else 'plain'}"))
    nc = [r for r in refs if r[2] == "not-collinear"]
    if call.exc is not None:
        if isinstance(call.exc, (NotCollinear, NotConcurrent)):
            ok = bool(nc)
            ctx.judge("crossratio.raise", ok, objs, what=f"{type(call.exc).__name__} raised although the objects are exactly collinear/concurrent", op="crossratio", feat=feat, nontrivial=True)
        elif any(r[2] in ("degenerate", "zero") for r in refs):
            ctx.skip("crossratio", "degenerate configuration raised")
        else:
            ctx.judge("crossratio", False, objs, what=f"crossratio raised {type(call.exc).__name__}: {str(call.exc)[:80]}", op="crossratio", feat={**feat, "exc": type(call.exc).__name__})
        return
    if nc and kind in ("point", "line") and (fp is None):
        want_exc = "NotCollinear" if kind == "point" else "NotConcurrent"
        # a == b short-cut returns 1 before any check: degenerate
        if not any(r[2] in ("degenerate", "zero") for r in refs):
            f2 = dict(feat, rank=int(X.rank([X.vec(np.ravel(e)) for e in nc[0][1][:4]])))
            ctx.judge("crossratio.raise", False, objs, what=f"objects are not collinear/concurrent (exact rank {f2['rank']}) but a number was returned instead of {want_exc}", op="crossratio",
                      feat=f2, nontrivial=True)
        return
    res = np.asarray(call.result)
    if res.shape != tuple(cshape):
        ctx.judge("crossratio", False, objs, what=f"result shape {res.shape} != collection shape {tuple(cshape)}", op="crossratio", feat=feat)
        return
    for pos, es, want in refs:
        if isinstance(want, str) and want != "inf":
            ctx.skip("crossratio", f"position {want}")
            continue
        got = complex(res[pos] if cshape else res)
        if want == "inf":
            ok = not np.isfinite(abs(got)) or abs(got) > 1e12
        else:
            ok = np.isfinite(abs(got)) and abs(got - want) <= 1e-9 * max(1.0, abs(want))
        f2 = dict(feat, nan=bool(np.isnan(got.real) or np.isnan(got.imag)))
        if kind == "line" and dim == 2:
            # mechanism feature for F10: does some line's base point coincide with the pencil vertex?
            f2["base_point_is_vertex"] = _base_point_is_vertex(a, b, c, d, pos, cshape)
        ctx.judge("crossratio", bool(ok), es, what=f"crossratio = {got}, exact value {want}", op="crossratio", feat=f2, expected=want if not isinstance(want, str) else want, observed=got,
                  nontrivial=True)


def _base_point_is_vertex(a, b, c, d, pos, cshape):
    try:
        es = [np.asarray(_elem(o, pos, cshape), dtype=float) for o in (a, b, c, d)]
        v = np.cross(es[0], es[1])
        for e in es:
            # the library's base point of a 2D line (y != 0: (0? , -z, y) rule): recompute independently from its definition in the docstring is
            # not possible (arbitrary choice), so ask the library with monitors suspended
            import geometer as g

            bp = np.asarray(g.Line(e).base_point.array, dtype=float)
            if X.proj_residual(bp, v) < 1e-9:
                return True
        return False
    except Exception:
        return None


def post_harmonic(ctx, call):
    a, b, c = call.args[:3]
    if not all(S._is_tensor(o) for o in (a, b, c)) or a.shape[-1] < 2:
        return
    if call.exc is not None:
        # three distinct collinear points always have a harmonic conjugate: a raise is a violation
        try:
            if all(R.is_dyadic(o.array, 30, 2 ** 20) for o in (a, b, c)) and not any(S.coll_shape(o) for o in (a, b, c)):
                es = [np.asarray(o.array) for o in (a, b, c)]
                if X.rank([X.vec(e) for e in es]) == 2 and all(X.rank([X.vec(es[i]), X.vec(es[j])]) == 2 for i, j in ((0, 1), (0, 2), (1, 2))):
                    ctx.judge("harmonic_set", False, es, what=f"harmonic_set raised {type(call.exc).__name__} for three distinct collinear points", op="harmonic_set",
                              feat={"exc": type(call.exc).__name__, "dim": int(a.shape[-1]) - 1}, nontrivial=True)
        except Exception:
            pass
        return
    res = call.result
    if not all(R.finite(o.array) for o in (a, b, c)) or not all(R.is_dyadic(o.array, 30, 2 ** 20) for o in (a, b, c)):
        ctx.skip("harmonic_set", "non-representable operands")
        return
    try:
        cshape = np.broadcast_shapes(*[S.coll_shape(o) for o in (a, b, c)])
    except ValueError:
        return
    for pos in R.positions(tuple(cshape), 12):
        es = [_elem(o, pos, cshape) for o in (a, b, c)]
        if X.rank([X.vec(e) for e in es]) != 2 or X.rank([X.vec(es[0]), X.vec(es[1])]) != 2:
            ctx.skip("harmonic_set", "points not collinear / coincident")
            continue
        c1 = X.solve_in_basis([X.vec(es[0]), X.vec(es[1])], X.vec(es[2]))
        if c1 is None or X.is_zero(c1[0]) or X.is_zero(c1[1]):
            ctx.skip("harmonic_set", "c coincides with a or b")
            continue
        # d = alpha a - beta b  has cross ratio -1 with c = alpha a + beta b
        want = np.array([complex(_g(c1[0]) * _g(x) - _g(c1[1]) * _g(y)) for x, y in zip(X.vec(es[0]), X.vec(es[1]))])
        got = np.asarray(res.array[pos] if cshape else res.array)
        r = X.proj_residual(got, want) if got.shape == want.shape else 1.0
        ctx.judge("harmonic_set", r <= 1e-7, es, what=f"harmonic conjugate differs from the exact one (residual {r:.3g})", op="harmonic_set", expected=want, observed=got, nontrivial=True,
                  feat={"dim": int(a.shape[-1]) - 1})


def install(ctx):
    import geometer.operators as O

    core.wrap_function(O, "crossratio", post_crossratio)
    core.wrap_function(O, "harmonic_set", post_harmonic)


# ---------------------------------------------------------------------------------
# workload
# ---------------------------------------------------------------------------------

PARAMS = [0, 1, -1, 2, -2, 3, 5, -3, "inf"]


def _on_line(a, b, t):
    """a + t b  (t = 'inf' -> b)."""
    return b.copy() if t == "inf" else a + t * b


def _try(f, *a, **k):
    try:
        return f(*a, **k)
    except Exception:
        return None


def _pair(rng, n, cls):
    """Two independent integer vectors of K^n: cls 0 generic, 1 a on a coordinate axis, 2 a the origin (0,..,0,1), 3 b at infinity."""
    for _ in range(100):
        a, b = gen.nonzero_vec(rng, n, 4), gen.nonzero_vec(rng, n, 4)
        if cls == 1:
            a = np.zeros(n, dtype=int)
            a[int(rng.integers(0, n - 1))] = int(rng.integers(1, 4))
            a[-1] = 1
        elif cls == 2:
            a = np.zeros(n, dtype=int)
            a[-1] = 1
        elif cls == 3:
            b[-1] = 0
        if X.rank([X.vec(a), X.vec(b)]) == 2:
            return a, b
    raise RuntimeError


def g_points(ctx, rng, i):
    import geometer as g

    n = [2, 3, 4][i % 3]  # CP1, plane, space
    cls = (i // 3) % 4
    a, b = _pair(rng, n, cls)
    ts = [PARAMS[k] for k in rng.choice(len(PARAMS), size=4, replace=False)]
    P = [g.Point(_on_line(a, b, t) * gen.pick(rng, [1, -1, 2])) for t in ts]
    v0 = _try(g.crossratio, *P)
    # mixed dtypes per argument (the value depends on the points only): integer a, d with a float / complex non-integer representative of b, c and vice versa
    f1, f2 = [(0.5, 1.5), (0.25, 1), (0.5 + 0j, 1), (1j, 0.5), (1, 0.75)][i % 5]
    Pm = [P[0], g.Point(P[1].array * f1), g.Point(P[2].array * f2), P[3]]
    _try(g.crossratio, *Pm)
    _try(g.crossratio, Pm[1], Pm[0], Pm[3], Pm[2])
    if n == 3:
        _try(g.crossratio, *Pm, g.Point(gen.nonzero_vec(rng, 3, 4)))
    if v0 is not None and np.isfinite(v0) and abs(v0) > 1e-9 and abs(v0 - 1) > 1e-9:
        v0 = complex(v0)
        # the five symmetry identities on recorded values
        ids = [("cr(b,a,d,c)", (1, 0, 3, 2), lambda x: x), ("cr(c,d,a,b)", (2, 3, 0, 1), lambda x: x), ("1/cr(a,b,d,c)", (0, 1, 3, 2), lambda x: 1 / x),
               ("1-cr(a,c,b,d)", (0, 2, 1, 3), lambda x: 1 - x), ("cr(d,c,b,a)", (3, 2, 1, 0), lambda x: x)]
        for name, perm, f in ids:
            v = _try(g.crossratio, *[P[k] for k in perm])
            if v is None or not np.isfinite(v) or abs(complex(v)) < 1e-12:
                ctx.skip("symmetry", "degenerate permuted value")
                continue
            ok = abs(f(complex(v)) - v0) <= 1e-8 * max(1, abs(v0))
            ctx.judge("symmetry", ok, [p.array for p in P], what=f"cr(a,b,c,d) = {v0} but {name} = {f(complex(v))}", op="crossratio symmetry", nontrivial=True)
        # invariance under a random projective map
        m = gen.invertible_int_matrix(rng, n, 3)
        t = g.Transformation(m)
        v1 = _try(g.crossratio, *[t * p for p in P])
        if v1 is not None:
            ctx.judge("invariance", bool(np.isclose(v1, v0, rtol=1e-8, atol=1e-10)), [m, *[p.array for p in P]], what=f"cross ratio changes under a projective map: {v0} vs {v1}",
                      op="crossratio invariance", nontrivial=True)
    # Gaussian-integer points on CP1 / the plane
    if n <= 3 and i % 4 == 0:
        ac, bc = a.astype(complex) + 1j * gen.coords(rng, (n,), 2, "int"), b.astype(complex)
        if X.rank([X.vec(ac), X.vec(bc)]) == 2:
            _try(g.crossratio, *[g.Point(ac + (t if t != "inf" else 0) * bc) if t != "inf" else g.Point(bc) for t in ts])
    # complex parameters on a complex line (CP1, plane, space): the cross ratio is not real
    if i % 2 == 1:
        ac = a.astype(complex) + 1j * gen.coords(rng, (n,), 2, "int")
        bc = b.astype(complex) + 1j * gen.coords(rng, (n,), 2, "int")
        if X.rank([X.vec(ac), X.vec(bc)]) == 2:
            zs = set()
            while len(zs) < 4:
                zs.add(complex(int(rng.integers(-3, 4)), int(rng.integers(-3, 4))))
            zs = sorted(zs, key=lambda z: (z.real, z.imag))
            rng.shuffle(zs)
            Pc = [g.Point((ac + z * bc) * gen.pick(rng, [1, 1j, -1, 1 + 1j])) for z in zs]
            _try(g.crossratio, *Pc)
            _try(g.crossratio, Pc[1], Pc[0], Pc[3], Pc[2])
            if True:
                _try(g.harmonic_set, Pc[0], Pc[1], Pc[2])
                _try(g.harmonic_set, Pc[2], Pc[0], Pc[3])
            if n >= 3:
                _try(g.crossratio, *[g.PointCollection(np.stack([p.array, q.array])) for p, q in zip(Pc, Pc[::-1])])
    # non-collinear quadruple: must raise (2D and 3D)
    if n >= 3:
        q = gen.nonzero_vec(rng, n, 4)
        if X.rank([X.vec(a), X.vec(b), X.vec(q)]) == 3:
            _try(g.crossratio, P[0], P[1], P[2], g.Point(q))
            if n == 4:
                # coplanar but not collinear
                _try(g.crossratio, g.Point(a), g.Point(b), g.Point(q), g.Point(a + b + q))
    # from_point variant (plane): four points seen from a fifth
    if n == 3:
        pts = [g.Point(gen.nonzero_vec(rng, 3, 4)) for _ in range(5)]
        _try(g.crossratio, *pts[:4], pts[4])
        _try(g.crossratio, *pts[:4], from_point=pts[4])
        _try(g.crossratio, *P, pts[4])  # collinear points seen from a point
    # harmonic set
    c = _on_line(a, b, gen.pick(rng, [1, 2, -1, 3, -2]))
    _try(g.harmonic_set, g.Point(a), g.Point(b), g.Point(c))
    if cls != 3 and n >= 3:
        _try(g.harmonic_set, g.Point(a * 2), g.Point(b), g.Point(-c))
    # collections
    shape = gen.pick(rng, [(3,), (2, 2), (1,), (3, 1), (1, 2)])
    k = int(np.prod(shape))
    cols = [[], [], [], []]
    for _ in range(k):
        aa, bb = _pair(rng, n, int(rng.integers(0, 4)))
        tt = [PARAMS[j] for j in rng.choice(len(PARAMS), size=4, replace=False)]
        for j in range(4):
            cols[j].append(_on_line(aa, bb, tt[j]))
    PC = [g.PointCollection(np.stack(cc).reshape(shape + (n,))) for cc in cols]
    _try(g.crossratio, *PC)
    # every mix of single points and collections in the four positions (a single point broadcasts against the collections)
    if len(shape) == 1 and k > 1:
        singles = [g.Point(_on_line(a, b, PARAMS[int(j)])) for j in rng.choice(len(PARAMS), size=4, replace=False)]
        coll_line = [g.PointCollection(np.stack([_on_line(a, b, PARAMS[int(j)]) for j in rng.choice(len(PARAMS), size=k)])) for _ in range(4)]
        for mask in rng.choice(np.arange(1, 15), size=4, replace=False):
            _try(g.crossratio, *[coll_line[j] if (int(mask) >> j) & 1 else singles[j] for j in range(4)])
        if n == 3:
            # the dual situation: lines of a pencil, single and collection mixed
            vtx = gen.nonzero_vec(rng, 3, 3)
            def pencil_line():
                for _ in range(20):
                    h = gen.nonzero_vec(rng, 3, 4)
                    h = np.cross(vtx, h)
                    if np.any(h):
                        return h
                return np.cross(vtx, np.array([1, 0, 0]))
            ls = [g.Line(pencil_line()) for _ in range(4)]
            lcs = [g.LineCollection(np.stack([pencil_line() for _ in range(k)])) for _ in range(4)]
            for mask in (2, 5, 10, 12):
                _try(g.crossratio, *[lcs[j] if (mask >> j) & 1 else ls[j] for j in range(4)])
    # outer-product broadcasting: a, b along one axis (k, 1), c, d along the other (1, k) -- points of one line
    kk = 3
    outer_pts = [g.PointCollection(np.stack([_on_line(a, b, PARAMS[int(j)]) for j in rng.choice(len(PARAMS), size=kk)]).reshape(sh + (n,)))
                 for sh in ((kk, 1), (kk, 1), (1, kk), (1, kk))]
    _try(g.crossratio, *outer_pts)
    if n >= 3:
        _try(g.harmonic_set, outer_pts[0], outer_pts[2], g.Point(_on_line(a, b, 5)))
    # the first two arguments the same single point, the others collections: cross ratio 1 at every position
    CL = [g.PointCollection(np.stack([_on_line(a, b, PARAMS[int(j)]) for j in rng.choice(len(PARAMS), size=k)]).reshape(shape + (n,))) for _ in range(2)]
    _try(g.crossratio, P[0], P[0], CL[0], CL[1])
    _try(g.crossratio, P[0], g.Point(P[0].array * 2), CL[0], CL[1])
    # integer coordinates of the order of 1000 (products of four determinants leave the int64 range)
    if n >= 3:
        base = np.append(gen.coords(rng, (n - 1,), 3000, "int"), 1)
        dirn = np.append(gen.nonzero_vec(rng, n - 1, 600), 0)
        xs = rng.choice(np.arange(-6, 7), size=4, replace=False)
        _try(g.crossratio, *[g.Point(base + int(x) * dirn) for x in xs])
        if n == 3:
            o = g.Point(np.append(gen.coords(rng, (2,), 2000, "int"), 1))
            _try(g.crossratio, *[g.Point(base + int(x) * dirn) for x in xs], o)
    # mixed validity: one position of the collection is not collinear (the error must still be raised)
    if n >= 3 and k > 1:
        bad = int(rng.integers(k))
        for _ in range(20):
            q = gen.nonzero_vec(rng, n, 4)
            if X.rank([X.vec(cols[0][bad]), X.vec(cols[1][bad]), X.vec(q)]) == 3:
                break
        else:
            return
        j = int(rng.integers(2, 4))
        mixed = [list(cc) for cc in cols]
        mixed[j][bad] = q
        _try(g.crossratio, *[g.PointCollection(np.stack(cc).reshape(shape + (n,))) for cc in mixed])


def g_lines(ctx, rng, i):
    """Four concurrent lines (2D and 3D) / coaxial planes, vertices of every class."""
    import geometer as g

    dim = 2 + i % 2
    cls = (i // 2) % 4
    n = dim + 1
    ts = [PARAMS[k] for k in rng.choice(len(PARAMS), size=4, replace=False)]
    if dim == 2:
        # pencil of lines through the vertex v: lines a + t b with a, b two lines through v
        a, b = _pair(rng, 3, 0)
        if cls == 1:  # vertex on a coordinate axis: x = 0
            v = np.array([0, int(rng.integers(-4, 5)) or 1, 1])
        elif cls == 2:
            v = np.array([0, 0, 1])
        elif cls == 3:
            v = np.append(gen.nonzero_vec(rng, 2, 3), 0)
        else:
            v = gen.nonzero_vec(rng, 3, 4)
        # two independent lines through v
        for _ in range(50):
            u1, u2 = gen.nonzero_vec(rng, 3, 4), gen.nonzero_vec(rng, 3, 4)
            a, b = np.cross(v, u1), np.cross(v, u2)
            if X.rank([X.vec(a), X.vec(b)]) == 2:
                break
        else:
            return
        L = [g.Line(_on_line(a, b, t)) for t in ts]
        _try(g.crossratio, *L)
        # not concurrent
        _try(g.crossratio, L[0], L[1], L[2], g.Line(gen.nonzero_vec(rng, 3, 4)))
        # cross ratio of lines equals the cross ratio of their points on a transversal: library consistency (recorded, compared)
    else:
        # four planes through a common line / four lines of a planar pencil
        e, f = _pair(rng, 4, cls if cls != 3 else 0)
        E = [g.Plane(_on_line(e, f, t)) for t in ts]
        _try(g.crossratio, *E)
        # planar pencil of 3D lines through the vertex p in the plane spanned with q, r
        for _ in range(50):
            p, q, r = (gen.nonzero_vec(rng, 4, 3) for _ in range(3))
            if X.rank([X.vec(p), X.vec(q), X.vec(r)]) == 3:
                break
        else:
            return
        P = g.Point(p)
        L = []
        for t in ts:
            L.append(_try(g.Line, P, g.Point(_on_line(q, r, t))))
        if all(x is not None for x in L):
            _try(g.crossratio, *L)
            # not a pencil: the fourth line (i) lies in the plane of the pencil but misses the vertex, (ii) passes through the vertex but
            # leaves the plane, (iii) is a random line of space
            other = [g.Point(_on_line(q, r, t)) for t in (ts[0], ts[1])]
            s = gen.nonzero_vec(rng, 4, 3)
            bad = [_try(g.Line, other[0], other[1])]
            if X.rank([X.vec(p), X.vec(q), X.vec(r), X.vec(s)]) == 4:
                bad.append(_try(g.Line, P, g.Point(s)))
                bad.append(_try(g.Line, g.Point(s), g.Point(_on_line(q, r, ts[2]))))
            for m in bad:
                if m is not None:
                    _try(g.crossratio, L[0], L[1], L[2], m)
                    _try(g.crossratio, L[0], m, L[1], L[2])


GROUPS = [
    {"name": "points", "fn": g_points, "quick": 720, "thorough": 7200},
    {"name": "lines", "fn": g_lines, "quick": 480, "thorough": 4800},
]


# ---------------------------------------------------------------------------------
# known findings
# ---------------------------------------------------------------------------------

def f10_base_point_is_vertex(rec, feat):
    """crossratio of four concurrent 2D lines reduces each line to its arbitrarily chosen base point; when a base point coincides with the
    pencil vertex the brackets vanish and the result is nan/inf/wrong."""
    return rec["monitor"] == "crossratio" and feat.get("kind") == "line" and feat.get("dim") == 2 and feat.get("base_point_is_vertex") is True


def f11_lines3d(rec, feat):
    """crossratio of four concurrent lines of 3-space: the base points of the lines are not collinear and the pencil vertex is ignored."""
    return rec["monitor"] in ("crossratio", "crossratio.raise") and feat.get("kind") == "line" and feat.get("dim") == 3


def f11_points3d_coplanar(rec, feat):
    """four coplanar but not collinear points of 3-space: is_collinear is an alias of is_coplanar, so NotCollinear is not raised."""
    return rec["monitor"] == "crossratio.raise" and feat.get("kind") == "point" and feat.get("dim") == 3 and feat.get("rank") == 3


def f29_planes_axis_at_infinity(rec, feat):
    """four planes through a common line at infinity (parallel planes / the plane at infinity among them): the reduction to a section
    plane takes direction of lines at infinity and raises."""
    return rec["monitor"] == "crossratio" and feat.get("kind") == "plane" and bool(feat.get("axis_at_infinity")) and " raised " in rec["what"]


CLASSIFIERS = {"f29_planes_axis_at_infinity": f29_planes_axis_at_infinity, "f10_base_point_is_vertex": f10_base_point_is_vertex, "f11_lines3d": f11_lines3d, "f11_points3d_coplanar": f11_points3d_coplanar}
