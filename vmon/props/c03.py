"""C03 -- results depend on the projective object, not on its homogeneous representative."""
from __future__ import annotations

import functools
import types

import numpy as np

from .. import catalog, core, gen
from .. import exact as X
from .. import ref as R
from . import c04 as S

RULE = ("twin execution: every top-level call of a public geometric operation is repeated with one tensor argument replaced by the same "
        "projective object in another representative (coordinates multiplied by lambda in {-1,-3,1/2,2,7,-1/4,1e3,1e-3}; a different lambda per "
        "element of a collection and per vertex of a polytope; complex lambda for join/meet/==/crossratio) and the two results are compared "
        "(booleans equal, numbers close, angles modulo pi, projective objects equal up to scale, unordered pairs as sets). Workload: catalogue "
        "over 2D/3D pools of single objects, collections, polytopes, quadrics and transformations, plus the repository's tests; == is checked "
        "for multiples / clearly different objects / symmetry / reflexivity on lattices. Non-trivial = the base call returned normally and the "
        "scaled operand is not a unit multiple; distinct by (operation, operand digests, argument position, lambda)."
        " Every constructor and alternative constructor (classmethods wrapped, __init__ through a recorded call) in general and special position (chords parallel to the tangent of from_tangent, from_foci off the symmetry axes); the same objects handed over in another memory layout (Fortran order, transposed views, negative strides) with homogeneous coordinates other than 1; cross ratios whose first two arguments coincide and angles of parallel lines (degenerate positions with an answer of their own) under the twin monitor.")
SHARDS = (8, 16)
REQUIRED = ["twin", "eq.multiple", "eq.different"]
ASSUMPTIONS = ["|lambda| in [1e-3, 1e3]: the library's absolute tolerances (1e-8) are by design not scale free", "metric operations are judged on finite operands only"]
EXHAUSTIVE = {"quick": [], "thorough": []}

# raw accessors / tensor-level operations: representative dependent by their nature
RAW_OPS = {"array", "shape", "dtype", "rank", "free_indices", "tensor_shape", "dim", "T", "transpose", "copy", "__copy__", "expand_dims", "size", "__len__", "__repr__",
           "__getitem__", "__iter__", "tensor_product", "__array__", "from_tensor", "from_array", "is_zero", "pdim", "is_dual", "__neg__", "__rmul__", "__radd__", "__rsub__",
           "__truediv__", "__pow__", "lie_coordinates", "_edges", "covariant_tensor", "contravariant_tensor", "__apply__"}
# complex scale factors only for the purely algebraic operations named by the property
ALGEBRAIC = {"join", "meet", "__eq__", "crossratio"}
ANGLE_OPS = {"angle", "angles", "intersection_angle"}
BASIS_OPS = {"basis_matrix"}
ARBITRARY_OPS = {"base_point", "general_point"}


# constructors whose arguments are Euclidean data (centres, vertices): judged on finite points only
CONSTRUCTORS_METRIC = {"Circle", "Ellipse", "Sphere", "Cone", "Cylinder", "RegularPolygon", "from_foci", "Segment", "Polygon", "Triangle", "Rectangle", "Cuboid", "Simplex",
                       "Polyhedron"}

LINEAR_OPS = {"rotation", "translation", "reflection", "join", "meet", "contains", "__eq__", "crossratio", "dist", "angle", "is_coplanar", "is_collinear", "is_concurrent", "is_parallel", "parallel",
              "perpendicular", "project", "mirror", "harmonic_set", "is_perpendicular", "is_cocircular", "angle_bisectors", "isinf", "apply", "__mul__"}


def _lam_for(rng, obj, complex_ok, extremes=True):
    """Scale factors for one operand: scalar for quadrics/transformations/single objects, per element for collections,
    per vertex for polytopes."""
    from geometer.curve import QuadricTensor
    from geometer.shapes import PolytopeTensor
    from geometer.transformation import TransformationTensor

    pool = list(gen.LAMBDAS)
    if isinstance(obj, (QuadricTensor, TransformationTensor, PolytopeTensor)) or not extremes:
        # determinants of (n+1)x(n+1) matrices scale with lambda^(n+1), quadratic forms with lambda^2: keep the factor moderate for the
        # library's absolute 1e-8 tests (they are, by design, not scale free)
        pool = [x for x in pool if 0.2 <= abs(x) <= 10]
    if complex_ok and rng.random() < 0.3:
        pool = gen.CLAMBDAS
    if isinstance(obj, PolytopeTensor):
        shape = obj.shape[:-1] + (1,)  # one factor per vertex
    elif isinstance(obj, (QuadricTensor, TransformationTensor)):
        shape = obj.shape[:-2] + (1, 1)
    else:
        k = S.coll_axes(obj)
        shape = obj.shape[:k] + (1,) * (obj.rank - k)
    lam = np.array([pool[int(i)] for i in rng.integers(0, len(pool), size=int(np.prod(shape)))]).reshape(shape)
    # the extreme factors only for one entry at a time
    return lam


def rescaled(obj, lam):
    """The same projective object with coordinates multiplied by lam (cached supporting subspaces recomputed)."""
    from geometer.point import join
    from geometer.shapes import PolygonTensor, SegmentTensor

    new = obj.copy()
    arr = obj.array * lam
    if np.iscomplexobj(arr) and not np.iscomplexobj(lam):
        pass
    new.array = arr
    if isinstance(obj, SegmentTensor):
        new._line = join(*new.vertices)
    if isinstance(obj, PolygonTensor):
        new._plane = join(*new.vertices[: new.dim]) if new.dim > 2 else None
    return new


def _finite_points(objs):
    from geometer.point import PointLikeTensor

    for o in objs:
        if isinstance(o, PointLikeTensor) and np.any(np.isclose(o.array[..., -1], 0, atol=1e-8)):
            return False
    return True


def compare(opname, base, twin, dim3=False):
    """Returns (ok, why); ok None = not comparable."""
    from geometer.base import ProjectiveTensor
    from geometer.shapes import PolytopeTensor

    if S._is_tensor(base):
        if not S._is_tensor(twin) or type(base) is not type(twin):
            return False, f"result classes differ: {type(base).__name__} vs {type(twin).__name__}"
        if base.array.shape != twin.array.shape:
            return False, f"result shapes differ: {base.array.shape} vs {twin.array.shape}"
        if not isinstance(base, ProjectiveTensor):
            return None, "non-projective tensor result"
        k = S.coll_axes(base)
        if isinstance(base, PolytopeTensor):
            a = base.array.reshape(-1, base.shape[-1])
            b = twin.array.reshape(-1, twin.shape[-1])
        else:
            n = int(np.prod(base.shape[:k], dtype=int))
            a = base.array.reshape(n, -1)
            b = twin.array.reshape(n, -1)
        for x, y in zip(a, b):
            if not (np.all(np.isfinite(x)) and np.all(np.isfinite(y))):
                if not np.array_equal(np.isfinite(x), np.isfinite(y)):
                    return False, "finite/non-finite pattern differs"
                continue
            zx, zy = not np.any(np.abs(x) > 1e-12), not np.any(np.abs(y) > 1e-12)
            if zx or zy:
                if zx != zy:
                    return False, "zero/non-zero result"
                continue
            if X.proj_residual(x, y) > 1e-6:
                return False, f"projectively different results (residual {X.proj_residual(x, y):.3g})"
        return True, ""
    if isinstance(base, (np.ndarray, np.generic, bool, int, float, complex)):
        a, b = np.asarray(base), np.asarray(twin)
        if a.shape != b.shape:
            return False, f"result shapes differ: {a.shape} vs {b.shape}"
        if a.dtype == bool or b.dtype == bool:
            return bool(np.array_equal(a, b)), f"boolean results differ: {a!r} vs {b!r}"
        if opname in ANGLE_OPS:
            # modulo pi; in 3-space only the unoriented angle is defined (the orientation of the auxiliary plane basis is arbitrary)
            ok = S._angle_close(a, b) or (dim3 and S._angle_close(np.abs(a), np.abs(b)))
            return ok, f"angles differ: {a!r} vs {b!r}"
        with np.errstate(all="ignore"):
            ok = bool(np.all(np.isclose(a, b, rtol=1e-6, atol=1e-8, equal_nan=True)))
        return ok, f"numbers differ: {a!r} vs {b!r}"
    if isinstance(base, (list, tuple)):
        if not isinstance(twin, (list, tuple)):
            return False, "sequence vs non-sequence"
        if len(base) != len(twin):
            # coincident pairs may be reported once or twice
            fa, fb = S._flatten_points(base), S._flatten_points(twin)
            if fa is None or fb is None:
                return False, f"sequence lengths differ: {len(base)} vs {len(twin)}"
            return S._points_multiset_equal(fa, fb), f"different point sets ({len(base)} vs {len(twin)} items)"
        oks = [compare(opname, x, y, dim3) for x, y in zip(base, twin)]
        if all(o[0] is True for o in oks):
            return True, ""
        if any(o[0] is None for o in oks):
            return None, "sequence with non-comparable items"
        # unordered?  (position by position for aligned collections)
        if all(S._is_tensor(x) for x in base) and all(S._is_tensor(y) for y in twin):
            cs = S.coll_shape(base[0])
            if cs and all(S.coll_shape(x) == cs for x in base) and all(S.coll_shape(y) == cs for y in twin) and not any(hasattr(x, "pdim") for x in base):
                for pos in R.positions(cs, 64):
                    a = [np.asarray(x.array[pos]).ravel() for x in base]
                    b = [np.asarray(y.array[pos]).ravel() for y in twin]
                    if not S._points_multiset_equal(a, b):
                        return False, f"different sets of results at position {pos}"
                return True, ""
            n = len(base)
            used = set()
            for x in base:
                hit = None
                for j, y in enumerate(twin):
                    if j not in used and compare(opname, x, y, dim3)[0]:
                        hit = j
                        break
                if hit is None:
                    return False, next(o[1] for o in oks if not o[0])
                used.add(hit)
            return True, ""
        return False, next(o[1] for o in oks if not o[0])
    if base is None or isinstance(base, (str, type)):
        return base == twin, "values differ"
    return None, f"result type {type(base).__name__}"


# ---------------------------------------------------------------------------------
# the twin-execution monitor
# ---------------------------------------------------------------------------------

def post_twin(ctx, call):
    if call.depth != 0:
        return
    opname = call.name.split(".")[-1]
    if opname in RAW_OPS:
        return
    args = list(call.args)
    tensor_pos = [k for k, a in enumerate(args) if S._is_tensor(a)]
    if not tensor_pos:
        return
    if not S._geometric(opname, call.args):
        ctx.skip("twin", "tensor-level arithmetic (array semantics: C19)")
        return
    if not S._types_ok(call.orig, call.args):
        ctx.skip("twin", "argument types outside the declared signature")
        return
    from geometer.base import ProjectiveTensor
    from geometer.curve import QuadricTensor
    from geometer.point import PointLikeTensor, SubspaceTensor
    from geometer.shapes import PolytopeTensor

    operands = [args[k] for k in tensor_pos]
    if opname in ARBITRARY_OPS:
        ctx.skip("twin", "result is an arbitrarily chosen representative (defining relation checked by C10)")
        return
    if opname == "dist" and all(isinstance(o, SubspaceTensor) for o in operands):
        ctx.skip("twin", "dist between two subspaces is only defined for parallel ones (C09)")
        return
    if opname in ("is_tangent", "dual") and any(isinstance(o, QuadricTensor) and np.any(np.abs(np.linalg.det(np.asarray(o.array, dtype=complex))) < 1e-6) for o in operands):
        ctx.skip("twin", "dual / is_tangent of a degenerate quadric (no inverse matrix)")
        return
    if not all(isinstance(o, ProjectiveTensor) for o in operands):
        ctx.skip("twin", "non-projective tensor operand")
        return
    if not all(R.finite(o.array) for o in operands):
        ctx.skip("twin", "non-finite operand")
        return
    if opname in ("__add__", "__sub__", "__mul__") and isinstance(args[0], PointLikeTensor) and not _finite_points(operands):
        ctx.skip("twin", "point arithmetic with a point at infinity (acts as a direction: scale matters by design)")
        return
    # coincident operands: degenerate configuration (nan / arbitrary results are not claimed to be representative independent)
    for x in range(len(operands)):
        for y in range(x + 1, len(operands)):
            a, b = operands[x], operands[y]
            if a is b:
                ctx.skip("twin", "the same object passed twice (degenerate configuration)")
                return
            if type(a).__name__.replace("Collection", "") == type(b).__name__.replace("Collection", "") and a.array.shape == b.array.shape and opname != "__eq__":
                k = S.coll_axes(a)
                n = int(np.prod(a.shape[:k], dtype=int))
                if any(X.proj_residual(u, v) < 1e-9 for u, v in zip(a.array.reshape(n, -1), b.array.reshape(n, -1)) if np.any(u != 0) and np.any(v != 0)):
                    ctx.skip("twin", "coincident operands (degenerate configuration)")
                    return
    if opname == "harmonic_set" and len(operands) == 3:
        # precondition: three distinct collinear points (at every position); otherwise what is returned or raised is not specified
        try:
            A3 = np.stack(np.broadcast_arrays(*[np.asarray(o.array, dtype=complex) for o in operands]), axis=-2)
            sv = np.linalg.svd(A3.reshape((-1,) + A3.shape[-2:]), compute_uv=False)
            if np.any(sv[:, 2] > 1e-9 * sv[:, 0]) or np.any(sv[:, 1] < 1e-6 * sv[:, 0]):
                ctx.skip("twin", "harmonic_set of points that are not collinear (precondition not met)")
                return
        except Exception:
            ctx.skip("twin", "harmonic_set operands do not broadcast")
            return
    if opname == "components":
        from geometer.utils import det as _det

        d = np.abs(np.linalg.det(np.asarray(operands[0].array, dtype=complex)))
        if np.any(d > 1e-8):
            ctx.skip("twin", "components of a non-degenerate quadric (precondition not met)")
            return
    metric = opname in CONSTRUCTORS_METRIC or opname in {"translation", "rotation", "dist", "angle", "angles", "length", "area", "volume", "radius", "inradius", "center", "centroid", "circumcenter", "midpoint", "perpendicular",
                        "mirror", "project", "is_perpendicular", "angle_bisectors", "is_cocircular", "foci", "parallel", "is_parallel", "normalized_array",
                        "intersection_angle", "__add__", "__sub__"}
    if metric and not _finite_points(operands):
        ctx.skip("twin", "metric operation with a point at infinity")
        return
    base_exc = call.exc
    rng = np.random.default_rng([core.digest(call.name, *[o.array for o in operands]) & 0xFFFFFFFF])
    ctx.note(("twin_ops", call.name))
    feat0 = {"op": call.name, "classes": [type(a).__name__ for a in operands]}
    for k in tensor_pos:
        obj = args[k]
        if isinstance(obj, PolytopeTensor) and np.any(np.isclose(obj.array[..., -1], 0, atol=1e-8)):
            ctx.skip("twin", "polytope with a vertex at infinity (a ray: the sign of the direction matters; only finite vertices are claimed)")
            continue
        quadratic = any(isinstance(o, QuadricTensor) for o in operands)
        lam = _lam_for(rng, obj, opname in ALGEBRAIC, extremes=(opname in LINEAR_OPS and not quadratic))
        if np.all(lam == 1):
            continue
        try:
            tw = rescaled(obj, lam)
        except Exception as e:
            ctx.skip("twin", f"rescaled operand not constructible: {type(e).__name__}")
            continue
        targs = list(args)
        # the same object passed twice stays one object
        for j in tensor_pos:
            if args[j] is obj:
                targs[j] = tw
        try:
            tres = call.orig(*targs, **call.kwargs)
            texc = None
        except Exception as e:
            tres, texc = None, e
        feat = dict(feat0, arg=k, lam=[complex(x) if np.iscomplexobj(lam) else float(x) for x in np.ravel(lam)[:6]], scaled_cls=type(obj).__name__,
                    negative=bool(np.any(np.real(lam) < 0)), complex=bool(np.iscomplexobj(lam)))
        ops = [*operands, {"scaled_arg": k, "lambda": np.ravel(lam)[:8]}]
        if base_exc is not None or texc is not None:
            same = (base_exc is None) == (texc is None) and (base_exc is None or type(base_exc) is type(texc))
            ctx.judge("twin", same, ops, what=f"{call.name}: raises {type(base_exc).__name__ if base_exc else 'nothing'} for the original but "
                      f"{type(texc).__name__ if texc else 'nothing'} ({str(texc)[:80]}) when argument {k} is rescaled", op=call.name, feat=feat, nontrivial=False)
            continue
        if opname in BASIS_OPS and isinstance(call.result, np.ndarray):
            a, b = np.asarray(call.result), np.asarray(tres)
            ok = a.shape == b.shape and all(X.subspace_residual(list(x), list(y)) <= 1e-6 for x, y in zip(a.reshape((-1,) + a.shape[-2:]), b.reshape((-1,) + b.shape[-2:])))
            why = "basis spans a different subspace"
        else:
            if isinstance(call.result, types.GeneratorType):
                continue
            ok, why = compare(opname, call.result, tres, dim3=any(o.shape[-1] == 4 for o in operands))
        if ok is None:
            ctx.skip("twin", f"not comparable: {why}")
            continue
        if ok is False and opname == "from_foci":
            feat["other_confocal_solution"] = _both_confocal(call.result, tres, args)
        ctx.judge("twin", ok, ops, what=f"{call.name}: result changes when argument {k} ({type(obj).__name__}) is multiplied by {np.ravel(lam)[:4]}: {why}", op=call.name,
                  feat=feat, nontrivial=True, expected=call.result if not isinstance(call.result, (list, tuple)) else None, observed=tres if not isinstance(tres, (list, tuple)) else None)


def _both_confocal(c0, c1, args):
    """Are both results valid answers of from_foci -- real conics through the boundary point whose foci are the two given points
    (the ellipse and the hyperbola of the confocal family)?"""
    try:
        f1, f2, bound = [np.asarray(a.normalized_array, dtype=complex) for a in args[-3:]]
        for c in (c0, c1):
            A = np.asarray(c.array, dtype=complex)
            A = A / A.flat[int(np.abs(A).argmax())]
            if np.abs(A.imag).max() > 1e-8 or abs(bound @ A @ bound) > 1e-8 * max(1.0, float(np.abs(bound).max()) ** 2):
                return False
            fo = [np.asarray(x.normalized_array, dtype=complex) for x in c.foci]
            if len(fo) != 2 or not all(min(np.abs(x - f1).max(), np.abs(x - f2).max()) < 1e-6 * max(1.0, float(np.abs(x).max())) for x in fo):
                return False
        return True
    except Exception:  # noqa: BLE001
        return False


def f33_from_foci_other_solution(rec, feat):
    """Two conics of the confocal family pass through a boundary point in general position (an ellipse and a hyperbola). from_foci
    computes both and keeps the first one whose matrix passes an *exact* np.isreal test; both are real up to rounding noise of 1e-16, so
    the noise -- and with it the representative of an argument -- decides which of the two valid answers is returned."""
    return rec["monitor"] == "twin" and feat.get("op") == "Conic.from_foci" and feat.get("other_confocal_solution") is True


CLASSIFIERS = {"f33_from_foci_other_solution": f33_from_foci_other_solution}


# ---------------------------------------------------------------------------------
# == of projective objects and is_multiple
# ---------------------------------------------------------------------------------

def post_eq(ctx, call):
    """ProjectiveTensor.__eq__ / PolytopeTensor.__eq__ at any depth: exact multiples are equal, clearly different objects are not,
    the answer is symmetric."""
    from geometer.shapes import PolytopeTensor

    if call.exc is not None:
        return
    a, b = call.args[0], call.args[1]
    if not S._is_tensor(b) or call.result is NotImplemented:
        return
    if isinstance(a, PolytopeTensor) or isinstance(b, PolytopeTensor):
        return  # vertex cycles: C17
    if a.array.shape != b.array.shape or not (R.finite(a.array) and R.finite(b.array)):
        return
    if a._covariant_indices != b._covariant_indices or a._contravariant_indices != b._contravariant_indices:
        return
    k = a.free_indices
    n = int(np.prod(a.shape[:k], dtype=int))
    A, B = a.array.reshape(n, -1), b.array.reshape(n, -1)
    if n > 64:
        return
    exact_ok = R.is_dyadic(A, 30, 2 ** 20) and R.is_dyadic(B, 30, 2 ** 20)
    status = []
    for x, y in zip(A, B):
        zx, zy = not np.any(x != 0), not np.any(y != 0)
        if zx or zy:
            status.append("zero")
            continue
        if exact_ok and X.is_multiple(X.vec(x), X.vec(y)):
            status.append("mult")
            continue
        r = X.proj_residual(x, y)
        small = np.any((np.abs(x) > 0) & (np.abs(x) < 1e-3)) or np.any((np.abs(y) > 0) & (np.abs(y) < 1e-3))
        if r > 1e-3 and not small and max(np.abs(x).max(), np.abs(y).max()) < 1e6:
            status.append("diff")
        elif r < 1e-13 and not small:
            status.append("mult")
        else:
            status.append("unclear")
    got = bool(call.result)
    if "unclear" in status or "zero" in status:
        ctx.skip("eq.multiple", "near-multiple / zero element (tolerance band)")
        return
    if all(s == "mult" for s in status):
        ctx.judge("eq.multiple", got, [a, b], what="== is False for objects that are non-zero multiples of each other", op="__eq__", nontrivial=not np.array_equal(A, B))
    elif any(s == "diff" for s in status):
        ctx.judge("eq.different", not got, [a, b], what="== is True for objects that are clearly not multiples of each other", op="__eq__", nontrivial=True)
    # symmetry
    try:
        sw = call.orig(b, a)
        if sw is not NotImplemented:
            ctx.judge("eq.symmetric", bool(sw) == got, [a, b], what="a == b differs from b == a", op="__eq__", nontrivial=False)
    except Exception:
        pass


def install(ctx):
    import geometer.base as B
    import geometer.operators as O
    import geometer.point as P

    seen = set()
    stack = [B.Tensor]
    while stack:
        c = stack.pop()
        if c in seen:
            continue
        seen.add(c)
        stack.extend(c.__subclasses__())
        if c.__module__.split(".")[0] != "geometer":
            continue
        for name, raw in list(c.__dict__.items()):
            if name == "__eq__" and c.__name__ in ("ProjectiveTensor",):
                core.wrap_method(c, name, _both(post_eq, post_twin))
                continue
            if name.startswith("_") and name not in ("__add__", "__sub__", "__mul__", "__eq__"):
                continue
            if isinstance(raw, (property, types.FunctionType, functools.cached_property)):
                core.wrap_method(c, name, post_twin)
            elif isinstance(raw, classmethod) and name not in RAW_OPS:
                core.wrap_method(c, name, post_twin)  # alternative constructors: Conic.from_points / from_tangent / ..., Transformation.from_points
    import geometer.transformation as T

    for mod, names in ((O, ["crossratio", "harmonic_set", "angle", "angle_bisectors", "dist", "is_cocircular", "is_perpendicular", "is_coplanar"]),
                       (P, ["join", "meet"]), (T, ["rotation", "translation", "reflection"])):
        for name in names:
            core.wrap_function(mod, name, post_twin)


def _both(f, g):
    def h(ctx, call):
        f(ctx, call)
        g(ctx, call)

    return h


# ---------------------------------------------------------------------------------
# workload
# ---------------------------------------------------------------------------------

def g_catalogue(ctx, rng, i):
    dim = 2 + i % 2
    cshape = [(3,), (2,), (2, 2)][(i // 2) % 3]
    pool = catalog.build_pool(rng, dim, cshape=cshape, with_collections=(i % 4 != 3))
    specs = catalog.enumerate_calls(pool, rng, per_method_pairs=4, func_samples=40, include_scalars=False)
    order = rng.permutation(len(specs))
    for k in order[:1500]:
        try:
            r = specs[k].run()
            if isinstance(r, types.GeneratorType):
                list(r)
        except Exception:
            pass


def _construct(ctx, cls, *args, **kwargs):
    """Run a constructor as a top-level call under the twin monitor: the constructed object is the result, the twin is the object
    constructed from the rescaled arguments."""
    call = core.Call(cls.__name__, args, kwargs, 0, cls)
    try:
        call.result = cls(*args, **kwargs)
    except Exception as e:  # noqa: BLE001
        call.exc = e
    st = core.STATE
    st.suspended += 1
    try:
        post_twin(ctx, call)
    finally:
        st.suspended -= 1
    return call.result


def g_constructors(ctx, rng, i):
    """Every constructor / alternative constructor with arguments in general and in special position (a chord parallel to the tangent,
    centres and vertices given in a non-normalised representative are produced by the twin monitor itself)."""
    import geometer as g

    dim = 2 + i % 2
    n = dim + 1
    mode = ["int", "float"][(i // 2) % 2]

    def pt(finite=True):
        v = gen.coords(rng, (dim,), 5, mode)
        return g.Point(np.append(v, 1)) if mode == "int" else g.Point(*[float(x) for x in v])

    def tr(f, *a, **k):
        try:
            return f(*a, **k)
        except Exception:  # noqa: BLE001
            return None

    P = [pt() for _ in range(6)]
    if dim == 2:
        tr(_construct, ctx, g.Line, P[0], P[1])
        tr(g.Conic.from_points, *P[:5])
        l1, l2 = tr(g.Line, P[0], P[1]), tr(g.Line, P[2], P[3])
        if l1 is not None and l2 is not None:
            tr(g.Conic.from_lines, l1, l2)
            # tangent in general position
            H = [np.asarray(p.normalized_array, dtype=float) for p in P[:6]]
            tg = np.cross(H[4], H[5])
            if all(abs(np.linalg.det(np.array(c3))) > 1e-6 for c3 in __import__("itertools").combinations(H[:4], 3)) and all(abs(x @ tg) > 1e-6 for x in H[:4]):
                tr(g.Conic.from_tangent, tr(g.Line, P[4], P[5]), *P[:4])
        # tangent parallel to the chord a-c (its auxiliary point lies at infinity), and to b-d as well
        u = gen.nonzero_vec(rng, 2, 3)
        a = gen.coords(rng, (2,), 5, "int")
        c = a + int(rng.integers(1, 4)) * u
        b, d = gen.coords(rng, (2,), 5, "int"), gen.coords(rng, (2,), 5, "int")
        q = gen.coords(rng, (2,), 6, "int")
        tangent = tr(g.Line, g.Point(*q.tolist()), g.Point(*(q + u).tolist()))

        def general(*pts):
            # no three of the four points collinear, none of them on the tangent (otherwise the conic is not defined)
            h = [np.append(p, 1) for p in pts]
            t = np.cross(np.append(q, 1), np.append(q + u, 1))
            return all(abs(np.linalg.det(np.array(c3))) > 0.5 for c3 in __import__("itertools").combinations(h, 3)) and all(abs(x @ t) > 0.5 for x in h)

        if tangent is not None and general(a, b, c, d):
            tr(g.Conic.from_tangent, tangent, g.Point(*a.tolist()), g.Point(*b.tolist()), g.Point(*c.tolist()), g.Point(*d.tolist()))
            if general(a, b, c, b + 2 * u):
                tr(g.Conic.from_tangent, tangent, g.Point(*a.tolist()), g.Point(*b.tolist()), g.Point(*c.tolist()), g.Point(*(b + 2 * u).tolist()))
        # boundary point off both symmetry axes of the foci (on them one of the two confocal conics degenerates: not defined, cf. C13)
        F1, F2, B = (np.asarray(p.normalized_array, dtype=float)[:2] for p in P[:3])
        ax = F2 - F1
        wv = B - (F1 + F2) / 2
        if np.linalg.norm(ax) > 0.5 and abs(wv @ ax) > 1e-3 * np.linalg.norm(ax) and abs(wv[0] * ax[1] - wv[1] * ax[0]) > 1e-3 * np.linalg.norm(ax):
            tr(g.Conic.from_foci, P[0], P[1], P[2])
        tr(g.Conic.from_crossratio, float(rng.integers(2, 6)) / 2, *P[:4])
        tr(_construct, ctx, g.Circle, P[0], float(rng.integers(1, 5)))
        tr(_construct, ctx, g.Circle, P[0], float(gen.pick(rng, [0.5, 1.5, 2.25, 0.75])))  # (non-integer squares: dtype of the centre matters)
        tr(_construct, ctx, g.Ellipse, P[0], float(rng.integers(1, 5)), float(rng.integers(1, 5)))
        tr(_construct, ctx, g.Ellipse, P[0], float(gen.pick(rng, [0.5, 1.5, 2.25])), float(gen.pick(rng, [0.75, 2.5])))
        tr(_construct, ctx, g.RegularPolygon, P[0], float(rng.integers(1, 4)), int(rng.integers(3, 7)))
        tr(g.Transformation.from_points, *[(P[k], P[(k + 2) % 6]) for k in range(4)])
        c1, c2 = tr(g.Conic.from_points, *P[:5]), tr(g.Conic.from_points, *P[1:6])
        if c1 is not None and c2 is not None:
            tr(g.Transformation.from_points_and_conics, P[:3], P[1:4], c1, c2)
        tr(g.translation, P[0])
        if l1 is not None:
            tr(g.reflection, l1)
    else:
        tr(_construct, ctx, g.Line, P[0], P[1])
        tr(_construct, ctx, g.Plane, P[0], P[1], P[2])
        e, f = tr(g.Plane, P[0], P[1], P[2]), tr(g.Plane, P[3], P[4], P[5])
        if e is not None and f is not None:
            tr(g.Quadric.from_planes, e, f)
            tr(g.reflection, e)
        tr(_construct, ctx, g.Sphere, P[0], float(rng.integers(1, 5)))
        tr(_construct, ctx, g.Sphere, P[0], float(gen.pick(rng, [0.5, 1.5, 2.25, 0.75])))
        tr(_construct, ctx, g.Cone, P[0], P[1], float(rng.integers(1, 4)))
        tr(_construct, ctx, g.Cylinder, P[0], P[1], float(rng.integers(1, 4)))
        tr(g.Transformation.from_points, *[(P[k], P[(k + 1) % 6]) for k in range(5)])
        tr(g.translation, P[0])
        tr(g.rotation, float(rng.uniform(-3, 3)), axis=P[1])
        tr(_construct, ctx, g.Cuboid, P[0], P[1], P[2], P[3])
        tr(_construct, ctx, g.RegularPolygon, P[0], float(rng.integers(1, 4)), int(rng.integers(3, 7)), axis=P[1])
    tr(_construct, ctx, g.Segment, P[0], P[1])
    tr(_construct, ctx, g.Triangle, P[0], P[1], P[2])
    tr(_construct, ctx, g.Simplex, *P[:n])
    if dim == 2:
        tr(_construct, ctx, g.Polygon, *P[:5])
        tr(_construct, ctx, g.Rectangle, P[0], P[1], P[2], P[3])
    else:
        # four coplanar points
        v = [p.array.astype(float) for p in P[:3]]
        p4 = g.Point(*(v[0][:3] + (v[1][:3] - v[0][:3]) + 2 * (v[2][:3] - v[0][:3])))
        tr(_construct, ctx, g.Polygon, P[0], P[1], p4, P[2])


L3 = gen.lattice(3, 2)
L4 = gen.lattice(4, 1)


def g_layouts(ctx, rng, i):
    """The same objects handed over in another memory layout (Fortran order, transposed views, broadcast copies) and with homogeneous
    coordinates other than 1: the queries that read normalised coordinates run under the twin monitor."""
    import geometer as g

    dim = 2 + i % 2
    k, m = int(rng.integers(2, 4)), int(rng.integers(2, 4))

    def layout(a, how):
        if how == 0:
            return np.asfortranarray(a)
        if how == 1:
            return np.ascontiguousarray(np.moveaxis(a, -1, 0)).transpose(*range(1, a.ndim), 0)  # a transposed view
        if how == 2:
            return a[..., ::-1][..., ::-1]  # negatively strided twice
        return np.array(a)

    def hom(c, w):
        return np.concatenate([c * w, w], axis=-1)

    how = i % 4
    # segments / polygons (three axes), points with two collection axes
    A = gen.coords(rng, (k, dim), 5, "int").astype(float)
    D = gen.nonzero_vec(rng, dim, 3).astype(float)
    W = rng.choice([1.0, 2.0, -1.0, 0.5, 4.0], size=(k, 2, 1))
    seg = g.SegmentCollection(layout(hom(np.stack([A, A + 2 * D], axis=1), W), how))
    q = g.PointCollection(layout(hom(A + D, rng.choice([1.0, 2.0, -3.0], size=(k, 1))), how % 2 * 3))
    sq = np.array([[0, 0], [2, 0], [2, 2], [0, 2]], dtype=float)
    if dim == 3:
        sq = np.concatenate([sq, np.ones((4, 1))], axis=1)
    polys = np.stack([sq * (j + 1) + gen.coords(rng, (dim,), 3, "int") for j in range(k)])
    pol = g.PolygonCollection(layout(hom(polys, rng.choice([1.0, 2.0, -1.0, 0.5], size=(k, 4, 1))), how))
    grid = g.PointCollection(layout(hom(gen.coords(rng, (k, m, dim), 4, "int").astype(float), rng.choice([1.0, 2.0, -2.0, 0.5], size=(k, m, 1))), how))
    # degenerate positions that have an answer of their own: the first two arguments of a cross ratio coincide (value 1), parallel lines (angle 0)
    pa = gen.coords(rng, (dim,), 4, "int").astype(float) + 0.5
    dv = gen.nonzero_vec(rng, dim, 3).astype(float)
    P_ = [g.Point(*(pa + t * dv)) for t in (0.0, 0.0, 1.0, 3.0)]
    off_ = np.roll(dv, 1) * np.array([1, -1, 1][:dim]) + 0.25
    lines_ = [g.Line(g.Point(*pa), g.Point(*(pa + dv))), g.Line(g.Point(*(pa + off_)), g.Point(*(pa + off_ + 2 * dv)))]
    for step in (lambda: g.crossratio(*P_), lambda: g.crossratio(P_[2], P_[2].copy(), P_[0], P_[3]), lambda: g.angle(*lines_), lambda: g.angle(lines_[1], lines_[0]),
                 lambda: g.crossratio(g.Line(1.5, 2.0, 3.0), g.Line(1.5, 2.0, 3.0), g.Line(1.0, 0.0, 1.0), g.Line(0.0, 1.0, 2.0)) if dim == 2 else None):
        try:
            step()
        except Exception:
            pass
    for step in (lambda: seg.contains(q), lambda: seg.midpoint, lambda: seg.length, lambda: pol.area, lambda: pol.contains(q) if dim == 2 else None,
                 lambda: grid + g.Point(*([1] * dim)), lambda: grid * 2, lambda: grid - grid, lambda: seg + g.Point(*([1] * dim)), lambda: g.dist(grid, g.Point(*([0] * dim)))):
        try:
            step()
        except Exception:
            pass


def g_eq_lattice(ctx, rng, i):
    """== on lattice objects: every non-zero multiple equal, non-multiples different, all kinds."""
    import geometer as g

    if i % 2 == 0:
        u, v = L3[(i // 2) % len(L3)], L3[(i * 7 + 3) % len(L3)]
        mk = [g.Point, g.Line]
    else:
        u, v = L4[(i // 2) % len(L4)], L4[(i * 5 + 1) % len(L4)]
        mk = [g.Point, g.Plane]
    lam = gen.pick(rng, gen.LAMBDAS + gen.CLAMBDAS)
    for M in mk:
        a = M(u)
        a == M(u * lam)
        M(u * lam) == a
        a == a
        a == M(v)
        a == M(v * lam)
    # collections and matrices
    U = np.stack([u, v, u + 2 * v])
    lams = np.array([gen.pick(rng, gen.LAMBDAS) for _ in range(3)])[:, None]
    g.PointCollection(U) == g.PointCollection(U * lams)
    g.PointCollection(U) == g.PointCollection(U[::-1].copy())
    m = gen.invertible_int_matrix(rng, len(u), 3)
    g.Transformation(m) == g.Transformation(m * lam)
    g.Transformation(m) == g.Transformation(m.T + np.eye(len(u), dtype=int))
    q = m + m.T
    if np.any(q != 0):
        g.Quadric(q) == g.Quadric(q * lam)
        g.Quadric(q) == g.Quadric(q + np.diag(np.arange(1, len(u) + 1)))


_tolerant = core.tolerant

g_catalogue, g_eq_lattice = _tolerant(g_catalogue), _tolerant(g_eq_lattice)

GROUPS = [
    {"name": "constructors", "fn": g_constructors, "quick": 400, "thorough": 4000},
    {"name": "catalogue", "fn": g_catalogue, "quick": 48, "thorough": 480},
    {"name": "eq_lattice", "fn": g_eq_lattice, "quick": 600, "thorough": 6000},
    {"name": "layouts", "fn": g_layouts, "quick": 160, "thorough": 1600},
]
