"""Frozen model of the index bookkeeping of geometer at the pinned commit (geometer/base.py:Tensor._get_index_mapping and
geometer/utils/indexing.py:normalize_index, including the n-D mask expansion of fix 4fcfe50).

It is used ONLY by the known-finding classifiers of C19: a violation of an advanced-indexing expression is accepted as the *known* defect
F18 only if the observed (wrong) index types -- or the observed exception type -- are exactly what this frozen model produces.  Any other
wrong behaviour for the same class of index expressions is reported as a new violation.  Nothing here imports geometer.
"""
from __future__ import annotations

import math
from numbers import Integral, Number

import numpy as np


def _sanitize_index_element(ind):
    if isinstance(ind, Number):
        ind2 = int(ind)
        if ind2 != ind:
            raise IndexError("Bad index")
        return ind2
    elif ind is None:
        return None
    raise TypeError("Invalid index type")


def _sanitize_index(ind):
    if ind is None:
        return None
    elif isinstance(ind, slice):
        return slice(_sanitize_index_element(ind.start), _sanitize_index_element(ind.stop), _sanitize_index_element(ind.step))
    elif isinstance(ind, Number):
        return _sanitize_index_element(ind)
    index_array = np.asanyarray(ind)
    if index_array.dtype == bool:
        nonzero = np.nonzero(index_array)
        if len(nonzero) == 1:
            nonzero = nonzero[0]
        return np.asanyarray(nonzero)
    elif np.issubdtype(index_array.dtype, np.integer):
        return index_array
    elif np.issubdtype(index_array.dtype, np.floating):
        return index_array.astype(np.intp)
    raise TypeError("Invalid index type")


def _replace_ellipsis(n, index):
    isellipsis = [i for i, ind in enumerate(index) if ind is Ellipsis]
    if not isellipsis:
        return index
    loc = isellipsis[0]
    extra_dimensions = n - (len(index) - sum(i is None for i in index) - 1)
    return index[:loc] + (slice(None, None, None),) * extra_dimensions + index[loc + 1:]


def _normalize_index(idx, shape):
    if not isinstance(idx, tuple):
        idx = (idx,)
    idx = _replace_ellipsis(len(shape), idx)
    expanded = []
    for i in idx:
        if isinstance(i, (np.ndarray, list)) and np.asanyarray(i).dtype == bool and np.ndim(i) > 1:
            expanded.extend(np.nonzero(i))
        else:
            expanded.append(i)
    idx = tuple(expanded)
    n_sliced_dims = 0
    for i in idx:
        if hasattr(i, "ndim") and i.ndim >= 1:
            n_sliced_dims += i.ndim
        elif i is None:
            continue
        else:
            n_sliced_dims += 1
    idx = idx + (slice(None),) * (len(shape) - n_sliced_dims)
    if len([i for i in idx if i is not None]) > len(shape):
        raise IndexError("Too many indices for array")
    return tuple(map(_sanitize_index, idx))


def frozen_index_mapping(index, shape):
    """Result-axis -> source-axis list as computed by the pinned library (may raise like the library does)."""
    normalized_index = _normalize_index(index, shape)
    advanced_indices = []
    index_mapping = list(range(len(shape)))
    i = 0
    for ind in normalized_index:
        if isinstance(ind, int):
            index_mapping.pop(i)
            continue
        if ind is None:
            index_mapping.insert(i, None)
        elif isinstance(ind, np.ndarray):
            advanced_indices.append(i)
        i += 1
    if len(advanced_indices) == 0:
        return index_mapping
    b = np.broadcast(*[normalized_index[i] for i in advanced_indices])
    a0, a1 = advanced_indices[0], advanced_indices[-1]
    if advanced_indices != list(range(a0, a1 + 1)):
        for i in advanced_indices:
            index_mapping.remove(i)
        return [None] * b.ndim + index_mapping
    return index_mapping[:a0] + [None] * b.ndim + index_mapping[a1 + 1:]


def frozen_types(index, shape, cov, con):
    """(covariant result axes, contravariant result axes) according to the frozen model, or the exception type name it raises."""
    try:
        m = frozen_index_mapping(index, shape)
    except Exception as e:
        return type(e).__name__
    return (sorted(r for r, s in enumerate(m) if s in cov), sorted(r for r, s in enumerate(m) if s in con))
