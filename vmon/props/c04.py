"""C04 -- collections compute element by element what single objects compute."""
from __future__ import annotations

import functools
import types

import numpy as np

from .. import catalog, core, gen
from .. import exact as X
from .. import ref as R

RULE = ("shadow execution: every top-level call of a public callable that has a collection operand is repeated on the single objects rebuilt "
        "from the array slices at up to 12 positions (element-class constructors, no library indexing) and compared with the slice of the "
        "collection result (booleans equal, numbers close, projective objects equal up to scale, flattened intersection lists as multisets, "
        "a raise mirrored by a raise). Workload: brute-force catalogue over pools with collection shapes (3,),(2,),(2,2),(1,),(1,3),(2,1) in 2D and "
        "3D with every mix of single and collection arguments, plus the repository's tests. Integer indexing / iteration of every collection "
        "class is checked for element class, values and attributes. Non-trivial = the collection call returned normally; distinct by "
        "(operation, operand digest)."
        " The collection result must be a collection class of the single results' class with index sets shifted by the collection axes; a part of a collection (fewer integers than collection axes, slices, iteration over several axes) must be a collection of the same class with its attributes. `==` of two collections is one truth value: True only if every pair of elements compares equal, False only if some pair does not (for polygon collections a False is judged when one common re-ordering of the vertex cycle maps every element onto its partner). Explicit workloads: polygon collections written from another start vertex / in the other orientation / with the members re-ordered, 3D segment collections mixing skew pairs with pairs whose supporting lines cross inside, at the end of and beyond the end of either segment. Constructors handed collections (QuadricCollection.from_planes, QuadricCollection(normalize_matrix=True)) and the list-valued angles of polygon collections are compared position by position with the single constructors / polygons (angles modulo pi); powers 0, 1, 2, -1 of transformation collections with one and two collection axes.")
SHARDS = (8, 16)
REQUIRED = ["shadow", "getitem.element", "iter.element"]
ASSUMPTIONS = ["collection axes align from the right (documented in TensorDiagram.calculate); operand pairs whose shapes do not align are outside the domain"]
EXHAUSTIVE = {"quick": [], "thorough": []}

MAXPOS = 12


def _is_tensor(x):
    return hasattr(x, "array") and hasattr(x, "_covariant_indices")


def coll_axes(t):
    """Number of leading collection axes of a tensor (vertex/facet axes of polytopes are not collection axes)."""
    from geometer.shapes import PolytopeTensor

    if isinstance(t, PolytopeTensor):
        pd = getattr(t, "pdim", 0)
        if pd == 0:
            return t.free_indices
        return max(0, t.rank - max(pd - 1, 1) - 1)
    return t.free_indices


def coll_shape(t):
    return tuple(t.shape[: coll_axes(t)])


ELEMENT = {
    "PointCollection": "Point", "LineCollection": "Line", "PlaneCollection": "Plane", "QuadricCollection": "Quadric",
    "TransformationCollection": "Transformation", "SegmentCollection": "Segment", "PolygonCollection": "Polygon",
}


def element_of(t, pos, cshape):
    """Single object at position `pos` of the broadcast collection shape, rebuilt from the array slice."""
    import geometer as g
    import geometer.base as B

    cs = coll_shape(t)
    if not cs:
        return t
    p = pos[len(cshape) - len(cs):]
    p = tuple(0 if cs[k] == 1 else p[k] for k in range(len(cs)))
    arr = np.array(t.array[p], copy=True)
    name = type(t).__name__
    ecls = getattr(g, ELEMENT.get(name, ""), None)
    if ecls is None:
        if name == "TensorCollection":
            k = len(cs)
            cov = [i - k for i in t._covariant_indices]
            return B.Tensor(arr, covariant=cov, tensor_rank=arr.ndim - (t.free_indices - k))
        raise TypeError(f"no element class for {name}")
    if name == "QuadricCollection":
        return ecls(arr, is_dual=t.is_dual)
    if name == "LineCollection" and t.tensor_shape[0] > 0:
        return ecls(B.Tensor(arr, covariant=True))
    return ecls(arr)


# ---------------------------------------------------------------------------------
# comparators
# ---------------------------------------------------------------------------------

def _angle_close(a, b):
    a, b = np.asarray(a, dtype=float), np.asarray(b, dtype=float)
    if a.shape != b.shape:
        return False
    with np.errstate(all="ignore"):
        d = np.abs((a - b + np.pi / 2) % np.pi - np.pi / 2)
        return bool(np.all((d <= 1e-7) | (np.isnan(a) & np.isnan(b))))


def _num_close(a, b):
    a, b = np.asarray(a), np.asarray(b)
    if a.shape != b.shape:
        return False
    if a.dtype == bool or b.dtype == bool:
        return bool(np.array_equal(a, b))
    with np.errstate(all="ignore"):
        return bool(np.all(np.isclose(a, b, rtol=1e-7, atol=1e-9, equal_nan=True)))


def _tensor_close(a, b, projective):
    """a, b element arrays."""
    a, b = np.asarray(a), np.asarray(b)
    if a.shape != b.shape:
        return False
    if not (np.all(np.isfinite(a)) and np.all(np.isfinite(b))):
        return bool(np.array_equal(np.isfinite(a), np.isfinite(b)))
    if not np.any(a != 0) or not np.any(b != 0):
        return bool(np.allclose(a, b, atol=1e-9))
    if projective:
        return X.proj_residual(a, b) <= 1e-7
    return bool(np.allclose(a, b, rtol=1e-7, atol=1e-9))


def compare_slice(res, single, pos, cshape):
    """Compare the slice at `pos` of the collection result `res` with the single-object result. Returns (ok, why)."""
    from geometer.base import ProjectiveTensor
    from geometer.shapes import PolytopeTensor

    if _is_tensor(res):
        if not _is_tensor(single):
            return False, f"collection result is {type(res).__name__}, single result is {type(single).__name__}"
        cs = coll_shape(res)
        if len(cs) < len(cshape) and coll_shape(single) == cs:
            # the result is not position dependent (e.g. built from single arguments only)
            return _tensor_close(res.array, single.array, isinstance(res, ProjectiveTensor)), "non-collection result differs"
        if cs != tuple(cshape) and cs[: len(cshape)] == tuple(cshape) and coll_shape(single) == cs[len(cshape):]:
            # extra trailing collection axes shared with the single result (e.g. point arithmetic on polytopes yields vertex collections)
            return _tensor_close(res.array[pos], single.array, False) or all(
                _tensor_close(x, y, isinstance(res, ProjectiveTensor)) for x, y in zip(res.array[pos].reshape(-1, res.shape[-1]), single.array.reshape(-1, single.shape[-1]))
            ), "element block differs from the single-object result"
        if cs != tuple(cshape):
            return False, f"result collection shape {cs} != operand collection shape {tuple(cshape)}"
        e = res.array[pos]
        proj = isinstance(res, ProjectiveTensor)
        if isinstance(res, PolytopeTensor):
            # vertex-wise projective comparison
            ea, sa = e.reshape(-1, e.shape[-1]), single.array.reshape(-1, single.array.shape[-1])
            if ea.shape != sa.shape:
                return False, f"element shape {e.shape} != single result shape {single.array.shape}"
            return all(_tensor_close(x, y, True) for x, y in zip(ea, sa)), "polytope vertices differ"
        if e.shape != single.array.shape:
            return False, f"element shape {e.shape} != single result shape {single.array.shape}"
        ok = _tensor_close(e, single.array, proj)
        if ok and (res.tensor_shape != single.tensor_shape or getattr(res, "is_dual", None) != getattr(single, "is_dual", None)):
            return False, "index types / duality flag differ"
        k = len(cshape)
        if ok and (set(res._covariant_indices) != {i + k for i in single._covariant_indices} or set(res._contravariant_indices) != {i + k for i in single._contravariant_indices}):
            return False, (f"index positions of the collection result (covariant {sorted(res._covariant_indices)}, contravariant {sorted(res._contravariant_indices)}) are not those of the "
                           f"single result shifted by the {k} collection axes (covariant {sorted(single._covariant_indices)}, contravariant {sorted(single._contravariant_indices)})")
        if ok and k and isinstance(single, ProjectiveTensor):
            from geometer.base import TensorCollection

            if not isinstance(res, TensorCollection) or not isinstance(single, getattr(res, "_element_class", object)):
                return False, f"the collection result is a {type(res).__name__}, the single results are {type(single).__name__} objects: not a collection of them"
        return ok, "element of the collection result differs from the single-object result"
    if isinstance(res, np.ndarray) or isinstance(res, (bool, int, float, complex, np.generic)):
        r = np.asarray(res)
        s = np.asarray(single)
        if r.shape[: len(cshape)] == tuple(cshape):
            return _num_close(r[pos], s), f"value at position {pos}: {r[pos]!r} vs single {s!r}"
        if r.shape == s.shape:
            return _num_close(r, s), "position-independent value differs"
        return False, f"result shape {r.shape} does not start with the collection shape {tuple(cshape)}"
    if isinstance(res, (list, tuple)):
        if not isinstance(single, (list, tuple)):
            return False, "collection result is a sequence, single result is not"
        if len(res) == len(single) and all(_is_tensor(x) and coll_shape(x) == tuple(cshape) for x in res):
            for x, y in zip(res, single):
                ok, why = compare_slice(x, y, pos, cshape)
                if not ok:
                    return ok, why
            return True, ""
        if len(res) == len(single) and all(isinstance(x, (np.ndarray, np.generic, float, bool)) for x in res):
            for x, y in zip(res, single):
                ok, why = compare_slice(x, y, pos, cshape)
                if not ok:
                    return ok, why
            return True, ""
        return None, "flattened"
    if res is None or isinstance(res, (str, type)):
        return res == single, "values differ"
    if isinstance(res, types.GeneratorType):
        return None, "generator"
    return None, f"result type {type(res).__name__} not compared"


def _points_multiset_equal(a, b):
    """Two lists of point arrays describe the same set of projective points (a coincident pair may be reported once or twice)."""
    def inside(xs, ys):
        return all(any(np.shape(x) == np.shape(y) and X.proj_residual(x, y) <= 1e-6 for y in ys) for x in xs)

    return inside(a, b) and inside(b, a)


def _flatten_points(seq):
    """Flatten a result list of point tensors (single points or collections) into a list of coordinate vectors."""
    out = []
    for x in seq:
        if not _is_tensor(x):
            return None
        a = np.asarray(x.array)
        out.extend(a.reshape(-1, a.shape[-1]))
    return out


# ---------------------------------------------------------------------------------
# the shadow-execution monitor (attached to every public callable, fires at depth 0)
# ---------------------------------------------------------------------------------

SKIP_OPS = {"__eq__", "copy", "__copy__", "expand_dims", "size", "shape", "dtype", "rank", "free_indices", "tensor_shape", "dim", "T", "transpose", "__len__", "__repr__",
            "__getitem__", "__iter__", "array", "tensor_product", "__array__", "from_tensor", "from_array", "is_zero", "pdim", "is_dual"}
# operations whose result is an arbitrary representative / basis: compared by projective class of each returned object anyway, but SVD/QR-based
# bases are only unique up to an orthogonal change of basis -> compared as subspaces
BASIS_OPS = {"basis_matrix"}


_CLASSES = {}
_SIG_CACHE = {}


def _class_table():
    if not _CLASSES:
        import geometer.base, geometer.curve, geometer.point, geometer.shapes, geometer.transformation

        for m in (geometer.base, geometer.point, geometer.curve, geometer.shapes, geometer.transformation):
            for k, v in vars(m).items():
                if isinstance(v, type):
                    _CLASSES.setdefault(k, v)
    return _CLASSES


def _annotated_types(fn):
    """Per positional parameter: tuple of accepted geometer classes, or None when the annotation is not a union of geometer classes."""
    import inspect

    key = id(fn)
    if key in _SIG_CACHE:
        return _SIG_CACHE[key]
    out = []
    var = None
    try:
        sig = inspect.signature(fn)
        table = _class_table()
        for prm in sig.parameters.values():
            ann = prm.annotation
            acc = None
            if isinstance(ann, str):
                parts = [x.strip() for x in ann.replace("Unpack[", "").replace("]", "").split("|")]
                parts = [x for x in parts if x and x != "None"]
                if parts and all(x in table for x in parts):
                    acc = tuple(table[x] for x in parts)
            if prm.kind == prm.VAR_POSITIONAL:
                var = acc
            elif prm.kind in (prm.POSITIONAL_ONLY, prm.POSITIONAL_OR_KEYWORD):
                out.append(acc)
    except (TypeError, ValueError):
        pass
    _SIG_CACHE[key] = (out, var)
    return out, var


def _types_ok(fn, args):
    """Do the tensor arguments match the declared parameter types (the documented domain of the operation)?"""
    out, var = _annotated_types(fn)
    for k, a in enumerate(args):
        if not _is_tensor(a):
            continue
        acc = out[k] if k < len(out) else var
        if acc is not None and not isinstance(a, acc):
            return False
    return True


def _geometric(opname, args):
    """Arithmetic dunders are geometric operations only for (object, point) translation, transformation application,
    scalars and same-kind equality; anything else is plain array arithmetic and judged by C19."""
    from geometer.point import PointTensor
    from geometer.transformation import TransformationTensor
    from geometer.utils import is_numerical_scalar

    if opname in ("__add__", "__sub__", "__radd__", "__rsub__"):
        # translation by a point: a collection of offsets is only supported between points
        return len(args) == 2 and isinstance(args[1], PointTensor) and (isinstance(args[0], PointTensor) or coll_axes(args[1]) == 0)
    if opname in ("__mul__", "__rmul__"):
        return len(args) == 2 and (is_numerical_scalar(args[1]) or (opname == "__mul__" and isinstance(args[0], TransformationTensor) and _is_tensor(args[1])))
    if opname == "__truediv__":
        return len(args) == 2 and is_numerical_scalar(args[1])
    if opname == "__eq__":
        return len(args) == 2 and _is_tensor(args[1]) and (type(args[0]).__name__.replace("Collection", "") == type(args[1]).__name__.replace("Collection", ""))
    return True


UNORDERED_OPS = {"intersect", "components", "angle_bisectors", "foci", "tangent"}


def _unordered_equal(res, single, pos, cshape):
    """The returned objects form an unordered set (two intersection points, two components, two bisectors): compare as sets."""
    try:
        a = [np.asarray(x.array[pos]) for x in res if _is_tensor(x) and coll_shape(x) == tuple(cshape)]
        b = [np.asarray(y.array) for y in single if _is_tensor(y)]
    except Exception:
        return False
    if len(a) != len(res) or len(b) != len(single):
        return False
    return _points_multiset_equal(a, b)


def _eq_reduction(ctx, call):
    """`==` of two collections is one truth value: it must be the conjunction of the comparisons of the elements (for polygons the library
    uses one re-ordering of the vertex cycle for the whole collection: a False is judged only when one common re-ordering exists)."""
    if call.exc is not None or len(call.args) != 2 or not isinstance(call.result, (bool, np.bool_)):
        return
    a, b = call.args
    if not (_is_tensor(a) and _is_tensor(b)) or type(a) is not type(b) or coll_axes(a) == 0 or coll_shape(a) != coll_shape(b) or a.shape != b.shape:
        return
    cshape = coll_shape(a)
    if int(np.prod(cshape)) == 0:
        return
    positions = R.positions(tuple(cshape), MAXPOS)
    complete = len(positions) == int(np.prod(cshape))
    try:
        per = [bool(element_of(a, pos, cshape) == element_of(b, pos, cshape)) for pos in positions]
    except Exception as e:
        ctx.skip("shadow", f"== of the elements not computable: {type(e).__name__}")
        return
    got = bool(call.result)
    feat = {"op": call.name, "classes": [type(a).__name__, type(b).__name__], "cshape": list(cshape), "multi_axis": len(cshape) > 1}
    ctx.note(("shadow_ops", call.name))
    if got:
        ctx.judge("shadow", all(per), [a, b], what=f"{call.name}: the collections compare equal but the elements at {[p for p, r in zip(positions, per) if not r][:3]} do not",
                  op=call.name, feat=feat, nontrivial=True)
        return
    if not all(per):
        ctx.judge("shadow", True, [a, b], op=call.name, nontrivial=True)
        return
    if not complete:
        ctx.skip("shadow", "== False, positions only sampled")
        return
    from geometer.shapes import PolytopeTensor

    if isinstance(a, PolytopeTensor):
        from .c17 import _cycle_matches, _exactable

        if getattr(a, "pdim", 0) > 2 or not (_exactable(a.array) and _exactable(b.array)):
            ctx.skip("shadow", "== False for polytope collections that cannot be compared exactly")
            return
        common = None
        for pos in positions:
            m = _cycle_matches(a.array[pos], b.array[pos])
            common = m if common is None else (common & m)
        if not common:
            ctx.skip("shadow", "polytope collections whose elements need different re-orderings of the vertex cycle")
            return
    ctx.judge("shadow", False, [a, b], what=f"{call.name}: the collections compare unequal although every pair of elements compares equal", op=call.name, feat=feat, nontrivial=True)


def post_shadow(ctx, call):
    if call.depth != 0:
        return
    opname = call.name.split(".")[-1]
    if opname == "__eq__":
        return _eq_reduction(ctx, call)
    if opname in SKIP_OPS:
        return
    operands = [a for a in list(call.args) + list(call.kwargs.values()) if _is_tensor(a)]
    colls = [a for a in operands if coll_axes(a) > 0]
    if not colls:
        return
    if not _geometric(opname, call.args):
        ctx.skip("shadow", "tensor-level arithmetic between unrelated objects (array semantics: C19)")
        return
    if not _types_ok(call.orig, call.args):
        ctx.skip("shadow", "argument types outside the declared signature")
        return
    from geometer.shapes import PolytopeTensor
    from geometer.transformation import TransformationTensor

    if any(isinstance(a, TransformationTensor) and coll_axes(a) > 0 for a in operands) and any(isinstance(a, PolytopeTensor) for a in operands):
        ctx.skip("shadow", "transformation collection applied to a polytope: vertex axes do not align from the right (outside the domain)")
        return
    if len({coll_shape(a) for a in colls}) > 1:
        ctx.skip("shadow", "collections of different shapes (only single-vs-collection broadcasting is claimed)")
        return
    try:
        cshape = np.broadcast_shapes(*[coll_shape(a) for a in operands])
    except ValueError:
        ctx.skip("shadow", "collection shapes do not align from the right")
        return
    if int(np.prod(cshape)) == 0:
        return
    positions = R.positions(tuple(cshape), MAXPOS)
    feat = {"op": call.name, "classes": [type(a).__name__ for a in operands], "cshape": list(cshape), "multi_axis": len(cshape) > 1,
            "dims": [int(a.shape[-1]) - 1 for a in operands], "coll": [coll_axes(a) for a in operands]}
    # run the single-object shadows
    singles = []
    for pos in positions:
        try:
            memo = {}  # the same operand object passed twice stays one object (diagram nodes are identity based)
            def conv(a):
                if _is_tensor(a):
                    if id(a) not in memo:
                        memo[id(a)] = element_of(a, pos, cshape)
                    return memo[id(a)]
                return a

            args = [conv(a) for a in call.args]
            kwargs = {k: conv(v) for k, v in call.kwargs.items()}
        except Exception as e:
            ctx.skip("shadow", f"element not constructible: {type(e).__name__}")
            return
        try:
            singles.append(("ok", call.orig(*args, **kwargs)))
        except Exception as e:
            singles.append(("exc", e))
    ctx.note(("shadow_ops", call.name))
    ctx.note(("shadow_cshape", str(tuple(cshape))))
    nontriv = call.exc is None
    if call.exc is not None:
        # a raise must be mirrored by a raise of the same class at >= 1 position
        mirrored = any(s == "exc" and type(e) is type(call.exc) for s, e in singles)
        complete = len(positions) == int(np.prod(cshape))
        if not mirrored and complete and not any(s == "exc" for s, _ in singles):
            ctx.judge("shadow", False, operands, what=f"{call.name} raised {type(call.exc).__name__}({str(call.exc)[:80]}) for the collection but no single element raises",
                      op=call.name, feat={**feat, "exc": type(call.exc).__name__}, nontrivial=True)
        else:
            ctx.judge("shadow", True, operands, op=call.name, nontrivial=False)
        return
    res = call.result
    excs = [(p, e) for p, (s, e) in zip(positions, singles) if s == "exc"]
    if excs:
        # the collection call succeeded although an element raises on its own
        from geometer.exceptions import LinearDependenceError, NotCoplanar

        p, e = excs[0]
        ctx.judge("shadow", False, operands, what=f"{call.name} returned for the collection but the single element at {p} raises {type(e).__name__}({str(e)[:80]})",
                  op=call.name, feat={**feat, "single_exc": type(e).__name__}, nontrivial=True)
        return
    flattened = False
    for pos, (s, single) in zip(positions, singles):
        if opname in BASIS_OPS and isinstance(res, np.ndarray):
            e = res[pos]
            ok = e.shape == np.shape(single) and X.subspace_residual(list(np.asarray(e)), list(np.asarray(single))) <= 1e-7
            why = "basis spans a different subspace than the single-object basis"
        else:
            ok, why = compare_slice(res, single, pos, cshape)
            if ok is False and opname in ("angle", "angles") and isinstance(res, np.ndarray) and res.shape[: len(cshape)] == tuple(cshape):
                ok = _angle_close(res[pos], single)  # angles are defined modulo pi (+-pi/2 identified)
            if ok is False and opname == "angles" and isinstance(res, list) and isinstance(single, list) and len(res) == len(single):
                try:
                    ok = all(np.shape(r)[: len(cshape)] == tuple(cshape) and _angle_close(np.asarray(r)[pos], s) for r, s in zip(res, single))
                except Exception:
                    ok = False
            if ok is False and opname in UNORDERED_OPS and isinstance(res, (list, tuple)) and isinstance(single, (list, tuple)):
                ok2 = _unordered_equal(res, single, pos, cshape)
                if ok2:
                    ok = True
        if ok is None:
            flattened = why == "flattened"
            break
        if not ok:
            f2 = dict(feat)
            try:
                f2["nan_vs_finite"] = bool(isinstance(res, np.ndarray) and np.isnan(res[pos]).any() and np.all(np.isfinite(single)))
            except Exception:
                pass
            ctx.judge("shadow", False, operands, what=f"{call.name} at position {pos}: {why}", op=call.name, feat=f2, nontrivial=True,
                      observed=res if not isinstance(res, (list, tuple)) else None, expected=single if not isinstance(single, (list, tuple)) else None)
            return
    if flattened:
        if len(positions) != int(np.prod(cshape)):
            ctx.skip("shadow", "flattened list result, positions only sampled")
            return
        a = _flatten_points(res)
        b = []
        okf = a is not None
        for s, single in singles:
            fp = _flatten_points(single)
            if fp is None:
                okf = False
                break
            b.extend(fp)
        if not okf:
            ctx.skip("shadow", "list result not made of points")
            return
        ok = _points_multiset_equal(a, b)
        ctx.judge("shadow", ok, operands, what=f"{call.name}: the list returned for the collection is not the union of the single-object results ({len(a)} vs {len(b)} points)",
                  op=call.name, feat={**feat, "flattened": True}, nontrivial=True)
        return
    ctx.judge("shadow", True, operands, op=call.name, feat=feat, nontrivial=nontriv)


# ---------------------------------------------------------------------------------
# integer indexing / iteration of collections
# ---------------------------------------------------------------------------------

def _check_element(ctx, monitor, coll, idx, elem, opname):
    import geometer as g
    from geometer.shapes import PolygonTensor, SegmentTensor

    name = type(coll).__name__
    want_cls = ELEMENT.get(name)
    feat = {"cls": name, "op": opname, "coll_axes": coll_axes(coll), "index": repr(idx)[:40], "polytope": hasattr(coll, "pdim")}
    if want_cls is None:
        ctx.skip(monitor, "no element class")
        return
    why = None
    want_arr = coll.array[idx]
    if not _is_tensor(elem):
        why = f"result is {type(elem).__name__}"
    elif not isinstance(elem, getattr(g, want_cls)) or coll_axes(elem) != 0:
        why = f"result is a {type(elem).__name__} (collection axes {coll_axes(elem) if _is_tensor(elem) else '-'}), expected an instance of {want_cls}"
    elif elem.array.shape != want_arr.shape or not np.array_equal(elem.array, want_arr):
        why = "element array differs from array[i]"
    elif getattr(elem, "is_dual", None) != getattr(coll, "is_dual", None):
        why = f"is_dual {getattr(elem, 'is_dual', None)} != {getattr(coll, 'is_dual', None)}"
    elif getattr(elem, "pdim", None) != getattr(coll, "pdim", None):
        why = "pdim differs"
    else:
        k = coll_axes(coll)
        cov = sorted(i - k for i in coll._covariant_indices)
        con = sorted(i - k for i in coll._contravariant_indices)
        if (sorted(elem._covariant_indices), sorted(elem._contravariant_indices)) != (cov, con):
            why = "index types differ"
        elif isinstance(elem, SegmentTensor):
            ln = elem.__dict__.get("_line")
            v = elem.array
            if ln is None or not (abs(np.dot(ln.array.ravel()[: v.shape[-1]], v[0])) < 1e-9 if ln.array.ndim == 1 else np.allclose(ln.array @ v.T, 0, atol=1e-9)):
                why = "cached supporting line is not incident with the element's vertices"
        elif isinstance(elem, PolygonTensor) and elem.dim > 2:
            pl = elem.__dict__.get("_plane")
            if pl is None or pl.array.shape != (elem.shape[-1],) or not np.allclose(elem.array @ pl.array, 0, atol=1e-9):
                why = "cached supporting plane is not incident with the element's vertices"
    ctx.judge(monitor, why is None, [coll, idx if isinstance(idx, int) else list(idx)], what=f"{name}[{idx}]: {why}", op=opname, feat=feat, nontrivial=True)


def post_getitem(ctx, call):
    if call.depth != 0:
        return
    self, index = call.args[0], call.args[1]
    k = coll_axes(self)
    if k == 0 or type(self).__name__ not in ELEMENT:
        return
    idx = index if isinstance(index, tuple) else (index,)
    basic = all((isinstance(i, (int, np.integer)) and not isinstance(i, bool)) or isinstance(i, slice) for i in idx)
    if basic and len(idx) <= k and (len(idx) < k or any(isinstance(i, slice) for i in idx)) and call.exc is None and not hasattr(self, "pdim"):
        # a part of a collection (fewer integers than collection axes, slices over collection axes) is a collection of the same class
        res = call.result
        want = np.asarray(self.array)[index]
        ok = type(res) is type(self) and np.array_equal(np.asarray(res.array), want) and res.tensor_shape == self.tensor_shape \
            and getattr(res, "is_dual", None) == getattr(self, "is_dual", None)
        ctx.judge("getitem.element", bool(ok), [self, repr(index)], op="__getitem__ (part of a collection)", nontrivial=True,
                  what=f"{type(self).__name__}[{index!r}] is a {type(res).__name__} (is_dual {getattr(res, 'is_dual', None)}, tensor_shape {getattr(res, 'tensor_shape', None)}); expected a "
                       f"{type(self).__name__} with is_dual {getattr(self, 'is_dual', None)} holding array[index]",
                  feat={"cls": type(self).__name__, "op": "getitem.part", "coll_axes": k, "polytope": False})
        return
    if len(idx) != k or not all(isinstance(i, (int, np.integer)) and not isinstance(i, bool) for i in idx):
        return
    idx = tuple(int(i) for i in idx)
    if any(not (-n <= i < n) for i, n in zip(idx, self.shape)):
        return
    feat = {"cls": type(self).__name__, "op": "getitem", "coll_axes": k, "polytope": hasattr(self, "pdim")}
    if call.exc is not None:
        ctx.judge("getitem.element", False, [self, list(idx)], what=f"{type(self).__name__}[{idx}] raised {type(call.exc).__name__}: {call.exc}", op="__getitem__",
                  feat={**feat, "exc": type(call.exc).__name__}, nontrivial=True)
        return
    _check_element(ctx, "getitem.element", self, idx if len(idx) > 1 else idx[0], call.result, "getitem")


def g_indexing(ctx, rng, i):
    """Integer indexing and iteration of every collection class (single and multi axis)."""
    dim = 2 + i % 2
    cshape = [(3,), (2, 2), (1,), (1, 3), (2, 1)][(i // 2) % 5]
    pool = catalog.build_pool(rng, dim, cshape=cshape)
    for name, obj in pool:
        k = coll_axes(obj) if _is_tensor(obj) else 0
        if k == 0 or type(obj).__name__ not in ELEMENT:
            continue
        cs = coll_shape(obj)
        for pos in R.positions(cs, 6):
            try:
                obj[pos if len(pos) > 1 else pos[0]]
            except Exception:
                pass  # judged by the monitor
            try:
                obj[tuple(p - n for p, n in zip(pos, cs))] if len(pos) > 1 else obj[pos[0] - cs[0]]
            except Exception:
                pass
        # parts of the collection: one integer of several axes, slices
        if not hasattr(obj, "pdim"):
            for ix in ([0, slice(0, 2), slice(None, None, -1), (slice(None), 0) if k > 1 else slice(1, None), (0, slice(None)) if k > 1 else slice(None)]):
                try:
                    obj[ix]
                except Exception:
                    pass
            if k > 1:
                try:
                    for sub_ in obj:
                        w = np.asarray(sub_.array) if _is_tensor(sub_) else None
                        ctx.judge("iter.element", type(sub_) is type(obj) and getattr(sub_, "is_dual", None) == getattr(obj, "is_dual", None), [obj], op="__iter__ (several axes)",
                                  what=f"iterating a {type(obj).__name__} with {k} collection axes yields {type(sub_).__name__} objects", nontrivial=True,
                                  feat={"cls": type(obj).__name__, "op": "iter.part", "polytope": False})
                except Exception:
                    pass
        if k == 1:
            try:
                items = list(obj)
            except Exception as e:
                ctx.judge("iter.element", False, [obj], what=f"iter({type(obj).__name__}) raised {type(e).__name__}: {e}", op="__iter__",
                          feat={"cls": type(obj).__name__, "op": "iter", "polytope": hasattr(obj, "pdim")})
                continue
            if len(items) != cs[0]:
                ctx.judge("iter.element", False, [obj], what=f"iteration yields {len(items)} items for {cs[0]} elements", op="__iter__",
                          feat={"cls": type(obj).__name__, "op": "iter", "polytope": hasattr(obj, "pdim")})
                continue
            for j, e in enumerate(items):
                _check_element(ctx, "iter.element", obj, j, e, "iter")


def g_catalogue(ctx, rng, i):
    """Brute-force catalogue on pools with collections: every call with a collection operand is shadowed by the monitor."""
    dim = 2 + i % 2
    cshape = [(3,), (2,), (2, 2), (1,), (1, 3), (2, 1)][(i // 2) % 6]
    pool = catalog.build_pool(rng, dim, cshape=cshape, hostile_scales=(i // 12) % 2 == 1)
    specs = catalog.enumerate_calls(pool, rng, per_method_pairs=4, func_samples=30, include_scalars=False)
    # only calls that involve a collection
    specs = [s for s in specs if any(_is_tensor(o) and coll_axes(o) > 0 for o in s.operands())]
    if (i // 2) % 2 == 1:
        # history: every collection of the pool has been the operand of expand_dims / copy / indexing (results dropped) before the catalogue uses it
        for _, obj in pool:
            if _is_tensor(obj) and coll_axes(obj) > 0:
                for pre in (lambda: obj.expand_dims(0), lambda: obj.expand_dims(coll_axes(obj)), lambda: obj.copy().expand_dims(0), lambda: obj[None]):
                    try:
                        pre()
                    except Exception:
                        pass
    order = rng.permutation(len(specs))
    budget = 2500
    for k in order[:budget]:
        try:
            r = specs[k].run()
            if isinstance(r, types.GeneratorType):
                list(r)
        except Exception:
            pass
    if dim == 3:
        # histories on one collection object: polygons of space (planes off the origin) measured first, then asked for membership and
        # intersections -- the collection must keep answering what its single polygons answer
        import geometer as g

        z1, z2 = int(rng.integers(1, 4)), int(rng.integers(-4, 0))
        sq = lambda z, s: [[0, 0, z, 1], [s, 0, z, 1], [s, s, z, 1], [0, s, z, 1]]  # noqa: E731
        pc = g.PolygonCollection(np.array([sq(z1, 2), sq(z2, 3), [[1, 0, 0, 1], [1, 2, 0, 1], [1, 2, 2, 1], [1, 0, 2, 1]]]))
        pts = g.PointCollection(np.array([[1, 1, z1, 1], [1, 1, z2, 1], [1, 1, 1, 1]]))
        ln = g.Line(g.Point(1.5, 0.5, -9), g.Point(1.5, 0.5, 9))
        # a segment inside the plane of one face of a cuboid whose supporting line leaves through other faces (collection of faces
        # against a single segment: each face answers what the single face answers)
        s_ = int(rng.integers(2, 5))
        cube = g.Cuboid(g.Point(0, 0, 0), g.Point(s_, 0, 0), g.Point(0, s_, 0), g.Point(0, 0, s_))
        segs = [g.Segment(g.Point(0.5, 0.5, 0), g.Point(0.5, s_ + 1, 0)), g.Segment(g.Point(0.25, 0.25, 0), g.Point(0.5, 0.75, 0)),
                g.Segment(g.Point(0.5, 0.5, 0.5), g.Point(0.5, 0.5, s_ + 2))]
        for sg in segs:
            for step in (lambda: cube.faces.intersect(sg), lambda: cube.intersect(sg)):
                try:
                    step()
                except Exception:
                    pass
        for step in (lambda: pc.area, lambda: pc.contains(pts), lambda: pc.intersect(ln), lambda: pc.area, lambda: pc.contains(pts), lambda: pc.vertices, lambda: pc.intersect(ln)):
            try:
                step()
            except Exception:
                pass
        # == of collections: the same polygons written from another start vertex / in the other orientation, the members in another order
        arr = pc.array
        k = int(rng.integers(0, 4))
        others = [np.roll(arr, k, axis=-2), np.flip(arr, axis=-2), np.roll(np.flip(arr, axis=-2), k, axis=-2) * -2, arr[::-1], np.flip(arr[::-1], axis=-2),
                  np.stack([arr, arr[::-1]]), np.flip(np.stack([arr, arr[::-1]]), axis=-2)]
        for o in others:
            try:
                oc = g.PolygonCollection(o)
                (pc if o.ndim == 3 else g.PolygonCollection(np.stack([arr, arr[::-1]]))) == oc
            except Exception:
                pass
        # segment collections of space with skew and meeting pairs mixed; the supporting lines of a meeting pair cross inside / at the end of /
        # beyond the end of the second segment
        o_ = gen.coords(rng, (3,), 3, "int")
        u = gen.nonzero_vec(rng, 3, 3)
        for _ in range(20):
            v = gen.nonzero_vec(rng, 3, 3)
            w = gen.nonzero_vec(rng, 3, 3)
            if abs(np.linalg.det(np.stack([u, v, w]))) > 0.5:
                break
        else:
            return
        h = lambda c: np.append(c, 1)  # noqa: E731
        A_, B_ = [], []
        for kind in rng.permutation(5):
            A_.append([h(o_ - 2 * u), h(o_ + 2 * u)])
            if kind == 0:  # crossing inside both
                B_.append([h(o_ - v), h(o_ + v)])
            elif kind == 1:  # the crossing of the supporting lines lies beyond the end of the second segment
                B_.append([h(o_ + v), h(o_ + 3 * v)])
            elif kind == 2:  # skew
                B_.append([h(o_ + w - v), h(o_ + w + v)])
            elif kind == 3:  # crossing at an end point of the second segment
                B_.append([h(o_), h(o_ + 2 * v)])
            else:  # crossing beyond the end of the first segment
                B_.append([h(o_ + 3 * u - v), h(o_ + 3 * u + v)])
        SA, SB = g.SegmentCollection(np.array(A_)), g.SegmentCollection(np.array(B_))
        for step in (lambda: SA.intersect(SB), lambda: SB.intersect(SA), lambda: SA[0].intersect(SB), lambda: SB.intersect(SA[0]),
                     lambda: SA.intersect(g.LineCollection(SB.vertices[0], SB.vertices[1])), lambda: SA.intersect(SB[:3]) if False else SA[:3].intersect(SB[:3])):
            try:
                step()
            except Exception:
                pass


def S_is_coll(x):
    return _is_tensor(x) and coll_axes(x) > 0


def g_constructors(ctx, rng, i):
    """Constructors and alternative constructors handed collections: the element at every position is what the same constructor makes of
    the single arguments at that position; list-valued properties of polygon collections (angles) position by position."""
    import geometer as g
    from geometer.curve import Quadric, QuadricCollection

    dim = 2 + i % 2
    k = [1, 2, 3, 4, 5][(i // 2) % 5]
    n = dim + 1

    def judge(what, res, singles, operands, op):
        ok, why = True, ""
        for pos, single in enumerate(singles):
            if isinstance(single, Exception):
                ok, why = False, f"the single constructor raises {type(single).__name__} at position {pos}"
                break
            o, w = compare_slice(res, single, (pos,), (len(singles),))
            if not o:
                ok, why = False, f"position {pos}: {w}"
                break
        ctx.judge("shadow", bool(ok), operands, what=f"{what}: {why}", op=op, feat={"op": op, "cshape": [len(singles)], "dims": [dim]}, nontrivial=True)

    def attempt(f):
        try:
            return f()
        except Exception as e:
            return e

    # degenerate quadrics from pairs of hyperplanes
    E = gen.coords(rng, (k, n), 4, "int")
    F = gen.coords(rng, (k, n), 4, "int")
    E[np.all(E == 0, axis=-1)] = 1
    F[np.all(F == 0, axis=-1)] = 1
    HC = g.LineCollection if dim == 2 else g.PlaneCollection
    H1 = g.Line if dim == 2 else g.Plane
    res = attempt(lambda: QuadricCollection.from_planes(HC(E), HC(F)))
    singles = [attempt(lambda j=j: Quadric.from_planes(H1(E[j]), H1(F[j]))) for j in range(k)]
    if isinstance(res, Exception):
        if not all(isinstance(s, Exception) for s in singles):
            ctx.judge("shadow", False, [E, F], what=f"QuadricCollection.from_planes raised {type(res).__name__}: {str(res)[:80]} for {k} pairs although the single constructor succeeds",
                      op="QuadricTensor.from_planes", feat={"op": "QuadricTensor.from_planes", "cshape": [k], "dims": [dim], "exc": type(res).__name__}, nontrivial=True)
    else:
        judge("QuadricCollection.from_planes", res, singles, [E, F], "QuadricTensor.from_planes")
    # quadrics normalised by their pseudo-determinant
    A = gen.coords(rng, (k, n, n), 4, "int").astype(float)
    A = A + np.swapaxes(A, -1, -2) + np.eye(n) * gen.pick(rng, [0, 3, -5])
    res = attempt(lambda: QuadricCollection(A, normalize_matrix=True))
    singles = [attempt(lambda j=j: Quadric(A[j], normalize_matrix=True)) for j in range(k)]
    if isinstance(res, Exception):
        if not all(isinstance(s, Exception) for s in singles):
            ctx.judge("shadow", False, [A], what=f"QuadricCollection(normalize_matrix=True) raised {type(res).__name__}: {str(res)[:80]} for {k} matrices although the single constructor succeeds",
                      op="QuadricTensor.__init__", feat={"op": "QuadricTensor.__init__", "cshape": [k], "dims": [dim], "exc": type(res).__name__}, nontrivial=True)
    else:
        ok = all(not isinstance(s, Exception) and np.allclose(res.array[j], s.array, rtol=1e-9, atol=1e-12) for j, s in enumerate(singles))
        ctx.judge("shadow", bool(ok), [A], what="QuadricCollection(normalize_matrix=True): an element is not the normalised matrix of the single constructor", op="QuadricTensor.__init__",
                  feat={"op": "QuadricTensor.__init__", "cshape": [k], "dims": [dim]}, nontrivial=True)
    # powers of transformation collections with one and two collection axes (exponent 0 included): position by position the power of the element
    ms = np.stack([gen.invertible_int_matrix(rng, n, 2) for _ in range(6)]).astype(float)
    for tshape in ((6,), (2, 3), (3, 2), (1, 6)):
        tc = g.TransformationCollection(ms.reshape(tshape + (n, n)))
        for ex in (0, 1, 2, -1, np.int64(0)):
            res = attempt(lambda: tc ** ex)
            if isinstance(res, Exception):
                ctx.judge("shadow", False, [ms, list(tshape), int(ex)], what=f"TransformationCollection{tshape} ** {ex} raised {type(res).__name__}: {str(res)[:80]}", op="TransformationTensor.__pow__",
                          feat={"op": "TransformationTensor.__pow__", "cshape": list(tshape), "exc": type(res).__name__}, nontrivial=True)
                continue
            ok = S_is_coll(res) and coll_shape(res) == tshape
            why = f"result has collection shape {coll_shape(res) if _is_tensor(res) else None}"
            if ok:
                for pos in R.positions(tshape, 6):
                    single = g.Transformation(ms.reshape(tshape + (n, n))[pos]) ** ex
                    if not _tensor_close(np.asarray(res.array[pos]), np.asarray(single.array), True):
                        ok, why = False, f"element {pos} is not the power of the element"
                        break
            ctx.judge("shadow", bool(ok), [ms, list(tshape), int(ex)], what=f"TransformationCollection{tshape} ** {ex}: {why}", op="TransformationTensor.__pow__",
                      feat={"op": "TransformationTensor.__pow__", "cshape": list(tshape)}, nontrivial=True)
    # interior angles of a collection of polygons (planar, 2D and 3D) -- modulo pi, as the single polygons report them
    nv = 3 + i % 3
    polys = []
    for _ in range(k):
        for _t in range(30):
            V = gen.coords(rng, (nv, 2), 6, "int")
            if len({tuple(v) for v in V}) == nv and all(abs(np.linalg.det(np.stack([V[(j + 1) % nv] - V[j], V[(j + 2) % nv] - V[(j + 1) % nv]]))) > 0.5 for j in range(nv)):
                break
        else:
            return
        if dim == 3:
            V = np.concatenate([V, (V[:, :1] + 2 * V[:, 1:2] + 1)], axis=1)
        polys.append(np.concatenate([V, np.ones((nv, 1), dtype=V.dtype)], axis=1).astype(float))
    pc = attempt(lambda: g.PolygonCollection(np.stack(polys)))
    if isinstance(pc, Exception):
        return
    res = attempt(lambda: pc.angles)
    singles = [attempt(lambda j=j: g.Polygon(polys[j]).angles) for j in range(k)]
    if any(isinstance(s, Exception) for s in singles):
        return
    if isinstance(res, Exception):
        ctx.judge("shadow", False, [pc], what=f"PolygonCollection.angles raised {type(res).__name__}: {str(res)[:80]}", op="PolygonTensor.angles",
                  feat={"op": "PolygonTensor.angles", "cshape": [k], "dims": [dim], "exc": type(res).__name__}, nontrivial=True)
        return
    ok = len(res) == nv and all(np.shape(r) == (k,) for r in res) and all(_angle_close(np.array([res[v][j] for v in range(nv)]), np.array(singles[j], dtype=float)) for j in range(k))
    ctx.judge("shadow", bool(ok), [pc], what=f"PolygonCollection.angles: not the angles of the single polygons (got {len(res)} arrays of shape {np.shape(res[0]) if len(res) else None} for {k} polygons of {nv} vertices)",
              op="PolygonTensor.angles", feat={"op": "PolygonTensor.angles", "cshape": [k], "dims": [dim]}, nontrivial=True)


def install(ctx):
    import geometer.base as B
    import geometer.operators as O
    import geometer.point as P
    import geometer.transformation as T

    seen = set()
    stack = [B.Tensor]
    while stack:
        c = stack.pop()
        if c in seen:
            continue
        seen.add(c)
        stack.extend(c.__subclasses__())
        if c.__module__.split(".")[0] != "geometer":
            continue
        for name, raw in list(c.__dict__.items()):
            if name == "__getitem__":
                core.wrap_method(c, name, post_getitem)
                continue
            if name.startswith("_") and name not in ("__add__", "__sub__", "__mul__", "__rmul__", "__eq__", "__neg__", "__truediv__", "__pow__"):
                continue
            if isinstance(raw, (property, types.FunctionType, functools.cached_property)):
                core.wrap_method(c, name, post_shadow)
    for mod, names in ((O, ["crossratio", "harmonic_set", "angle", "angle_bisectors", "dist", "is_cocircular", "is_perpendicular", "is_coplanar"]),
                       (P, ["join", "meet"])):
        for name in names:
            core.wrap_function(mod, name, post_shadow)


def g_tc_on_polytope(ctx, rng, i):
    """A collection of transformations applied to ONE polytope: position k of the result is what the k-th transformation makes of the polytope
    (a single object broadcasts against a collection).  The number of transformations is chosen equal to and different from the number of vertices."""
    import geometer as g

    dim = 2 + (i // 2) % 2
    n = dim + 1
    nv = 2 if i % 2 == 0 else 3
    V = gen.coords(rng, (nv, n), 5, "int").astype(float)
    V[:, -1] = 1
    V[1, 0] += 11
    if nv == 3:
        V[2, 1] += 13
    poly = g.Segment(g.Point(V[0]), g.Point(V[1])) if nv == 2 else g.Triangle(*[g.Point(v) for v in V])
    k = [nv, nv + 1, 1][(i // 4) % 3]
    ms = np.stack([gen.coords(rng, (n, n), 2, "int").astype(float) + 5 * np.eye(n) for _ in range(k)])
    tc = g.TransformationCollection(ms)
    feat = {"op": "tc*polytope", "polytope": type(poly).__name__, "n_transformations": k, "n_vertices": nv}
    try:
        want = np.stack([np.asarray((g.Transformation(m) * poly).array, dtype=float) for m in ms])
        got = np.asarray((tc * poly).array, dtype=float)
    except Exception as e:
        ctx.judge("tc.polytope", False, [ms, V], what=f"TransformationCollection({k}) * {type(poly).__name__} raised {type(e).__name__}: {str(e)[:80]}", op="tc*polytope", feat={**feat, "exc": type(e).__name__})
        return
    ok = got.shape == want.shape and all(X.proj_residual(a, b) <= 1e-9 for a, b in zip(got.reshape(-1, n), want.reshape(-1, n)))
    ctx.judge("tc.polytope", bool(ok), [ms, V], what=f"TransformationCollection({k}) * {type(poly).__name__}: result of shape {got.shape} is not the {k} transformed polytopes (shape {want.shape})",
              op="tc*polytope", feat=feat, nontrivial=True)


_tolerant = core.tolerant

g_indexing, g_catalogue, g_tc_on_polytope = _tolerant(g_indexing), _tolerant(g_catalogue), _tolerant(g_tc_on_polytope)

GROUPS = [
    {"name": "indexing", "fn": g_indexing, "quick": 40, "thorough": 400},
    {"name": "catalogue", "fn": g_catalogue, "quick": 48, "thorough": 480},
    {"name": "constructors", "fn": g_constructors, "quick": 120, "thorough": 1200},
    {"name": "tc_on_polytope", "fn": g_tc_on_polytope, "quick": 96, "thorough": 960},
]


# ---------------------------------------------------------------------------------
# known-finding classifiers
# ---------------------------------------------------------------------------------

def f4_polytope_collection_indexing(rec, feat):
    """Integer indexing / iteration of a polytope collection (SegmentCollection, PolygonCollection) does not yield the element class
    (the Tensor copy-constructor path skips validation and the vertex axes count as free indices)."""
    return rec["monitor"] in ("getitem.element", "iter.element") and bool(feat.get("polytope")) and feat.get("cls") in ("SegmentCollection", "PolygonCollection")


def f26_polygon2d_intersect_collection(rec, feat):
    """intersect between a polygon of the plane and a collection of lines/segments (or a collection of 2D polygons): the edge axis of the
    polygon is aligned with the collection axis, so the call raises a broadcasting error or pairs edge i with element i."""
    if rec["monitor"] != "shadow" or not str(feat.get("op", "")).endswith(".intersect"):
        return False
    cls, dims, coll = feat.get("classes", []), feat.get("dims", []), feat.get("coll", [])
    poly = [k for k, c in enumerate(cls) if c in ("Polygon", "Triangle", "Rectangle", "RegularPolygon", "PolygonCollection")]
    if poly and all(dims[k] == 2 for k in poly) and any(c > 0 for c in coll):
        return True
    # same mechanism one level up: the face axis of a polyhedron against a collection of lines/segments
    return any(c in ("Polyhedron", "Cuboid") for c in cls) and any(c > 0 for c in coll)


def f4_polygon_collection_3d_points(rec, feat):
    """contains / dist between a PolygonCollection in 3D and a point or point collection raises (shape bookkeeping of the coordinate projection)."""
    if rec["monitor"] != "shadow" or " raised " not in rec["what"]:
        return False
    op = str(feat.get("op", ""))
    cls, dims = feat.get("classes", []), feat.get("dims", [])
    return (op.endswith("PolygonTensor.contains") or op.endswith("operators.dist")) and "PolygonCollection" in cls and all(d == 3 for d in dims) \
        and any(c in ("Point", "PointCollection") for c in cls)


def f27_coincident_position_nan(rec, feat):
    """angle / crossratio of a collection in which two of the operands coincide at some (not all) positions: the equality short-cut is
    taken only when every position coincides, otherwise those positions become nan (0/0) while the single-object call returns 0 resp. 1."""
    op = str(feat.get("op", ""))
    return rec["monitor"] == "shadow" and bool(feat.get("nan_vs_finite")) and (op.endswith("angle") or op.endswith("crossratio") or op.endswith("angles") or op.endswith("dist"))


def f28_perpendicular_plane_collection(rec, feat):
    """LineTensor.perpendicular(through, plane=<collection>) for a single line and point: the result buffer is allocated with the
    collection shape of contains(through) only, so a plane collection does not broadcast."""
    cls = feat.get("classes", [])
    return rec["monitor"] == "shadow" and str(feat.get("op", "")).endswith("LineTensor.perpendicular") and len(cls) == 3 and cls[2] == "PlaneCollection" \
        and " raised " in rec["what"]


def f32_transformation_collection_on_single(rec, feat):
    """A TransformationCollection applied to a single (non-collection) object: Tensor.__apply__ returns a copy of the *single* object whose
    array has the collection axes of the transformation, i.e. an instance of Point / Line / Conic ... instead of the collection class.
    (The values and, since 67b25ad, the index positions are right.)"""
    cls, coll = feat.get("classes", []), feat.get("coll", [])
    return rec["monitor"] == "shadow" and feat.get("op") in ("TransformationTensor.apply", "TransformationTensor.__mul__") and len(cls) == 2 \
        and cls[0] == "TransformationCollection" and list(coll[1:]) == [0] and "not a collection of them" in rec["what"]


def f35_transformation_collection_on_single_polytope(rec, feat):
    """A TransformationCollection applied to a single Segment / Polygon: Tensor.__apply__ aligns the collection axis of the transformations with
    the vertex axis of the polytope (a free axis of its array): transformation k is applied to vertex k when the two lengths agree (silently
    wrong), a broadcasting ValueError is raised otherwise.  One transformation (length-1 axis) broadcasts and gives the right values in the wrong shape."""
    return rec["monitor"] == "tc.polytope" and feat.get("op") == "tc*polytope" and feat.get("polytope") in ("Segment", "Triangle", "Polygon", "Rectangle")


CLASSIFIERS = {"f35_transformation_collection_on_single_polytope": f35_transformation_collection_on_single_polytope, "f32_transformation_collection_on_single": f32_transformation_collection_on_single, "f27_coincident_position_nan": f27_coincident_position_nan, "f28_perpendicular_plane_collection": f28_perpendicular_plane_collection,
               "f4_polytope_collection_indexing": f4_polytope_collection_indexing, "f26_polygon2d_intersect_collection": f26_polygon2d_intersect_collection,
               "f4_polygon_collection_3d_points": f4_polygon_collection_3d_points}
