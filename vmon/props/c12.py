"""C12 -- queries are pure: no call changes operands, shared constants or later answers."""
from __future__ import annotations

import hashlib
import traceback
import types

import numpy as np

from .. import catalog, core, gen

RULE = ("histories: for pools of 2D and 3D objects (points, lines, planes, collections, segments, polygons, polyhedra, quadrics, "
        "transformations) the brute-force catalogue of every public property read, method call (arity <= 2, every pool object and some scalars as "
        "arguments) and geometer-level function is executed in seeded random orders, (a) hard mode: every reachable buffer, the module "
        "constants and the epsilon/delta caches are write-protected and a write raises, (b) soft mode: content digests of every pool object "
        "before/after each call, (c) every query is asked again after all other calls and must give the bit-identical answer. In addition a "
        "contract on every public callable of the library (any call depth, also under the repository's tests) compares digests of its tensor "
        "operands before and after the call. Non-trivial = a call that returned normally; distinct by (operation, operand names, pool). Operands in int32 / int16 / int8 / uint8 representation (content, dtype and buffer identity before and after); direction / base_point / isinf of the line at infinity asked repeatedly between unrelated allocations; constructors handed a tensor returned by another call (Transformation(t.transpose()), Tensor(t.T), Point(point)) leave it unchanged and give the same object when asked twice.")
SHARDS = (8, 16)
REQUIRED = ["operand_purity", "sanitizer.hard", "digest.soft", "history.requery", "constants"]
ASSUMPTIONS = ["__setitem__ and attribute assignment are documented mutators and not part of the catalogue", "read-only buffers do not change control flow (cross-checked by soft mode)"]
EXHAUSTIVE = {"quick": [], "thorough": []}


# ---------------------------------------------------------------------------------
# state digests
# ---------------------------------------------------------------------------------

def state_digest(o, depth=0):
    """Digest of everything observable about a tensor: array content, dtype, shape, index sets, flags and the cached
    supporting subspaces (identity of the cached object and its own content)."""
    h = hashlib.blake2b(digest_size=12)
    _feed_state(h, o, depth)
    return h.digest()


def _feed_state(h, o, depth, ids=True):
    if isinstance(o, np.ndarray):
        h.update(str(o.dtype).encode())
        h.update(str(o.shape).encode())
        try:
            h.update(np.ascontiguousarray(o).tobytes())
        except Exception:
            h.update(repr(o).encode())
        return
    d = getattr(o, "__dict__", None)
    if d is None or not hasattr(o, "array"):
        h.update(repr(o).encode()[:100])
        return
    h.update(type(o).__name__.encode())
    for k in sorted(d):
        v = d[k]
        h.update(k.encode())
        if isinstance(v, np.ndarray):
            _feed_state(h, v, depth, ids)
        elif isinstance(v, (set, frozenset)):
            h.update(repr(sorted(v)).encode())
        elif hasattr(v, "__dict__") and hasattr(v, "array") and depth < 3:
            if ids:
                h.update(str(id(v)).encode())
            _feed_state(h, v, depth + 1, ids)
        else:
            h.update(repr(v).encode()[:100])


def _is_tensor(x):
    return hasattr(x, "array") and hasattr(x, "_covariant_indices")


def _operand_objs(call):
    objs = []
    for a in list(call.args) + list(call.kwargs.values()):
        if _is_tensor(a) or isinstance(a, np.ndarray):
            objs.append(a)
        elif isinstance(a, (list, tuple)) and len(a) <= 8:
            for b in a:
                if _is_tensor(b) or isinstance(b, np.ndarray):
                    objs.append(b)
    return objs


MAX_DEPTH = 1  # the contract is evaluated for calls at nesting depth 0 and 1 of monitored callables


def pre_purity(ctx, call):
    if call.depth > MAX_DEPTH:
        return None
    objs = _operand_objs(call)
    return [(o, state_digest(o)) for o in objs]


def post_purity(ctx, call):
    if not call.pre:
        return
    changed = [o for o, d in call.pre if state_digest(o) != d]
    if changed:
        ctx.judge("operand_purity", False, [type(o).__name__ for o in changed] + [call.name], what=f"{call.name} modified its operand(s) {[type(o).__name__ for o in changed]}",
                  op=call.name, feat={"op": call.name}, nontrivial=True)
    else:
        ctx.judge("operand_purity", True, None, op=call.name)
        ctx.note(("purity_ops", call.name))


MUTATORS = {"__init__", "__new__", "__setitem__", "__init_subclass__", "__class_getitem__", "__subclasshook__"}


def install(ctx):
    import geometer
    import geometer.base as B
    import geometer.curve
    import geometer.operators as O
    import geometer.point as P
    import geometer.shapes
    import geometer.transformation as T
    import geometer.utils.math as M

    seen = set()
    stack = [B.Tensor, B.TensorDiagram]
    n = 0
    while stack:
        c = stack.pop()
        if c in seen:
            continue
        seen.add(c)
        stack.extend(c.__subclasses__())
        if c.__module__.split(".")[0] != "geometer":
            continue
        for name, raw in list(c.__dict__.items()):
            if name in MUTATORS:
                continue
            if name.startswith("_") and not (name.startswith("__") and name.endswith("__")):
                continue
            if name in ("__dict__", "__weakref__", "__module__", "__doc__", "__annotations__", "__abstractmethods__", "__orig_bases__", "__parameters__", "__hash__",
                        "__slots__", "__getattribute__", "__repr__", "__array__"):
                continue
            if isinstance(raw, (property, classmethod, staticmethod, types.FunctionType)):
                try:
                    if core.wrap_method(c, name, post_purity, pre=pre_purity):
                        n += 1
                except (TypeError, RuntimeError):
                    pass
    for mod, names in ((O, ["crossratio", "harmonic_set", "angle", "angle_bisectors", "dist", "is_cocircular", "is_perpendicular", "is_coplanar"]),
                       (P, ["join", "meet"]),
                       (T, ["identity", "affine_transform", "rotation", "translation", "scaling", "reflection"]),
                       (M, ["det", "adjugate", "inv", "null_space", "orth", "roots", "is_multiple", "hat_matrix", "matmul", "matvec", "outer"])):
        for name in names:
            try:
                if core.wrap_function(mod, name, post_purity, pre=pre_purity):
                    n += 1
            except RuntimeError:
                pass
    ctx.note(("attach", "wrapped_callables"), n)


# ---------------------------------------------------------------------------------
# pool-level sanitizer, digests and history
# ---------------------------------------------------------------------------------

def _constants():
    import geometer
    from geometer.base import KroneckerDelta, LeviCivitaTensor
    from geometer.curve import absolute_conic

    consts = [("I", geometer.I), ("J", geometer.J), ("infty", geometer.infty), ("infty_plane", geometer.infty_plane), ("absolute_conic", absolute_conic)]
    caches = [(f"epsilon_cache[{k}]", v) for k, v in LeviCivitaTensor._cache.items()] + [(f"delta_cache[{k}]", v) for k, v in KroneckerDelta._cache.items()]
    return consts, caches


def _result_digest(r):
    h = hashlib.blake2b(digest_size=12)
    _feed_result(h, r, 0)
    return h.digest()


def _feed_result(h, r, depth):
    if isinstance(r, np.ndarray) or _is_tensor(r):
        _feed_state(h, r, 0, ids=False)
    elif isinstance(r, (list, tuple)) and depth < 4:
        h.update(b"[")
        for x in r:
            _feed_result(h, x, depth + 1)
        h.update(b"]")
    elif isinstance(r, types.GeneratorType):
        h.update(b"generator")
    else:
        h.update(repr(r).encode()[:200])


def _set_writeable(arrays, flag):
    changed = []
    for a in arrays:
        try:
            if a.flags.writeable != flag:
                a.flags.writeable = flag
                changed.append(a)
        except ValueError:
            pass
    return changed


def _run_spec(spec):
    try:
        return "ok", spec.run()
    except RecursionError as e:
        return "exc", e
    except Exception as e:
        return "exc", e


def _is_readonly_error(e):
    return isinstance(e, ValueError) and ("read-only" in str(e) or "readonly" in str(e))


def g_pool(ctx, rng, i):
    """One pool, three passes over its catalogue: hard sanitizer, soft digests, re-query."""
    from geometer.base import KroneckerDelta, LeviCivitaTensor

    dim = 2 + i % 2
    cshape = [(3,), (2,), (2, 2), (1,)][(i // 2) % 4]
    pool = catalog.build_pool(rng, dim, cshape=cshape)
    # warm the epsilon/delta caches so that they are part of the protected state
    for n in (2, 3, 4):
        LeviCivitaTensor(n)
    KroneckerDelta(3, 2)
    specs = catalog.enumerate_calls(pool, rng, per_method_pairs=6, func_samples=25)
    order = rng.permutation(len(specs))
    consts, caches = _constants()
    ctx.note(("pool", f"dim{dim}:{cshape}"), 1)
    ctx.note(("catalogue_calls", f"dim{dim}"), len(specs))

    # ---- pass 1: soft mode (digests of every pool object and constant before/after each call) + first answers
    objs = [o for _, o in pool] + [o for _, o in consts] + [a for _, a in caches]
    names = [n for n, _ in pool] + [n for n, _ in consts] + [n for n, _ in caches]
    before = [state_digest(o) for o in objs]
    answers = {}
    for k in order:
        spec = specs[k]
        status, res = _run_spec(spec)
        answers[k] = (status, type(res).__name__ if status == "exc" else _result_digest(res))
        after = [state_digest(o) for o in objs]
        if after != before:
            who = [names[j] for j in range(len(objs)) if after[j] != before[j]]
            is_const = [w for w in who if w in dict(consts) or "cache" in w]
            ctx.judge("digest.soft", False, [spec.desc, who], what=f"{spec.desc} changed the state of {who}", op=spec.name,
                      feat={"op": spec.name, "owner": type(spec.owner[1]).__name__ if spec.owner else None, "changed": who}, nontrivial=True)
            if is_const:
                ctx.judge("constants", False, [spec.desc, is_const], what=f"{spec.desc} changed shared constant/cache {is_const}", op=spec.name, nontrivial=True)
            before = after
        else:
            ctx.judge("digest.soft", True, [spec.desc, dim, list(cshape)], op=spec.name, nontrivial=(status == "ok"))
    ctx.judge("constants", True, [f"pool{i}", "soft"], op="constants", nontrivial=True)

    # ---- pass 2: re-ask every query in another order: the answers must be bit-identical
    order2 = rng.permutation(len(specs))
    for k in order2:
        spec = specs[k]
        status, res = _run_spec(spec)
        now = (status, type(res).__name__ if status == "exc" else _result_digest(res))
        ok = now == answers[k]
        ctx.judge("history.requery", ok, [spec.desc, dim, list(cshape)], what=f"{spec.desc}: the answer changed when asked again after other calls ({answers[k][0]} -> {now[0]})",
                  op=spec.name, feat={"op": spec.name}, nontrivial=(status == "ok"))

    # ---- pass 3: hard mode: write-protect everything reachable; a write inside the library raises
    arrays = []
    for o in objs:
        arrays.extend(catalog.reachable_arrays(o) if _is_tensor(o) else [o])
    changed = _set_writeable(arrays, False)
    try:
        for k in order:
            spec = specs[k]
            status, res = _run_spec(spec)
            if status == "exc" and _is_readonly_error(res):
                tb = traceback.extract_tb(res.__traceback__)
                site = next((f"{f.filename.split('/')[-1]}:{f.name}:{f.lineno}" for f in reversed(tb) if "/geometer/" in f.filename), "?")
                ctx.judge("sanitizer.hard", False, [spec.desc, site], what=f"{spec.desc} wrote into a protected buffer at {site}", op=spec.name,
                          feat={"op": spec.name, "site": site.rsplit(':', 1)[0]}, nontrivial=True)
            else:
                ctx.judge("sanitizer.hard", True, [spec.desc, dim, list(cshape)], op=spec.name, nontrivial=(status == "ok"))
    finally:
        _set_writeable(changed, True)


def g_sequences(ctx, rng, i):
    """Targeted histories on shared objects: measure/query sequences on 3D polygon collections, segments, quadrics."""
    import geometer as g

    pa = np.array([[[0, 0, 1, 1], [2, 0, 1, 1], [2, 2, 1, 1], [0, 2, 1, 1]], [[0, 0, 3, 1], [1, 0, 3, 1], [1, 1, 3, 1], [0, 1, 3, 1]]], dtype=float)
    off = gen.coords(rng, (3,), 3, "int")
    pa[..., :3] += off
    pc = g.PolygonCollection(pa)
    q = g.PointCollection(np.array([[1, 1, 1, 1], [0.5, 0.5, 3, 1]]) + np.append(off, 0))
    line = g.Line(g.Point(*(off + [1, 1, -5])), g.Point(*(off + [1, 1, 5])))
    queries = [("contains", lambda: pc.contains(q)), ("area", lambda: pc.area), ("intersect", lambda: [x.array.tolist() for x in pc.intersect(line)]),
               ("vertices", lambda: [v.array.tolist() for v in pc.vertices]), ("edges", lambda: pc.edges.array.tolist()), ("angles", lambda: [a.tolist() for a in pc.angles]),
               ("eq", lambda: pc == pc), ("plane", lambda: pc._plane.array.tolist())]
    first = {}
    for name, f in queries:
        first[name] = repr(f())
    for _ in range(3):
        for k in rng.permutation(len(queries)):
            name, f = queries[k]
            now = repr(f())
            ctx.judge("history.requery", now == first[name], [name, off], what=f"PolygonCollection.{name} changed after other queries", op=name, nontrivial=True)
    # operands in narrow integer representation: a query leaves dtype, buffer and content of its operands as they were
    for dt in (np.int32, np.int16, np.int8, np.uint8):
        dim = 2 + i % 2
        vs = [np.append(gen.coords(rng, (dim,), 6, "int") % (7 if dt is np.uint8 else 99), 1).astype(dt) for _ in range(4)]
        if dt is not np.uint8:
            vs = [v * dt(gen.pick(rng, [1, -1])) for v in vs]
        if np.linalg.matrix_rank(np.stack(vs[: dim + 1]).astype(float)) < dim + 1:
            continue
        P_ = [g.Point(v) for v in vs]
        H_ = [(g.Line if dim == 2 else g.Plane)(v) for v in vs[:3]]
        PC_ = g.PointCollection(np.stack(vs))
        objs_ = P_ + H_ + [PC_]
        steps = [("join", lambda: g.join(P_[0], P_[1])), ("meet", lambda: g.meet(H_[0], H_[1])), ("contains", lambda: H_[0].contains(PC_)), ("join(collection)", lambda: g.join(PC_, P_[3]) if dim == 2 else None),
                 ("apply", lambda: g.translation(*([1] * dim)) * P_[2]), ("eq", lambda: P_[0] == P_[1]), ("is_coplanar", lambda: g.is_coplanar(*P_[: dim + 1])), ("join3", lambda: g.join(*P_[:3]) if dim == 3 else None)]
        for name, f_ in steps:
            before = [(state_digest(o), id(o.array), str(o.dtype)) for o in objs_]
            try:
                f_()
            except Exception:
                pass
            after = [(state_digest(o), id(o.array), str(o.dtype)) for o in objs_]
            bad = [j for j in range(len(objs_)) if before[j] != after[j]]
            ctx.judge("digest.soft", not bad, [name, np.dtype(dt).name, dim], what=f"{name} on {np.dtype(dt).name} operands changed the state (content, dtype or buffer) of operand(s) {bad}: "
                      f"{[(before[j][2], after[j][2]) for j in bad]}", op=name, feat={"op": name, "dtype": np.dtype(dt).name}, nontrivial=True)
    # constructors that take a tensor returned by another call leave that tensor as it was (content, index types, flags)
    from geometer.base import Tensor

    mt = gen.invertible_int_matrix(rng, 3 + i % 2, 3).astype(float)
    t0 = g.Transformation(mt)
    tc0 = g.TransformationCollection(np.stack([mt, mt.T + np.eye(len(mt))]))
    sources = [("Transformation(t.transpose())", t0.transpose(), g.Transformation), ("Transformation(t.T)", t0.T, g.Transformation),
               ("TransformationCollection(tc.transpose())", tc0.transpose(), g.TransformationCollection), ("Transformation(t)", t0, g.Transformation),
               ("Tensor(t.T)", t0.T, Tensor), ("Point(point)", g.Point(*([1.0, 2.0, 3.0][: len(mt) - 1])), g.Point)]
    for name, src_, ctor in sources:
        before = state_digest(src_)
        answers = []
        for rep in range(2):
            try:
                answers.append(repr(np.asarray(ctor(src_).array).tolist()))
            except Exception as e:  # noqa: BLE001
                answers.append("raised " + type(e).__name__)
        after = state_digest(src_)
        ctx.judge("digest.soft", before == after, [name], what=f"{name} changed the state (array / index types) of its argument", op=name, feat={"op": name}, nontrivial=True)
        ctx.judge("history.requery", answers[0] == answers[1], [name], what=f"{name} asked twice gives different objects: {answers[0][:60]} / {answers[1][:60]}", op=name, feat={"op": name}, nontrivial=True)
    # answers that must not depend on what was computed (and freed) before: special lines, asked repeatedly between unrelated allocations
    for spec_line in (g.Line(0, 0, int(rng.integers(1, 5))), g.Line(0.0, 0.0, 2.5), g.LineCollection(np.array([[0, 0, 3], [1, 2, 3], [0, 0, -1]]))):
        firsts = {}
        for rep in range(4):
            junk = [rng.integers(1, 2 ** 40, size=int(s_)).astype(np.int64) for s_ in rng.integers(1, 12, size=8)]
            junkf = [rng.uniform(1, 9, size=int(s_)) for s_ in rng.integers(1, 12, size=8)]
            del junk, junkf
            for name, f_ in (("direction", lambda: spec_line.direction.array.tolist()), ("base_point", lambda: spec_line.base_point.array.tolist()), ("isinf", lambda: np.asarray(spec_line.isinf).tolist())):
                try:
                    now = repr(f_())
                except Exception as e:  # noqa: BLE001
                    now = "raised " + type(e).__name__
                if name in firsts:
                    ctx.judge("history.requery", now == firsts[name], [name, spec_line.array.tolist()], what=f"{name} of a special line changed when asked again: {firsts[name][:60]} -> {now[:60]}",
                              op=name, feat={"op": name}, nontrivial=True)
                else:
                    firsts[name] = now
    cube = g.Cuboid(g.Point(*off), g.Point(*(off + [2, 0, 0])), g.Point(*(off + [0, 3, 0])), g.Point(*(off + [0, 0, 1])))
    qs = [("area", lambda: float(cube.area)), ("faces.area", lambda: cube.faces.area.tolist()), ("intersect", lambda: sorted(str(x.normalized_array.round(9).tolist()) for x in cube.intersect(line))),
          ("edges", lambda: len(cube.edges)), ("vertices", lambda: len(cube.vertices)), ("dist", lambda: float(g.dist(cube, g.Point(*(off + [7, 1, 1])))))]
    first = {n: repr(f()) for n, f in qs}
    for _ in range(2):
        for k in rng.permutation(len(qs)):
            n, f = qs[k]
            ctx.judge("history.requery", repr(f()) == first[n], [n, off, "cuboid"], what=f"Cuboid.{n} changed after other queries", op=n, nontrivial=True)


GROUPS = [
    {"name": "pool", "fn": g_pool, "quick": 8, "thorough": 96},
    {"name": "sequences", "fn": g_sequences, "quick": 40, "thorough": 400},
]
