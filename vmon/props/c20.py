"""C20 -- the numeric kernels agree with exact linear algebra on every code path."""
from __future__ import annotations

import itertools

import numpy as np

from .. import core, gen
from .. import exact as X
from .. import ref as R

RULE = ("configurations: matrix sizes n=2..5 x batch shapes (),(1,),(3,),(63,),(64,),(65,),(2,40),(8,8) x integer/float/complex entries "
        "(regular, singular, rank-deficient), polynomials of degree 1-3 built from chosen roots (simple, double, triple, complex pairs, any "
        "leading coefficient, leading zeros), vector pairs on {-2..2}^n and random with every axis form; plus every kernel call made by the "
        "repository's tests. Each judged batch position is compared with exact rational det/adjugate/rank; non-trivial = matrix or vector "
        "with at least two entries not in {0,1,-1}; distinct by operand digest. A raising is_multiple call is judged for numeric finite arrays that broadcast and a valid axis (axis 0, -2, middle axes and tuples of axes are part of the workload, also with a first operand of fewer dimensions than the second and negative axes as int / tuple / list). roots on integer cubics given by their coefficients, among them nearly depressed ones (3ac - b^2 small against b^2).")
SHARDS = (8, 16)
REQUIRED = ["det", "adjugate", "inv", "null_space", "orth", "roots", "is_multiple", "hat_matrix", "matmul", "outer"]
ASSUMPTIONS = ["Fraction arithmetic exact", "numpy.roots / einsum used as independent references are correct", "LAPACK singular-matrix behaviour not judged",
               "roots: real coefficients (the trigonometric Cardano formulas use np.cbrt); a triple root may be reported once; double roots are accurate to sqrt(eps)"]
EXHAUSTIVE = {"quick": ["all (n, batch shape, dtype) combinations of the configuration table for det/adjugate/inv"],
              "thorough": ["all (n, batch shape, dtype) combinations of the configuration table for det/adjugate/inv",
                           "all ordered pairs of {-2..2}^3 and {-1,0,1}^4 for is_multiple"]}

MAXPOS = 6


def _nontrivial(a):
    a = np.asarray(a)
    return int(np.count_nonzero(~np.isin(a, (0, 1, -1)))) >= 2


def _batch_positions(shape, limit=MAXPOS):
    return R.positions(tuple(shape), limit)


def _hadamard(m):
    """Product of the row norms: natural scale of determinant rounding errors."""
    return float(np.prod(np.maximum(np.linalg.norm(np.asarray(m, dtype=complex), axis=-1), 1e-300)))


def _c(x):
    return complex(x) if isinstance(x, X.GQ) else float(x)


# ---------------------------------------------------------------------------------
# monitors
# ---------------------------------------------------------------------------------

def post_det(ctx, call):
    if call.exc is not None:
        ctx.skip("det", "raised")
        return
    A = np.asarray(call.args[0])
    if A.ndim < 2 or A.shape[-1] != A.shape[-2] or A.size == 0 or not R.finite(A) or A.dtype.kind not in "iufc":
        ctx.skip("det", "not a finite numeric square matrix")
        return
    res = np.asarray(call.result)
    n = A.shape[-1]
    bshape = A.shape[:-2]
    if res.shape != bshape:
        ctx.judge("det", False, [A], what=f"result shape {res.shape} != batch shape {bshape}", op="det")
        return
    if np.abs(A).max() > 1e6:
        ctx.skip("det", "large entries")
        return
    ctx.note(("det_config", f"n{n}:{'x'.join(map(str, bshape)) or 'single'}:{A.dtype.kind}"))
    for pos in _batch_positions(bshape):
        m = A[pos]
        want = _c(X.det(X.mat(m)))
        got = complex(res[pos])
        scale = _hadamard(m)
        ok = abs(got - want) <= 1e-10 * max(scale, 1e-300) + 1e-300
        ctx.judge("det", ok, [m], what=f"det = {got}, exact {want}", op="det", expected=want, observed=got, nontrivial=_nontrivial(m),
                  feat={"n": n, "batch": int(np.prod(bshape, dtype=int)), "kind": A.dtype.kind})


def post_adjugate(ctx, call):
    A = np.asarray(call.args[0])
    if A.ndim < 2 or A.shape[-1] != A.shape[-2] or A.size == 0 or not R.finite(A) or A.dtype.kind not in "iufc":
        ctx.skip("adjugate", "not a finite numeric square matrix")
        return
    if call.exc is not None:
        # the classical adjoint is a polynomial in the entries: it exists for every square matrix, singular ones included
        ctx.judge("adjugate", False, [A], what=f"adjugate raised {type(call.exc).__name__}: {str(call.exc)[:80]}", op="adjugate", nontrivial=True,
                  feat={"n": int(A.shape[-1]), "exc": type(call.exc).__name__})
        return
    res = np.asarray(call.result)
    n = A.shape[-1]
    if res.shape != A.shape:
        ctx.judge("adjugate", False, [A], what=f"result shape {res.shape} != {A.shape}", op="adjugate")
        return
    if np.abs(A).max() > 1e6:
        ctx.skip("adjugate", "large entries")
        return
    ctx.note(("adjugate_config", f"n{n}:{'x'.join(map(str, A.shape[:-2])) or 'single'}:{A.dtype.kind}"))
    for pos in _batch_positions(A.shape[:-2], 4 if n >= 4 else MAXPOS):
        m = A[pos]
        em = X.mat(m)
        want = np.array([[_c(x) for x in r] for r in X.adjugate(em)], dtype=complex)
        got = np.asarray(res[pos], dtype=complex)
        nrm = max(float(np.linalg.norm(np.asarray(m, dtype=complex))), 1e-300)
        scale = nrm ** (n - 1)
        err = float(np.abs(got - want).max())
        ok = err <= 1e-10 * scale
        ctx.judge("adjugate", ok, [m], what=f"adjugate differs from the exact classical adjoint by {err:.3g}", op="adjugate", expected=want, observed=got,
                  nontrivial=_nontrivial(m), feat={"n": n, "batch": int(np.prod(A.shape[:-2], dtype=int)), "kind": A.dtype.kind})


def post_inv(ctx, call):
    A = np.asarray(call.args[0])
    if A.ndim < 2 or A.shape[-1] != A.shape[-2] or A.size == 0 or not R.finite(A) or A.dtype.kind not in "iufc":
        ctx.skip("inv", "not a finite numeric square matrix")
        return
    n = A.shape[-1]
    ctx.note(("inv_config", f"n{n}:{'x'.join(map(str, A.shape[:-2])) or 'single'}:{A.dtype.kind}"))
    Af = A.astype(complex)
    with np.errstate(all="ignore"):
        sv = np.linalg.svd(Af, compute_uv=False)
    with np.errstate(all="ignore"):
        cond = np.where(sv[..., -1] > 0, sv[..., 0] / np.maximum(sv[..., -1], 1e-300), np.inf)  # the zero matrix is singular, not well-conditioned
    if call.exc is not None:
        if np.all(cond < 1e8):
            ctx.judge("inv", False, [A], what=f"inv raised {type(call.exc).__name__} for well-conditioned matrices (cond <= {float(np.max(cond)):.3g})", op="inv")
        else:
            ctx.skip("inv", "raised for a (nearly) singular input: LAPACK's business")
        return
    res = np.asarray(call.result)
    if res.shape != A.shape:
        ctx.judge("inv", False, [A], what=f"result shape {res.shape} != {A.shape}", op="inv")
        return
    for pos in _batch_positions(A.shape[:-2]):
        c = float(cond[pos]) if cond.shape else float(cond)
        if not c < 1e8:
            ctx.skip("inv", "ill-conditioned")
            continue
        m = Af[pos]
        got = np.asarray(res[pos], dtype=complex)
        err = float(np.abs(m @ got - np.eye(n)).max())
        ok = err <= 1e-11 * c + 1e-13
        ctx.judge("inv", ok, [A[pos]], what=f"|A inv(A) - I| = {err:.3g} (cond {c:.3g})", op="inv", observed=got, nontrivial=_nontrivial(A[pos]),
                  feat={"n": n, "batch": int(np.prod(A.shape[:-2], dtype=int))})


def _exact_rank(m):
    return X.rank(X.mat(m))


def _numeric_rank(m):
    s = np.linalg.svd(np.asarray(m, dtype=complex), compute_uv=False)
    if s.size == 0 or s[0] == 0:
        return 0, False
    rel = s / s[0]
    # the library (like numpy.linalg.matrix_rank) counts a singular value as non-zero above max(M, N) * spacing(s_max), i.e. between
    # N eps / 2 and N eps relative: that convention is the definition here; a factor 4 around it is not judged
    thr = max(np.shape(m)[-2:]) * np.finfo(float).eps
    r = int(np.sum(rel > thr))
    amb = bool(np.any((rel > thr / 4) & (rel < 4 * thr)))
    return r, amb


def _rank_of(m):
    if R.is_integral(m, 2 ** 20):
        return _exact_rank(m), False
    return _numeric_rank(m)


def post_null_space(ctx, call):
    A = np.asarray(call.args[0])
    dim = call.kwargs.get("dim", call.args[1] if len(call.args) > 1 else None)
    if A.ndim < 2 or A.size == 0 or not R.finite(A) or A.dtype.kind not in "iufc":
        ctx.skip("null_space", "not a finite numeric matrix")
        return
    M, N = A.shape[-2:]
    if call.exc is not None:
        if isinstance(call.exc, ValueError) and dim is None and A.ndim > 2:
            ctx.skip("null_space", "raised ValueError (batch with differing kernel dimensions is documented)")
        else:
            ctx.judge("null_space", False, [A, dim], what=f"raised {type(call.exc).__name__}: {call.exc}", op="null_space")
        return
    Q = np.asarray(call.result)
    for pos in _batch_positions(A.shape[:-2]):
        m = A[pos]
        r, amb = _rank_of(m)
        if amb:
            ctx.skip("null_space", "ambiguous numerical rank")
            continue
        k = (N - r) if dim is None else int(dim)
        q = Q[pos]
        if q.shape != (N, k):
            ctx.judge("null_space", False, [m, dim], what=f"basis shape {q.shape} != ({N}, {k}) (rank {r})", op="null_space", feat={"dim": dim, "rank": r, "N": N})
            continue
        nrm = max(float(np.linalg.norm(np.asarray(m, dtype=complex))), 1e-300)
        ok = True
        why = ""
        if k > 0:
            qc = q.astype(complex)
            orthonormal = float(np.abs(qc.conj().T @ qc - np.eye(k)).max())
            if orthonormal > 1e-10:
                ok, why = False, f"columns not orthonormal ({orthonormal:.3g})"
            elif k <= N - r:
                resid = float(np.abs(np.asarray(m, dtype=complex) @ qc).max())
                if resid > 1e-10 * nrm:
                    ok, why = False, f"|A N| = {resid:.3g}"
        ctx.judge("null_space", ok, [m, dim], what=why, op="null_space", nontrivial=_nontrivial(m), feat={"dim": dim, "rank": r, "N": N})


def post_orth(ctx, call):
    A = np.asarray(call.args[0])
    dim = call.kwargs.get("dim", call.args[1] if len(call.args) > 1 else None)
    if A.ndim < 2 or A.size == 0 or not R.finite(A) or A.dtype.kind not in "iufc":
        ctx.skip("orth", "not a finite numeric matrix")
        return
    M, N = A.shape[-2:]
    if call.exc is not None:
        if isinstance(call.exc, ValueError) and dim is None and A.ndim > 2:
            ctx.skip("orth", "raised ValueError (batch with differing ranks is documented)")
        else:
            ctx.judge("orth", False, [A, dim], what=f"raised {type(call.exc).__name__}: {call.exc}", op="orth")
        return
    Q = np.asarray(call.result)
    for pos in _batch_positions(A.shape[:-2]):
        m = A[pos]
        r, amb = _rank_of(m)
        if amb:
            ctx.skip("orth", "ambiguous numerical rank")
            continue
        k = r if dim is None else int(dim)
        q = Q[pos]
        if q.shape != (M, min(k, min(M, N))):
            ctx.judge("orth", False, [m, dim], what=f"basis shape {q.shape} != ({M}, {k}) (rank {r})", op="orth", feat={"dim": dim, "rank": r})
            continue
        ok, why = True, ""
        kk = q.shape[1]
        if kk > 0:
            qc = q.astype(complex)
            orthonormal = float(np.abs(qc.conj().T @ qc - np.eye(kk)).max())
            mc = np.asarray(m, dtype=complex)
            nrm = max(float(np.linalg.norm(mc)), 1e-300)
            if orthonormal > 1e-10:
                ok, why = False, f"columns not orthonormal ({orthonormal:.3g})"
            elif kk == r:
                resid = float(np.abs(mc - qc @ (qc.conj().T @ mc)).max())
                if resid > 1e-10 * nrm:
                    ok, why = False, f"range not reproduced: |A - QQ^H A| = {resid:.3g}"
            elif kk < r:
                # the columns must lie in the range
                u, s, vh = np.linalg.svd(mc)
                U = u[:, :r]
                resid = float(np.abs(qc - U @ (U.conj().T @ qc)).max())
                if resid > 1e-8:
                    ok, why = False, f"columns outside the range ({resid:.3g})"
        ctx.judge("orth", ok, [m, dim], what=why, op="orth", nontrivial=_nontrivial(m), feat={"dim": dim, "rank": r})


def post_roots(ctx, call):
    p = np.asarray(call.args[0])
    if p.ndim != 1 or p.dtype.kind not in "iuf" or not R.finite(p) or not (2 <= len(p) <= 4):
        ctx.skip("roots", "outside the closed-form domain (complex coefficients / degree > 3)")
        return
    pf = p.astype(float)
    lead = np.flatnonzero(pf != 0)
    if lead.size == 0 or lead[0] == len(pf) - 1:
        ctx.skip("roots", "constant polynomial")
        return
    eff = pf[lead[0]:]
    deg = len(eff) - 1
    # coefficients spanning too many orders of magnitude make the closed forms (and the reference) unreliable
    nz = np.abs(eff[eff != 0])
    if nz.max() / nz.min() > 1e8:
        ctx.skip("roots", "badly scaled coefficients")
        return
    if call.exc is not None:
        ctx.judge("roots", False, [p], what=f"raised {type(call.exc).__name__}: {call.exc}", op="roots")
        return
    got = np.asarray(call.result, dtype=complex).ravel()
    ref = np.roots(eff).astype(complex)
    scale = max(1.0, float(np.abs(ref).max()))
    # multiplicity structure of the reference decides the attainable accuracy
    sep = min([abs(a - b) for a, b in itertools.combinations(ref, 2)], default=np.inf)
    clustered = sep < 1e-3 * scale
    tol = (2e-4 if deg == 3 else 1e-5) * scale if clustered else 1e-8 * scale
    ok, why = True, ""
    if not np.all(np.isfinite(got)):
        ok, why = False, f"non-finite root returned: {got}"
    elif len(got) > deg or len(got) == 0:
        ok, why = False, f"{len(got)} roots returned for degree {deg}"
    else:
        for r in ref:
            if np.min(np.abs(got - r)) > tol:
                ok, why = False, f"root {r} missing from {got}"
                break
        if ok:
            for g in got:
                if np.min(np.abs(ref - g)) > tol:
                    ok, why = False, f"returned value {g} is not a root (reference {ref})"
                    break
        if ok and not clustered and len(got) != deg:
            ok, why = False, f"{len(got)} values returned for {deg} distinct roots"
    ctx.note(("roots_kind", f"deg{deg}:{'multiple' if clustered else 'simple'}:{'complex' if np.any(np.abs(ref.imag) > 1e-9) else 'real'}"))
    ctx.judge("roots", ok, [p], what=why, op="roots", expected=ref, observed=got, nontrivial=True, feat={"deg": deg, "clustered": bool(clustered)})


def post_is_multiple(ctx, call):
    if call.exc is not None:
        # a raise is judged for numeric, finite, non-empty arrays that broadcast and a valid axis argument
        try:
            a_, b_ = np.broadcast_arrays(np.asarray(call.args[0]), np.asarray(call.args[1]))
            ax_ = call.kwargs.get("axis", call.args[2] if len(call.args) > 2 else None)
            axes = () if ax_ is None else tuple(int(x) for x in ((ax_,) if isinstance(ax_, (int, np.integer)) else ax_))
            valid = a_.dtype.kind in "iufc" and b_.dtype.kind in "iufc" and a_.size > 0 and R.finite(a_) and R.finite(b_) and all(-a_.ndim <= x < a_.ndim for x in axes) \
                and len({x % a_.ndim for x in axes}) == len(axes)
        except Exception:
            valid = False
        if valid:
            ctx.judge("is_multiple", False, [call.args[0], call.args[1], ax_], what=f"is_multiple raised {type(call.exc).__name__}: {str(call.exc)[:100]} (axis={ax_})", op="is_multiple",
                      feat={"exc": type(call.exc).__name__}, nontrivial=True)
        else:
            ctx.skip("is_multiple", "raised")
        return
    a, b = call.args[0], call.args[1]
    kw = dict(call.kwargs)
    names = ["axis", "rtol", "atol"]
    for k, v in zip(names, call.args[2:]):
        kw[k] = v
    axis = kw.get("axis", None)
    rtol, atol = kw.get("rtol", 1e-5), kw.get("atol", 1e-8)
    try:
        a, b = np.broadcast_arrays(np.asarray(a), np.asarray(b))
    except ValueError:
        return
    if a.dtype.kind not in "iufcb" or b.dtype.kind not in "iufcb" or a.size == 0 or not (R.finite(a) and R.finite(b)):
        ctx.skip("is_multiple", "non-numeric / empty / non-finite")
        return
    res = np.asarray(call.result)
    # bring the compared axes to the end
    if axis is None:
        A, B = a.reshape(1, -1), b.reshape(1, -1)
        want_shape = ()
    else:
        ax = (axis,) if isinstance(axis, (int, np.integer)) else tuple(axis)
        ax = tuple(x % a.ndim for x in ax)
        rest = [i for i in range(a.ndim) if i not in ax]
        A = np.transpose(a, rest + list(ax)).reshape(tuple(a.shape[i] for i in rest) + (-1,))
        B = np.transpose(b, rest + list(ax)).reshape(A.shape)
        want_shape = A.shape[:-1]
        A, B = A.reshape(-1, A.shape[-1]), B.reshape(-1, B.shape[-1])
    if res.shape != tuple(want_shape):
        ctx.judge("is_multiple", False, [a, b, axis], what=f"result shape {res.shape} != {tuple(want_shape)}", op="is_multiple")
        return
    flat = res.reshape(-1)
    integral = R.is_integral(A, 1000) and R.is_integral(B, 1000)
    for k in R.positions((A.shape[0],), 24):
        k = k[0]
        u, v = A[k], B[k]
        if integral:
            want = X.is_multiple(X.vec(u), X.vec(v))
            clear = True
        else:
            # floats: only clear cases (exact multiples; clearly independent with entries 0 or >= 1e-3)
            uc, vc = np.asarray(u, dtype=complex), np.asarray(v, dtype=complex)
            small = lambda w: np.any((np.abs(w) > 0) & (np.abs(w) < 1e-3))  # noqa: E731
            if small(uc) or small(vc) or max(np.abs(uc).max(), np.abs(vc).max()) > 1e6:
                clear = False
            else:
                nu, nv = np.linalg.norm(uc), np.linalg.norm(vc)
                if nu == 0 or nv == 0:
                    want, clear = True, True
                else:
                    s = np.vdot(vc, uc) / (nv * nv)
                    dev = float(np.linalg.norm(uc - s * vc) / nu)
                    exactm = X.is_multiple(X.vec(u), X.vec(v)) if (R.is_dyadic(u, 30) and R.is_dyadic(v, 30)) else False
                    if exactm:
                        want, clear = True, True
                    elif dev > 1e-3:
                        want, clear = False, True
                    else:
                        clear = False
        if not clear:
            ctx.skip("is_multiple", "within the tolerance band")
            continue
        if (rtol > 1e-4 or atol > 1e-4) and not want:
            ctx.skip("is_multiple", "loose caller tolerance")
            continue
        got = bool(flat[k])
        ctx.judge("is_multiple", got == want, [u, v], what=f"is_multiple = {got}, exact answer {want} (axis={axis})", op="is_multiple",
                  nontrivial=_nontrivial(np.concatenate([np.ravel(u), np.ravel(v)])), feat={"axis": repr(axis)})
    # symmetry (re-invocation with swapped operands, monitors suspended)
    try:
        sw = np.asarray(call.orig(call.args[1], call.args[0], *call.args[2:], **call.kwargs))
        if integral:
            ctx.judge("is_multiple.sym", bool(np.array_equal(sw, res)), [a, b, axis], what="is_multiple(a,b) != is_multiple(b,a)", op="is_multiple", nontrivial=False)
    except Exception:
        pass


def post_hat(ctx, call):
    if call.exc is not None:
        ctx.skip("hat_matrix", "raised")
        return
    args = call.args
    x = np.asarray(args[0]) if len(args) == 1 else np.asarray(args)
    if x.ndim < 1 or x.size == 0 or x.dtype.kind not in "iufc" or not R.finite(x):
        return
    res = np.asarray(call.result)
    k = x.shape[-1]
    n = int(round((1 + (1 + 8 * k) ** 0.5) / 2))
    if n * (n - 1) // 2 != k:
        ctx.skip("hat_matrix", "length is not a triangular number")
        return
    if res.shape != x.shape[:-1] + (n, n):
        ctx.judge("hat_matrix", False, [x], what=f"shape {res.shape} != {x.shape[:-1] + (n, n)}", op="hat_matrix")
        return
    for pos in _batch_positions(x.shape[:-1]):
        v = x[pos]
        m = res[pos]
        ok = bool(np.array_equal(m, -m.T))
        why = "not skew-symmetric"
        if ok and n == 3:
            a, b, c = v
            want = np.array([[0, c, -b], [-c, 0, a], [b, -a, 0]])
            ok = bool(np.array_equal(m, want))
            why = "layout differs from the documented matrix"
            if ok:
                w = np.array([2, -3, 5])
                ok = bool(np.allclose(m @ w, np.cross(w, v)))
                why = "hat(x) v != cross(v, x)"
        elif ok:
            iu = np.triu_indices(n, 1)
            up = m[iu]
            ok = sorted(map(complex, np.abs(up)), key=lambda z: (z.real, z.imag)) == sorted(map(complex, np.abs(v)), key=lambda z: (z.real, z.imag))
            why = "upper triangle is not a signed arrangement of the arguments"
        ctx.judge("hat_matrix", ok, [v], what=why, op="hat_matrix", observed=m, nontrivial=_nontrivial(v))


def post_matmul(ctx, call):
    if call.exc is not None or call.kwargs.get("out") is not None:
        return
    a, b = np.asarray(call.args[0]), np.asarray(call.args[1])
    names = ["transpose_a", "transpose_b", "adjoint_a", "adjoint_b"]
    kw = {k: False for k in names}
    for k, v in zip(names, call.args[2:]):
        kw[k] = v
    for k in names:
        if k in call.kwargs:
            kw[k] = call.kwargs[k]
    if set(call.kwargs) - set(names) - {"out"}:
        ctx.skip("matmul", "ufunc keyword arguments")
        return
    if a.ndim < 2 or b.ndim < 2 or a.dtype.kind not in "iufcb" or b.dtype.kind not in "iufcb":
        return
    A, B = a, b
    if kw["adjoint_a"]:
        A = np.conj(np.swapaxes(A, -1, -2))
    elif kw["transpose_a"]:
        A = np.swapaxes(A, -1, -2)
    if kw["adjoint_b"]:
        B = np.conj(np.swapaxes(B, -1, -2))
    elif kw["transpose_b"]:
        B = np.swapaxes(B, -1, -2)
    try:
        want = np.einsum("...ij,...jk->...ik", A, B)
    except ValueError:
        return
    res = np.asarray(call.result)
    ok = res.shape == want.shape and np.allclose(res, want, rtol=1e-12, atol=1e-12 * max(1.0, float(np.abs(want).max()) if want.size else 1.0), equal_nan=True)
    ctx.judge("matmul", bool(ok), [a, b, kw], what="matmul differs from the Einstein sum with the requested transposes", op="matmul", nontrivial=_nontrivial(a))


def post_matvec(ctx, call):
    if call.exc is not None or call.kwargs.get("out") is not None:
        return
    a, b = np.asarray(call.args[0]), np.asarray(call.args[1])
    ta = call.kwargs.get("transpose_a", call.args[2] if len(call.args) > 2 else False)
    aa = call.kwargs.get("adjoint_a", call.args[3] if len(call.args) > 3 else False)
    if a.ndim < 2 or b.ndim < 1 or a.dtype.kind not in "iufcb" or b.dtype.kind not in "iufcb":
        return
    A = a
    if aa:
        A = np.conj(np.swapaxes(A, -1, -2))
    elif ta:
        A = np.swapaxes(A, -1, -2)
    try:
        want = np.einsum("...ij,...j->...i", A, b)
    except ValueError:
        return
    res = np.asarray(call.result)
    ok = res.shape == want.shape and np.allclose(res, want, rtol=1e-12, atol=1e-12 * max(1.0, float(np.abs(want).max()) if want.size else 1.0), equal_nan=True)
    ctx.judge("matvec", bool(ok), [a, b], what="matvec differs from the Einstein sum", op="matvec", nontrivial=_nontrivial(a))


def post_outer(ctx, call):
    if call.exc is not None or call.kwargs.get("out") is not None or len(call.args) > 2:
        return
    a, b = np.asarray(call.args[0]), np.asarray(call.args[1])
    if a.ndim < 1 or b.ndim < 1 or a.dtype.kind not in "iufcb" or b.dtype.kind not in "iufcb":
        return
    try:
        want = np.einsum("...i,...j->...ij", a, b)
    except ValueError:
        return
    res = np.asarray(call.result)
    ok = res.shape == want.shape and np.allclose(res, want, rtol=1e-13, atol=0, equal_nan=True)
    ctx.judge("outer", bool(ok), [a, b], what="outer differs from a_i b_j", op="outer", nontrivial=_nontrivial(a))


def install(ctx):
    import geometer.utils.math as M

    for name, post in [("det", post_det), ("adjugate", post_adjugate), ("inv", post_inv), ("null_space", post_null_space), ("orth", post_orth),
                       ("roots", post_roots), ("is_multiple", post_is_multiple), ("hat_matrix", post_hat), ("matmul", post_matmul),
                       ("matvec", post_matvec), ("outer", post_outer)]:
        core.wrap_function(M, name, post)


# ---------------------------------------------------------------------------------
# workload
# ---------------------------------------------------------------------------------

BATCHES = [(), (1,), (3,), (63,), (64,), (65,), (2, 40), (8, 8)]
SIZES = [2, 3, 4, 5]
DTYPES = ["int", "float", "gauss", "cfloat", "dyadic"]
CONFIGS = [(n, b, d) for n in SIZES for b in BATCHES for d in DTYPES]


def U():
    import geometer.utils as u

    return u


def _matrix(rng, n, batch, dtype, variant):
    m = gen.coords(rng, tuple(batch) + (n, n), 5, dtype)
    if variant == 1:
        # singular: last row = combination of the others
        c = gen.coords(rng, tuple(batch) + (n - 1,), 2, "int")
        m[..., -1, :] = np.einsum("...i,...ij->...j", c, m[..., :-1, :])
    elif variant == 2 and n >= 3:
        # rank 1
        u = gen.coords(rng, tuple(batch) + (n,), 3, dtype)
        v = gen.coords(rng, tuple(batch) + (n,), 3, dtype)
        m = u[..., :, None] * v[..., None, :]
    elif variant in (3, 4, 5):
        m = m + 7 * np.eye(n, dtype=m.dtype)  # diagonally dominant-ish: well conditioned
        if variant >= 4 and m.dtype.kind in "fc":
            # the same well-conditioned matrices with small / large entries (determinants of 1e-12 ... 1e12: no formula may mistake
            # a small determinant for a vanishing one)
            m = m * (2.0 ** -10 if variant == 4 else 2.0 ** 7)
    return m


def g_matrices(ctx, rng, i):
    u = U()
    n, batch, dtype = CONFIGS[i % len(CONFIGS)]
    variant = (i // len(CONFIGS)) % 6
    m = _matrix(rng, n, batch, dtype, variant)
    u.det(m)
    try:
        u.adjugate(m)
    except Exception:
        pass  # judged by the monitor: the classical adjoint exists for every square matrix
    try:
        u.inv(m)
    except np.linalg.LinAlgError:
        pass
    if len(batch) <= 1 and (not batch or batch[0] <= 3):
        for f in (u.null_space, u.orth):
            try:
                f(m)
            except ValueError:
                pass


def g_spaces(ctx, rng, i):
    """null_space / orth on rectangular matrices of every rank, with and without the dim hint, single and batch."""
    u = U()
    M, N = [(2, 3), (3, 3), (2, 4), (3, 4), (4, 4), (1, 3), (1, 4), (4, 2), (3, 2), (5, 3)][i % 10]
    dtype = DTYPES[(i // 10) % 4]
    r = int(rng.integers(0, min(M, N) + 1))
    batch = [(), (), (3,), (2, 2)][(i // 40) % 4]
    if r == 0:
        m = np.zeros(batch + (M, N), dtype=int if dtype == "int" else float)
    else:
        a = gen.coords(rng, batch + (M, r), 3, dtype)
        b = gen.coords(rng, batch + (r, N), 3, dtype)
        # make the factors full rank by adding identity blocks
        a[..., :r, :] += 5 * np.eye(r, dtype=a.dtype)
        b[..., :, :r] += 5 * np.eye(r, dtype=b.dtype)
        m = a @ b
    hint = (i // 7) % 3
    for f, d in ((u.null_space, N - r), (u.orth, r)):
        try:
            if hint == 0:
                f(m)
            elif hint == 1:
                f(m, d)
            else:
                f(m, dim=d)
        except ValueError:
            pass
    if hint == 2:
        u.null_space(m, 0) if r == N else None
        u.orth(m, min(1, r))


def _poly_from_roots(rts, lead):
    p = np.array([lead], dtype=complex)
    for r in rts:
        p = np.convolve(p, np.array([1, -r]))
    return p.real if np.all(np.abs(p.imag) < 1e-12) else None


def g_roots(ctx, rng, i):
    u = U()
    kind = i % 12
    lead = float(gen.pick(rng, [1, 2, -3, 0.5, -1, 7]))
    ri = lambda: int(rng.integers(-6, 7))  # noqa: E731
    rf = lambda: float(np.round(rng.uniform(-5, 5), 2))  # noqa: E731
    if kind == 0:
        rts = [ri()]
    elif kind == 1:
        rts = [ri(), ri() + 0.5]
    elif kind == 2:
        r = ri()
        rts = [r, r]  # double root of a quadratic
    elif kind == 3:
        a, b = ri(), abs(ri()) + 1
        rts = [complex(a, b), complex(a, -b)]
    elif kind == 4:
        rts = sorted({ri(), ri() + 0.25, ri() - 0.5})
        if len(rts) < 3:
            rts = [-1, 2, 5]
    elif kind == 5:
        r = ri()
        rts = [r, r, r]  # triple root
    elif kind == 6:
        r, s = ri(), ri()
        if r == s:
            s = r + 3
        rts = [r, r, s]  # double + simple
    elif kind == 7:
        a, b = ri(), abs(ri()) + 1
        rts = [ri(), complex(a, b), complex(a, -b)]
    elif kind == 8:
        rts = [rf(), rf(), rf()]
    elif kind == 9:
        r = rf()
        rts = [r, r, r]  # triple root with inexact coefficients
    elif kind == 10:
        r = rf()
        rts = [r, r, rf()]
    else:
        rts = [0, ri(), ri()]
    p = _poly_from_roots(rts, lead)
    if p is None:
        return
    if kind % 2 == 0 and np.all(p == np.round(p)):
        p = p.astype(int)
    u.roots(p)
    # leading zeros: the same polynomial padded to length 4 / 3
    if len(p) < 4 and i % 3 == 0:
        u.roots(np.concatenate([np.zeros(4 - len(p), dtype=p.dtype), p]))
    # cubics given by their coefficients (pencil determinants of conics look like this), among them nearly "depressed" ones
    # (3ac - b^2 small against b^2: the two cube roots of Cardano's formula differ by orders of magnitude)
    a_ = int(gen.pick(rng, [1, -1, 2, -215, 37, -82]))
    b_ = int(rng.integers(-700, 701))
    near = int(round(b_ * b_ / (3 * a_))) + int(gen.pick(rng, [0, 1, -1, 2, -3, 40]))
    for c_ in (near, int(rng.integers(-700, 701))):
        d_ = int(rng.integers(-300, 301))
        if d_ != 0:
            u.roots(np.array([a_, b_, c_, d_]))
            u.roots(np.array([a_, b_, c_, d_], dtype=float) * 0.5)


LM3 = gen.lattice(3, 2, zero=True)
LM4 = gen.lattice(4, 1, zero=True)


def g_multiple_lattice(ctx, rng, i):
    u = U()
    if i < len(LM3) ** 2:
        a, b = LM3[i // len(LM3)], LM3[i % len(LM3)]
    else:
        j = i - len(LM3) ** 2
        a, b = LM4[(j // len(LM4)) % len(LM4)], LM4[j % len(LM4)]
    u.is_multiple(a, b)
    u.is_multiple(a, b, axis=-1, rtol=1e-15, atol=1e-8)
    u.is_multiple(a.astype(float) * 0.5, b * 3)


def g_multiple_random(ctx, rng, i):
    u = U()
    shape = [(3,), (4,), (5, 3), (2, 3, 4), (2, 2, 3, 3)][i % 5]
    mode = ["int", "float", "gauss", "dyadic"][(i // 5) % 4]
    a = gen.coords(rng, shape, 4, mode)
    b = gen.coords(rng, shape, 4, mode)
    # make some positions multiples
    lam = gen.coords(rng, shape[:-1] + (1,), 3, "int" if mode != "gauss" else "gauss")
    mask = rng.random(shape[:-1] + (1,)) < 0.5
    b = np.where(mask, a * lam, b)
    axis_forms = [None, -1, len(shape) - 1, (-1,), [len(shape) - 1]]
    if len(shape) >= 3:
        axis_forms += [(-2, -1), (len(shape) - 2, len(shape) - 1), 0, (0, -1)]
    if len(shape) == 2:
        axis_forms += [0, -2]
    ax = axis_forms[(i // 20) % len(axis_forms)]
    for call_ in (lambda: u.is_multiple(a, b, axis=ax), lambda: u.is_multiple(a, b, ax, 1e-15, 1e-8),
                  # broadcasting a single vector against a batch
                  lambda: u.is_multiple(a[..., :1, :] if a.ndim > 1 else a, b, axis=-1)):
        try:
            call_()
        except Exception:
            pass  # judged by the monitor
    # an operand with fewer dimensions than the other (one vector / matrix against a batch), negative axes as int, tuple and list, both orders
    if len(shape) >= 2:
        lo = a[(0,) * int(rng.integers(1, len(shape)))]
        for neg in ([-1, (-1,), [-1]] + ([(-2, -1), [-1, -2]] if lo.ndim >= 2 else [])):
            for x, y in ((lo, b), (b, lo)):
                try:
                    u.is_multiple(x, y, axis=neg)
                except Exception:
                    pass  # judged by the monitor


def g_hat_mat(ctx, rng, i):
    u = U()
    k = [3, 3, 6, 1, 10][i % 5]
    shape = [(), (4,), (2, 3)][(i // 5) % 3]
    mode = ["int", "float", "gauss"][(i // 15) % 3]
    x = gen.coords(rng, shape + (k,), 9, mode)
    u.hat_matrix(x)
    if not shape and k == 3:
        u.hat_matrix(*x.tolist())
    a = gen.coords(rng, shape + (3, 4), 5, mode)
    b = gen.coords(rng, shape + (4, 3), 5, mode)
    u.matmul(a, b)
    u.matmul(a, a, transpose_b=True)
    u.matmul(a, a, transpose_a=True)
    u.matmul(a, a, adjoint_b=True)
    u.matmul(b, a, adjoint_a=True, adjoint_b=True)
    v = gen.coords(rng, shape + (4,), 5, mode)
    u.matvec(a, v)
    u.matvec(b, v, transpose_a=True)
    u.matvec(b, v, adjoint_a=True)
    w = gen.coords(rng, shape + (3,), 5, mode)
    u.outer(v, w)
    u.outer(w, w)


GROUPS = [
    {"name": "matrices", "fn": g_matrices, "quick": len(CONFIGS) * 6, "thorough": len(CONFIGS) * 6 * 8},
    {"name": "spaces", "fn": g_spaces, "quick": 480, "thorough": 4800},
    {"name": "roots", "fn": g_roots, "quick": 1200, "thorough": 24000},
    {"name": "multiple_lattice", "fn": g_multiple_lattice, "quick": 125 * 125 // 4, "thorough": 125 * 125 + 81 * 81},
    {"name": "multiple_random", "fn": g_multiple_random, "quick": 720, "thorough": 7200},
    {"name": "hat_mat", "fn": g_hat_mat, "quick": 135, "thorough": 1350},
]
