"""vmon -- runtime monitors for jan-mue/geometer (see /verif/DESIGN.md)."""
import os
import sys

VERIF_DIR = os.path.dirname(os.path.dirname(os.path.abspath(__file__)))
REPO = os.environ.get("VERIF_REPO", "/repo")
DEPS = os.path.join(VERIF_DIR, ".deps")


def setup_paths():
    """Make `import geometer` resolve to the working tree under VERIF_REPO and .deps importable."""
    if REPO not in sys.path:
        sys.path.insert(0, REPO)
    if os.path.isdir(DEPS) and DEPS not in sys.path:
        sys.path.append(DEPS)
    import geometer

    got = os.path.realpath(os.path.dirname(os.path.dirname(geometer.__file__)))
    want = os.path.realpath(REPO)
    if got != want:
        raise RuntimeError(f"geometer imported from {got}, expected {want}")
    return geometer
