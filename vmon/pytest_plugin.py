"""pytest plugin: run the repository's own tests with one property's monitors installed.

Loaded with `-p vmon.pytest_plugin`; configured through VMON_PROP / VMON_TIER / VMON_SEED / VMON_OUT.
Every call the tests make to a monitored callable is judged like any other workload call.
"""
import os

import numpy as np

_ctx = None


def pytest_configure(config):
    global _ctx
    prop = os.environ.get("VMON_PROP")
    if not prop:
        return
    from vmon import core, setup_paths
    from vmon.run import load_findings, load_prop

    setup_paths()
    mod = load_prop(prop)
    _ctx = core.Ctx(prop, os.environ.get("VMON_TIER", "quick"), int(os.environ.get("VMON_SEED", "0")), findings=load_findings(prop, mod))
    core.STATE.ctx = _ctx
    mod.install(_ctx)


def pytest_runtest_setup(item):
    if _ctx is not None:
        _ctx.case = ("repo_tests", item.nodeid)


def pytest_sessionfinish(session, exitstatus):
    if _ctx is None:
        return
    from vmon import core

    core.STATE.ctx = None
    out = os.environ["VMON_OUT"]
    np.save(out + ".dig.npy", np.fromiter(_ctx.digests, dtype=np.uint64, count=len(_ctx.digests)))
    core.dump_json(_ctx.partial(), out)
