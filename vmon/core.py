"""Monitor core: in-place wrapping of the real geometer callables, the run context that collects
verdicts, known-finding matching, replay files and evidence.

A *monitor* is a function `post(ctx, call)` evaluated after every call of a wrapped callable (normal or
exceptional exit); it renders verdicts through `ctx.judge(...)` / `ctx.skip(...)`.  While a monitor runs,
all wrappers are suspended, so oracles may call the library without re-entering monitors.
"""
from __future__ import annotations

import functools
import inspect
import hashlib
import json
import os
import sys
import time
import traceback
import types

import numpy as np

from . import VERIF_DIR


class _State:
    depth = 0  # number of wrapped calls currently on the stack
    suspended = 0  # >0 while an oracle runs
    ctx = None  # current run context
    installed = []  # (owner, name, original) for uninstall


STATE = _State()


class suspended:
    def __enter__(self):
        STATE.suspended += 1

    def __exit__(self, *a):
        STATE.suspended -= 1


class Call:
    __slots__ = ("name", "args", "kwargs", "result", "exc", "depth", "orig", "pre", "self_obj")

    def __init__(self, name, args, kwargs, depth, orig):
        self.name = name
        self.args = args
        self.kwargs = kwargs
        self.result = None
        self.exc = None
        self.depth = depth
        self.orig = orig
        self.pre = None


def _make_wrapper(orig, name, post, pre=None):
    try:
        sig = inspect.signature(orig)
    except (TypeError, ValueError):
        sig = None

    @functools.wraps(orig)
    def wrapper(*args, **kwargs):
        st = STATE
        if st.suspended or st.ctx is None:
            return orig(*args, **kwargs)
        margs, mkwargs = args, kwargs
        if kwargs and sig is not None:
            # the monitors see keyword arguments of positional parameters in their positional slots
            try:
                ba = sig.bind(*args, **kwargs)
                margs, mkwargs = ba.args, ba.kwargs
            except TypeError:
                pass
        call = Call(name, margs, mkwargs, st.depth, orig)
        st.depth += 1
        try:
            if pre is not None:
                st.suspended += 1
                try:
                    call.pre = pre(st.ctx, call)
                except Exception:
                    st.ctx.oracle_error(name + ":pre", traceback.format_exc())
                finally:
                    st.suspended -= 1
            try:
                res = orig(*args, **kwargs)
            except Exception as e:
                call.exc = e
                _run_post(post, call)
                raise
            call.result = res
            _run_post(post, call)
            return res
        finally:
            st.depth -= 1

    wrapper.__vmon_orig__ = orig
    return wrapper


def _run_post(post, call):
    st = STATE
    st.suspended += 1
    try:
        post(st.ctx, call)
    except Exception:
        st.ctx.oracle_error(call.name, traceback.format_exc())
    finally:
        st.suspended -= 1


def _geometer_modules():
    return [m for n, m in list(sys.modules.items()) if (n == "geometer" or n.startswith("geometer.")) and m is not None]


def wrap_function(module, name, post, pre=None, label=None):
    """Wrap module-level function `name` and rebind the wrapper in every geometer module that holds a reference."""
    orig = getattr(module, name, None)
    if orig is None:
        if STATE.ctx is not None:
            STATE.ctx.missing_attach(f"{module.__name__}.{name}")
        return False
    if hasattr(orig, "__vmon_orig__"):
        raise RuntimeError(f"{name} already wrapped")
    w = _make_wrapper(orig, label or f"{module.__name__.split('.')[-1]}.{name}", post, pre)
    for m in _geometer_modules():
        for k, v in list(vars(m).items()):
            if v is orig:
                setattr(m, k, w)
                STATE.installed.append((m, k, orig))
    return True


def wrap_method(cls, name, post, pre=None, label=None):
    """Wrap a method / property / classmethod / staticmethod defined on `cls` (in its own __dict__)."""
    if name not in cls.__dict__:
        if STATE.ctx is not None:
            STATE.ctx.missing_attach(f"{cls.__name__}.{name}")
        return False
    raw = cls.__dict__[name]
    label = label or f"{cls.__name__}.{name}"
    if isinstance(raw, property):
        w = property(_make_wrapper(raw.fget, label, post, pre), raw.fset, raw.fdel, raw.__doc__)
    elif isinstance(raw, classmethod):
        w = classmethod(_make_wrapper(raw.__func__, label, post, pre))
    elif isinstance(raw, staticmethod):
        w = staticmethod(_make_wrapper(raw.__func__, label, post, pre))
    elif isinstance(raw, types.FunctionType):
        w = _make_wrapper(raw, label, post, pre)
    elif isinstance(raw, functools.cached_property):
        # a refactor may turn a property into a cached one: the monitor then sees the computing call only (the stale cached reads are
        # observed through the values the workload reads back), it must never crash on it
        w = functools.cached_property(_make_wrapper(raw.func, label, post, pre))
        w.__set_name__(cls, name)
    else:
        if STATE.ctx is not None:
            STATE.ctx.missing_attach(f"{cls.__name__}.{name} ({type(raw).__name__})")
        return False
    setattr(cls, name, w)
    STATE.installed.append((cls, name, raw))
    return True


def wrap_method_everywhere(base, name, post, pre=None):
    """Wrap `name` on every class in the subclass tree of `base` that defines it itself."""
    n = 0
    seen = set()
    stack = [base]
    while stack:
        c = stack.pop()
        if c in seen:
            continue
        seen.add(c)
        if name in c.__dict__ and not hasattr(_unwrap_raw(c.__dict__[name]), "__vmon_orig__"):
            if wrap_method(c, name, post, pre):
                n += 1
        stack.extend(c.__subclasses__())
    return n


def _unwrap_raw(raw):
    if isinstance(raw, property):
        return raw.fget
    if isinstance(raw, (classmethod, staticmethod)):
        return raw.__func__
    return raw


def uninstall_all():
    for owner, name, orig in reversed(STATE.installed):
        setattr(owner, name, orig)
    STATE.installed.clear()


# ---------------------------------------------------------------------------------
# serialisation of operands for samples / replay files / digests
# ---------------------------------------------------------------------------------

def _arr_json(a):
    a = np.asarray(a)
    if a.dtype.kind == "c":
        return {"dtype": str(a.dtype), "shape": list(a.shape), "re": a.real.tolist(), "im": a.imag.tolist()}
    if a.dtype.kind == "O":
        return {"dtype": "object", "repr": repr(a)[:200]}
    return {"dtype": str(a.dtype), "shape": list(a.shape), "v": a.tolist()}


def describe(x, depth=0):
    """JSON-able description of an operand (tensor, array, scalar, sequence)."""
    try:
        from geometer.base import Tensor
    except Exception:  # pragma: no cover
        Tensor = ()
    if isinstance(x, Tensor):
        d = {"cls": type(x).__name__, "array": _arr_json(x.array)}
        for attr in ("is_dual", "pdim"):
            if attr in x.__dict__:
                d[attr] = x.__dict__[attr]
        cov, con = sorted(x._covariant_indices), sorted(x._contravariant_indices)
        d["idx"] = [cov, con]
        return d
    if isinstance(x, np.ndarray):
        return _arr_json(x)
    if isinstance(x, (np.generic,)):
        return describe(x.item())
    if isinstance(x, complex):
        return {"re": x.real, "im": x.imag}
    if isinstance(x, (bool, int, float, str)) or x is None:
        return x
    if isinstance(x, slice):
        return {"slice": [x.start, x.stop, x.step]}
    if x is Ellipsis:
        return "..."
    if isinstance(x, (list, tuple)) and depth < 4:
        return [describe(y, depth + 1) for y in x]
    if isinstance(x, dict) and depth < 4:
        return {str(k): describe(v, depth + 1) for k, v in x.items()}
    return repr(x)[:200]


def digest(*objs):
    h = hashlib.blake2b(digest_size=8)
    for o in objs:
        _feed(h, o)
    return int.from_bytes(h.digest(), "little")


def _feed(h, o):
    try:
        from geometer.base import Tensor
    except Exception:  # pragma: no cover
        Tensor = ()
    if isinstance(o, Tensor):
        h.update(type(o).__name__.encode())
        _feed(h, o.array)
    elif isinstance(o, np.ndarray):
        h.update(str(o.dtype).encode())
        h.update(str(o.shape).encode())
        h.update(np.ascontiguousarray(o).tobytes())
    elif isinstance(o, (list, tuple)):
        h.update(b"[")
        for y in o:
            _feed(h, y)
        h.update(b"]")
    else:
        h.update(repr(o).encode())


# ---------------------------------------------------------------------------------
# run context
# ---------------------------------------------------------------------------------

MAX_SAMPLES_PER_MONITOR = 3
MAX_VIOLATIONS_KEPT = 40


class Ctx:
    """Collects verdicts for one property during one run (or one shard of a run)."""

    def __init__(self, prop, tier, seed, findings=None, replay_dir=None):
        self.prop = prop
        self.tier = tier
        self.seed = seed
        self.findings = findings or []  # open known findings for this property: dicts with key, classifier(fn)
        self.replay_dir = replay_dir or os.path.join(VERIF_DIR, "replays")
        self.counters = {}  # monitor -> dict(judged=, held=, violated=, skipped={reason: n}, top=, internal=)
        self.digests = set()
        self.samples = {}
        self.violations = []  # unlisted
        self.n_violations = 0
        self.known_hits = {}  # finding key -> count
        self.known_samples = {}
        self.oracle_errors = []
        self.n_oracle_errors = 0
        self.missing = []
        self.case = None  # (group, index) set by the workload runner
        self.extra = {}  # free-form evidence additions (shapes seen, kinds seen, ...)
        self.t0 = time.time()

    # -- bookkeeping ---------------------------------------------------------------
    def _c(self, monitor):
        c = self.counters.get(monitor)
        if c is None:
            c = self.counters[monitor] = {"judged": 0, "held": 0, "violated": 0, "known": 0, "skipped": {}, "top": 0, "internal": 0}
        return c

    def note(self, key, value=1):
        """Count an observation for the evidence (e.g. collection shapes seen)."""
        d = self.extra.setdefault(key[0], {})
        d[key[1]] = d.get(key[1], 0) + value

    def missing_attach(self, what):
        self.missing.append(what)

    def oracle_error(self, where, tb):
        self.n_oracle_errors += 1
        if len(self.oracle_errors) < 5:
            self.oracle_errors.append({"where": where, "case": self.case, "traceback": tb[-1500:]})

    def skip(self, monitor, reason):
        c = self._c(monitor)
        c["skipped"][reason] = c["skipped"].get(reason, 0) + 1

    def judge(self, monitor, ok, operands=None, *, what="", feat=None, nontrivial=True, expected=None, observed=None, op=None):
        """Render one verdict.

        monitor: name of the deciding monitor; ok: bool; operands: objects describing the case (for the digest,
        samples and the replay file); what: short statement of the violated clause; feat: feature dict used by the
        known-finding classifiers; nontrivial: whether the case counts towards distinct_nontrivial.
        """
        c = self._c(monitor)
        c["judged"] += 1
        if STATE.depth > 1:
            c["internal"] += 1
        else:
            c["top"] += 1
        if nontrivial and operands is not None:
            if len(self.digests) < 3_000_000:
                self.digests.add(digest(monitor, operands))
        if ok:
            c["held"] += 1
            s = self.samples.setdefault(monitor, [])
            if len(s) < MAX_SAMPLES_PER_MONITOR and operands is not None:
                s.append({"op": op or monitor, "case": self._case_id(), "operands": describe(operands), "verdict": "held"})
            return True
        # violation: known finding?
        rec = {
            "property": self.prop,
            "monitor": monitor,
            "op": op or monitor,
            "what": what,
            "case": self._case_id(),
            "tier": self.tier,
            "seed": self.seed,
            "operands": describe(operands),
            "expected": describe(expected),
            "observed": describe(observed),
            "feat": describe(feat or {}),
        }
        for f in self.findings:
            try:
                hit = f["classifier"](rec, feat or {})
            except Exception:
                hit = False
            if hit:
                c["known"] += 1
                self.known_hits[f["key"]] = self.known_hits.get(f["key"], 0) + 1
                self.known_samples.setdefault(f["key"], rec)
                return False
        c["violated"] += 1
        self.n_violations += 1
        if len(self.violations) < MAX_VIOLATIONS_KEPT:
            self.violations.append(rec)
        return False

    def _case_id(self):
        if self.case is None:
            return None
        return f"{self.case[0]}#{self.case[1]}"

    # -- results -------------------------------------------------------------------
    def partial(self):
        """Serializable partial result of a shard."""
        return {
            "counters": self.counters,
            "samples": self.samples,
            "violations": self.violations,
            "n_violations": self.n_violations,
            "known_hits": self.known_hits,
            "known_samples": self.known_samples,
            "oracle_errors": self.oracle_errors,
            "n_oracle_errors": self.n_oracle_errors,
            "missing": self.missing,
            "extra": self.extra,
            "n_digests": len(self.digests),
        }


def merge_partials(parts):
    out = {
        "counters": {},
        "samples": {},
        "violations": [],
        "n_violations": 0,
        "known_hits": {},
        "known_samples": {},
        "oracle_errors": [],
        "n_oracle_errors": 0,
        "missing": [],
        "extra": {},
    }
    for p in parts:
        for m, c in p["counters"].items():
            o = out["counters"].setdefault(m, {"judged": 0, "held": 0, "violated": 0, "known": 0, "skipped": {}, "top": 0, "internal": 0})
            for k in ("judged", "held", "violated", "known", "top", "internal"):
                o[k] += c[k]
            for r, n in c["skipped"].items():
                o["skipped"][r] = o["skipped"].get(r, 0) + n
        for m, s in p["samples"].items():
            o = out["samples"].setdefault(m, [])
            for x in s:
                if len(o) < MAX_SAMPLES_PER_MONITOR:
                    o.append(x)
        for v in p["violations"]:
            if len(out["violations"]) < MAX_VIOLATIONS_KEPT:
                out["violations"].append(v)
        out["n_violations"] += p["n_violations"]
        for k, n in p["known_hits"].items():
            out["known_hits"][k] = out["known_hits"].get(k, 0) + n
        for k, r in p["known_samples"].items():
            out["known_samples"].setdefault(k, r)
        out["oracle_errors"].extend(p["oracle_errors"][: max(0, 5 - len(out["oracle_errors"]))])
        out["n_oracle_errors"] += p["n_oracle_errors"]
        for m in p["missing"]:
            if m not in out["missing"]:
                out["missing"].append(m)
        for k, d in p["extra"].items():
            o = out["extra"].setdefault(k, {})
            for kk, n in d.items():
                o[kk] = o.get(kk, 0) + n
    return out


def dump_json(obj, path):
    os.makedirs(os.path.dirname(path), exist_ok=True)
    tmp = path + ".tmp"
    with open(tmp, "w") as f:
        json.dump(obj, f, indent=1, default=lambda o: repr(o)[:200])
    os.replace(tmp, path)


def operand_bytes(ctx, call):
    """pre-hook: the bytes of every array operand of a call (a query / constructor / binary operator never changes its operands)."""
    out = []
    for a in list(call.args) + list(call.kwargs.values()):
        arr = getattr(a, "array", a if isinstance(a, np.ndarray) else None)
        out.append(None if not isinstance(arr, np.ndarray) else (arr, arr.dtype.str, arr.shape, arr.tobytes()))
    return out


def with_operands_unchanged(post, monitor):
    """Wrap a post-monitor: after it, judge under `monitor` that no array operand was changed in place (needs pre=operand_bytes)."""
    def both(ctx, call):
        post(ctx, call)
        for k, rec in enumerate(call.pre or []):
            if rec is None:
                continue
            arr, dt, shape, raw = rec
            if arr.dtype.str != dt or arr.shape != shape or arr.tobytes() != raw:
                ctx.judge(monitor, False, [np.frombuffer(raw, dtype=dt).reshape(shape), arr], what=f"{call.name} changed the array of its operand {k} in place", op=call.name,
                          feat={"op": call.name, "arg": k}, nontrivial=True)
                return
        if call.pre:
            ctx.judge(monitor, True, [], op=call.name, nontrivial=False)

    return both


class GeometrySkip(Exception):
    """raised by workloads to skip a degenerate draw"""


def tolerant(fn):
    """Workload decorator: random draws occasionally produce coincident defining points; constructors then raise a GeometryException
    (LinearDependenceError, NotCoplanar ...).  Calls of monitored operations that raise are judged by the monitors before the exception
    reaches the workload, so the case is simply ended."""
    def run(ctx, rng, i):
        from geometer.exceptions import GeometryException

        try:
            fn(ctx, rng, i)
        except GeometryException:
            ctx.note(("workload", "case ended by a degenerate random draw"))

    run.__name__ = getattr(fn, "__name__", "workload")
    return run
