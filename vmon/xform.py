"""Reference action of a projective transformation on every kind of object (exact for integer data, numeric otherwise).

matrix on covariant indices, inverse matrix on contravariant ones:
  points x -> M x;  hyperplanes h -> M^-T h;  3D lines: dual matrix L -> M^-T L M^-1, primal matrix P -> M P M^T;
  quadrics Q -> M^-T Q M^-1;  dual quadrics -> M Q M^T;  transformations N -> M N;  polytopes vertex-wise.
"""
from __future__ import annotations

import numpy as np

from . import exact as X
from . import ref as R


def _inv(m):
    """Inverse as a float/complex array; exact (rational) when the matrix is integral. Returns (inverse, cond)."""
    m = np.asarray(m)
    if R.is_integral(m, 2 ** 20) and m.dtype.kind != "c":
        em = X.mat(m)
        d = X.det(em)
        if d == 0:
            return None, np.inf
        inv = np.array([[float(x / d) for x in r] for r in X.adjugate(em)])
        return inv, float(np.linalg.cond(m.astype(float)))
    mc = m.astype(complex)
    c = float(np.linalg.cond(mc))
    if not np.isfinite(c) or c > 1e10:
        return None, c
    return np.linalg.inv(mc), c


def act(M, arr, cov, con):
    """Apply matrix M to one element array with the given (relative) covariant / contravariant axes."""
    Mi, cond = _inv(M)
    if Mi is None:
        return None, cond
    out = np.asarray(arr, dtype=complex)
    Mc = np.asarray(M, dtype=complex)
    for ax in cov:
        out = np.moveaxis(np.tensordot(Mc, out, axes=([1], [ax])), 0, ax)
    for ax in con:
        # contravariant index: contract with the inverse, h'_j = h_i (M^-1)_ij
        out = np.moveaxis(np.tensordot(Mi.T, out, axes=([1], [ax])), 0, ax)
    return out, cond


def expected_image(t_elem, obj, pos, cshape):
    """Reference image of the element of `obj` at collection position pos under the matrix t_elem."""
    from .props.c04 import coll_axes, coll_shape

    k = coll_axes(obj)
    cs = coll_shape(obj)
    if cs:
        p = pos[len(cshape) - len(cs):]
        p = tuple(0 if cs[i] == 1 else p[i] for i in range(len(cs)))
        e = np.array(obj.array[p], copy=True)
    else:
        e = np.array(obj.array, copy=True)
    from geometer.transformation import TransformationTensor

    if isinstance(obj, TransformationTensor):
        # transformations compose: (t * n)(x) = t(n(x))
        Mi, cond = _inv(t_elem)
        return (None, cond) if Mi is None else (np.asarray(t_elem, dtype=complex) @ e.astype(complex), cond)
    cov = sorted(i - k for i in obj._covariant_indices)
    con = sorted(i - k for i in obj._contravariant_indices)
    return act(t_elem, e, cov, con)
