"""Seeded generators and enumerable lattices shared by the workloads."""
from __future__ import annotations

import itertools

import numpy as np

_cache = {}


def lattice(n, k, zero=False):
    """All integer vectors in {-k..k}^n (without the zero vector unless zero=True), in a fixed order."""
    key = (n, k, zero)
    if key not in _cache:
        v = [np.array(t, dtype=np.int64) for t in itertools.product(range(-k, k + 1), repeat=n)]
        if not zero:
            v = [x for x in v if x.any()]
        _cache[key] = v
    return _cache[key]


LAMBDAS = [-1.0, -3.0, 0.5, 2.0, 7.0, -0.25, 1e3, 1e-3]
CLAMBDAS = [1j, -1j, 1 + 1j, 2 - 1j, -0.5j]
SHAPES = [(1,), (3,), (2, 2), (1, 3), (5,), (2, 1)]


def ints(rng, shape, hi=9, lo=None):
    lo = -hi if lo is None else lo
    return rng.integers(lo, hi + 1, size=shape).astype(np.int64)


def nonzero_vec(rng, n, hi=9, mode="int"):
    while True:
        v = coords(rng, (n,), hi, mode)
        if np.any(v != 0):
            return v


def coords(rng, shape, hi=9, mode="int"):
    """mode: int | big (|x|<=1000) | dyadic | float | gauss (Gaussian integers) | cfloat"""
    if mode == "int":
        return ints(rng, shape, hi)
    if mode == "big":
        return ints(rng, shape, 1000)
    if mode == "dyadic":
        return ints(rng, shape, 64).astype(float) / 8.0
    if mode == "float":
        return rng.uniform(-hi, hi, size=shape)
    if mode == "gauss":
        return ints(rng, shape, hi).astype(complex) + 1j * ints(rng, shape, hi)
    if mode == "cfloat":
        return rng.uniform(-hi, hi, size=shape) + 1j * rng.uniform(-hi, hi, size=shape)
    raise ValueError(mode)


def pick(rng, seq):
    return seq[int(rng.integers(0, len(seq)))]


def finite_point(rng, dim, hi=9, mode="int", w=None):
    """Homogeneous coordinates of a finite point; last coordinate w (random non-zero, not necessarily 1, if None)."""
    v = coords(rng, (dim,), hi, mode)
    if w is None:
        w = pick(rng, [1, 1, 1, 2, -1, -3])
    if mode in ("float", "cfloat", "dyadic"):
        return np.append(v * w, w).astype(v.dtype if v.dtype.kind in "fc" else float)
    return np.append(v * w, w)


def invertible_int_matrix(rng, n, hi=3, affine=False):
    """Random integer matrix with non-zero determinant (|det| computed exactly via float is safe for n<=5, hi<=3)."""
    while True:
        m = ints(rng, (n, n), hi)
        if affine:
            m[-1, :-1] = 0
            m[-1, -1] = pick(rng, [1, 1, -1, 2])
        d = round(float(np.linalg.det(m)))
        if d != 0:
            return m


def unimodular(rng, n, steps=6):
    m = np.eye(n, dtype=np.int64)
    for _ in range(steps):
        i, j = rng.integers(0, n, size=2)
        if i != j:
            m[i] += int(rng.integers(-2, 3)) * m[j]
    return m
