"""Reference models shared by the monitors: linear subspaces of K^n behind points / lines / planes,
position-wise access to collection operands, exactness and conditioning guards."""
from __future__ import annotations

import numpy as np

from . import exact as X


# ---------------------------------------------------------------------------------
# positions of collection operands
# ---------------------------------------------------------------------------------

def free_shape(t):
    return tuple(t.shape[: t.free_indices])


def broadcast_free(*tensors):
    """Collection shape of the result of a vectorised operation: collection axes aligned from the right."""
    return np.broadcast_shapes(*[free_shape(t) for t in tensors])


def element_array(t, pos, fshape):
    """Array of the element of tensor t at position `pos` of the broadcast collection shape `fshape` (a copy)."""
    fs = free_shape(t)
    if not fs:
        return np.array(t.array, copy=True)
    # align from the right
    p = pos[len(fshape) - len(fs):]
    p = tuple(0 if fs[i] == 1 else p[i] for i in range(len(fs)))
    return np.array(t.array[p], copy=True)


def positions(fshape, limit=48, rng=None):
    """All positions of a collection shape, or a deterministic spread of at most `limit` of them."""
    if not fshape:
        return [()]
    total = int(np.prod(fshape))
    if total == 0:
        return []
    if total <= limit:
        flat = range(total)
    else:
        step = total / limit
        flat = sorted({int(i * step) for i in range(limit)} | {total - 1})
    return [tuple(int(x) for x in np.unravel_index(i, fshape)) for i in flat]


# ---------------------------------------------------------------------------------
# exactness / conditioning
# ---------------------------------------------------------------------------------

def finite(a):
    a = np.asarray(a)
    return bool(np.all(np.isfinite(a)))


def is_integral(a, bound=2 ** 40):
    """All entries are (Gaussian) integers of moderate size -> library tensor arithmetic on them is exact."""
    a = np.asarray(a)
    if a.dtype.kind in "iub":
        return bool(np.all(np.abs(a) <= bound)) if a.size else True
    if a.dtype.kind == "f":
        return bool(np.all(np.isfinite(a)) and np.all(a == np.round(a)) and np.all(np.abs(a) <= bound))
    if a.dtype.kind == "c":
        return is_integral(a.real, bound) and is_integral(a.imag, bound)
    return False


def is_dyadic(a, bits=24, bound=2 ** 24):
    """All entries are multiples of 2^-bits of moderate size."""
    a = np.asarray(a)
    if a.dtype.kind in "iub":
        return True
    if a.dtype.kind == "c":
        return is_dyadic(a.real, bits, bound) and is_dyadic(a.imag, bits, bound)
    if a.dtype.kind != "f" or not np.all(np.isfinite(a)):
        return False
    s = a * float(2 ** bits)
    return bool(np.all(s == np.round(s)) and np.all(np.abs(a) <= bound))


def sv_gap(rows):
    """sigma_min / sigma_max of the row-normalised matrix of float/complex rows (conditioning of independence)."""
    m = np.array([np.asarray(r, dtype=complex).ravel() for r in rows])
    nrm = np.linalg.norm(m, axis=1, keepdims=True)
    if np.any(nrm == 0) or not np.all(np.isfinite(m)):
        return 0.0
    s = np.linalg.svd(m / nrm, compute_uv=False)
    return float(s[-1] / s[0]) if s[0] > 0 else 0.0


# ---------------------------------------------------------------------------------
# the linear subspace behind a projective object (exact)
# ---------------------------------------------------------------------------------

class Sub:
    """Vector subspace of K^n given by an exact basis B (rows) and annihilator A (rows)."""

    __slots__ = ("n", "B", "A")

    def __init__(self, n, B=None, A=None):
        self.n = n
        if B is None:
            B = X.nullspace(A, n) if A else X.identity(n)
        if A is None:
            A = X.nullspace(B, n) if B else X.identity(n)
        self.B = B
        self.A = A

    @property
    def dim(self):
        return len(self.B)


def kind_of(t):
    """'point' | 'hyper' (2D line / 3D plane) | 'line3' | None for a geometer tensor (by its tensor type)."""
    ts = t.tensor_shape
    n = t.shape[-1]
    if ts == (1, 0):
        return "point"
    if ts == (0, 1):
        return "hyper"
    if n == 4 and ts in ((0, 2), (2, 0)):
        return "line3"
    return None


def sub_from_array(kind, arr, tensor_shape=None):
    """Exact subspace of the element array `arr` of the given kind; None if the array does not describe one
    (zero vector, matrix of the wrong rank)."""
    if kind == "point":
        v = X.vec(arr)
        if all(X.is_zero(x) for x in v):
            return None
        return Sub(len(v), B=[v])
    if kind == "hyper":
        v = X.vec(arr)
        if all(X.is_zero(x) for x in v):
            return None
        return Sub(len(v), A=[v])
    if kind == "line3":
        m = X.mat(arr)
        if X.rank(m) != 2:
            return None
        if tensor_shape == (2, 0):
            # primal Pluecker matrix p^q: the line is its column space
            return Sub(4, B=X.rowspace(X.transpose(m)))
        # dual matrix: the line is its null space
        return Sub(4, A=X.rowspace(m))
    raise ValueError(kind)


# ---------------------------------------------------------------------------------
# numeric (floating point) subspace model for operands that are not exactly representable configurations
# ---------------------------------------------------------------------------------

RANK_ZERO = 1e-11  # singular values below this (relative) are rounding noise
RANK_CLEAR = 1e-5  # singular values above this (relative) are clearly non-zero


def num_split(rows):
    """SVD split of the row-normalised matrix: returns (rank, rowspace rows, nullspace rows, ambiguous, gap)
    under the bilinear pairing (rows @ x = 0, no conjugation)."""
    m = np.array([np.asarray(r, dtype=complex).ravel() for r in rows])
    nrm = np.linalg.norm(m, axis=1, keepdims=True)
    if not np.all(np.isfinite(m)) or np.any(nrm == 0):
        return None
    m = m / nrm
    u, s, vh = np.linalg.svd(m, full_matrices=True)
    rel = s / s[0]
    r = int(np.sum(rel > RANK_CLEAR))
    ambiguous = bool(np.any((rel <= RANK_CLEAR) & (rel > RANK_ZERO)))
    gap = float(rel[r - 1])
    return r, vh[:r], vh[r:].conj(), ambiguous, gap


class NSub:
    """Numeric subspace: orthonormal basis rows B and annihilator rows A (complex arrays)."""

    __slots__ = ("n", "B", "A")

    def __init__(self, n, B, A):
        self.n, self.B, self.A = n, list(B), list(A)

    @property
    def dim(self):
        return len(self.B)


def nsub_from_array(kind, arr, tensor_shape=None):
    a = np.asarray(arr, dtype=complex)
    if not np.any(a != 0) or not np.all(np.isfinite(a)):
        return None
    if kind == "point":
        sp = num_split([a])
        return NSub(a.size, [a / np.linalg.norm(a)], sp[2])
    if kind == "hyper":
        sp = num_split([a])
        return NSub(a.size, sp[2], [a / np.linalg.norm(a)])
    if kind == "line3":
        m = a if tensor_shape != (2, 0) else a.T
        u, s, vh = np.linalg.svd(m)
        if s[0] == 0 or s[1] / s[0] < RANK_CLEAR or s[2] / s[0] > 1e-9:
            return None
        if tensor_shape == (2, 0):
            # primal matrix: the line is the column space of a, i.e. the row space of a.T
            return NSub(4, vh[:2], vh[2:].conj())
        return NSub(4, vh[2:].conj(), vh[:2])
    raise ValueError(kind)


def njoin(subs):
    sp = num_split([b for s in subs for b in s.B])
    r, row, null, amb, gap = sp
    return NSub(subs[0].n, row, null), sum(s.dim for s in subs), amb, gap


def nmeet(subs):
    sp = num_split([a for s in subs for a in s.A])
    r, row, null, amb, gap = sp
    return NSub(subs[0].n, null, row), sum(len(s.A) for s in subs), amb, gap


def join_subs(subs):
    n = subs[0].n
    rows = [b for s in subs for b in s.B]
    B = X.rowspace(rows)
    return Sub(n, B=B), sum(s.dim for s in subs)


def meet_subs(subs):
    n = subs[0].n
    rows = [a for s in subs for a in s.A]
    A = X.rowspace(rows)
    return Sub(n, A=A), sum(len(s.A) for s in subs)


def sub_contains(outer, inner):
    """inner subset of outer (exact)."""
    for b in inner.B:
        for a in outer.A:
            if not X.is_zero(X.dot(a, b)):
                return False
    return True


def result_matches_sub(arr, kind, tensor_shape, ref, tol=1e-9):
    """Does the float element array of a result of `kind` describe exactly the reference subspace `ref`
    (up to the projective scale, relative tolerance tol)?  Returns (ok, residual, reason)."""
    a = np.asarray(arr)
    if not np.all(np.isfinite(a)):
        return False, float("inf"), "non-finite result"
    if not np.any(a != 0):
        return False, float("inf"), "zero result"
    if kind == "point":
        if ref.dim != 1:
            return False, float("inf"), f"reference has dimension {ref.dim}, result is a point"
        r = X.proj_residual(a, X.tocomplex(ref.B[0]))
        return r <= tol, r, "point differs from reference"
    if kind == "hyper":
        if len(ref.A) != 1:
            return False, float("inf"), f"reference has codimension {len(ref.A)}, result is a hyperplane"
        r = X.proj_residual(a, X.tocomplex(ref.A[0]))
        return r <= tol, r, "hyperplane differs from reference"
    if kind == "line3":
        if ref.dim != 2:
            return False, float("inf"), f"reference has dimension {ref.dim}, result is a line"
        m = np.asarray(a, dtype=complex)
        nm = np.linalg.norm(m)
        anti = np.linalg.norm(m + m.T) / nm
        if anti > tol:
            return False, float(anti), "line matrix not antisymmetric"
        worst = 0.0
        if tensor_shape == (2, 0):
            vs = [X.tocomplex(v) for v in ref.A]  # planes through the line annihilate the primal matrix
        else:
            vs = [X.tocomplex(v) for v in ref.B]  # points of the line annihilate the dual matrix
        for v in vs:
            worst = max(worst, float(np.linalg.norm(m @ v) / (nm * np.linalg.norm(v))))
        return worst <= tol, worst, "line matrix not incident with the reference points"
    return False, float("inf"), "unknown kind"
