#!/bin/bash
# tools/eval_seeded.sh <worktree> <k> <PROP> [extra props...]  -- verify a sub-agent's seeded defect and run our checks against it
set -u
WT=$1; K=$2; PROP=$3; shift 3; EXTRA="$@"
SRC="$WT/_mutant$K"
[ -f "$SRC/patch.diff" ] || { echo "no patch in $SRC"; exit 3; }
cd "$(dirname "$(readlink -f "$0")")/.."
SCR=$(mktemp -d /tmp/seedeval.XXXXXX)
cp -r /repo "$SCR/clean" && rm -rf "$SCR/clean/.git"; cp -r "$SCR/clean" "$SCR/mut"
if ! (cd "$SCR/mut" && patch -p1 -s < "$SRC/patch.diff"); then echo "PATCH DOES NOT APPLY to current /repo"; rm -rf "$SCR"; exit 3; fi
T=$(cd "$SCR/mut" && /venv/bin/python -m pytest -q -p no:cacheprovider 2>&1 | tail -1)
# the demonstration is run from a copy inside each tree (demos may locate the library relative to their own path)
cp -r "$SRC" "$SCR/mut/_mutant$K"; cp -r "$SRC" "$SCR/clean/_mutant$K"
(cd "$SCR/mut" && PYTHONPATH="$SCR/mut" timeout 300 /venv/bin/python "_mutant$K/demo.py" >/dev/null 2>&1); DM=$?
(cd "$SCR/clean" && PYTHONPATH="$SCR/clean" timeout 300 /venv/bin/python "_mutant$K/demo.py" >/dev/null 2>&1); DC=$?
echo "tests with patch: $T | demo with patch exit=$DM | demo on clean tree exit=$DC"
RES=""
for P in $PROP $EXTRA; do
  OUT=$(VERIF_REPO="$SCR/mut" VMON_EVIDENCE_DIR="$SCR/evidence" VMON_REPLAY_DIR="$SCR/replays" ./check "$P" quick 2>&1); RC=$?
  echo "== $P quick exit=$RC: $(echo "$OUT" | grep -E "^C[0-9]+ quick" | cut -c1-150)"
  echo "$OUT" | grep -A1 "^VIOLATION" | grep "what:" | cut -c1-200 | sort | uniq -c | sort -rn | head -3
  RES="$RES $P:$RC"
done
DST="seeded/$PROP-$K"; mkdir -p "$DST"; cp "$SRC/patch.diff" "$SRC/demo.py" "$DST/"; [ -f "$SRC/notes.md" ] && cp "$SRC/notes.md" "$DST/"
cat > "$DST/meta.json" <<META
{"id": "$PROP-$K", "property": "$PROP", "source": "independent sub-agent given only the property text and a scratch worktree",
 "repo_tests_with_patch": "$T", "demo_exit_with_patch": $DM, "demo_exit_clean": $DC,
 "checks_run": "$(echo $RES | sed 's/^ //')", "ran": "tools/eval_seeded.sh (scratch copy of /repo with the patch; ./check <prop> quick with VERIF_REPO pointing to it)"}
META
rm -rf "$SCR"
