#!/usr/bin/env python3-vt
"""Validates MANIFEST.json and every evidence file against the schemas (needs jsonschema: run with python3-vt)."""
import glob, json, sys
import jsonschema
ok = True
m = json.load(open("MANIFEST.json"))
jsonschema.validate(m, json.load(open("/root/.vp/MANIFEST.schema.json")))
es = json.load(open("/root/.vp/EVIDENCE.schema.json"))
for c in m["checks"]:
    try:
        e = json.load(open(c["evidence_file"]))
        jsonschema.validate(e, es)
        print(c["property_id"], "evidence ok:", e["tier"], e["coverage"]["evaluations"], e["coverage"]["distinct_nontrivial"], e.get("violations"))
    except Exception as ex:
        ok = False
        print(c["property_id"], "EVIDENCE PROBLEM:", str(ex)[:300])
sys.exit(0 if ok else 1)
