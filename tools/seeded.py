#!/venv/bin/python
"""tools/seeded.py eval <id>... | all [--jobs N] [--tier quick]   -- re-evaluate the kept seeded defects under seeded/<id>/

For every seeded defect (patch.diff + demo.py + notes.md written by an independent sub-agent that saw only the property text):
  1. copy /repo's working tree (without .git) to a scratch directory under /tmp, twice (clean / patched);
  2. run the repository's own test suite on the patched copy (must stay green);
  3. run the demonstration on both copies (must fail on the patched one, pass on the clean one);
  4. run ./check <property> <tier> (and the extra properties listed in seeded/extra_checks.json) with VERIF_REPO pointing to the
     patched copy; "caught" means exit code 1 AND a line "VIOLATION property=<id> ..." was printed;
  5. write seeded/<id>/meta.json, remove the scratch directory.
Nothing is ever applied to /repo itself.  `tools/seeded.py table` prints the markdown table used in DESIGN.md.
"""
import concurrent.futures as cf
import json
import os
import re
import shutil
import subprocess
import sys
import tempfile

VERIF = os.path.dirname(os.path.dirname(os.path.abspath(__file__)))
REPO = os.environ.get("VERIF_REPO", "/repo")
SEEDED = os.path.join(VERIF, "seeded")
PY = "/venv/bin/python"


def sh(cmd, cwd=None, env=None, timeout=3600):
    p = subprocess.run(cmd, cwd=cwd, env=env, stdout=subprocess.PIPE, stderr=subprocess.STDOUT, timeout=timeout)
    return p.returncode, p.stdout.decode(errors="replace")


def needs_of(notes):
    title, trig = "", []
    lines = notes.splitlines()
    for ln in lines:
        if ln.startswith("#"):
            title = ln.lstrip("# ").strip()
            break
    on = False
    for ln in lines:
        if re.match(r"^\s*[-*]\s*\**Trigger", ln):
            on = True
            trig.append(re.sub(r"^\s*[-*]\s*", "", ln).strip())
            continue
        if on:
            if not ln.strip() or re.match(r"^[-*#]\s", ln):
                break
            trig.append(ln.strip())
    return title, " ".join(trig)


def evaluate(mid, tier):
    d = os.path.join(SEEDED, mid)
    prop = mid.split("-")[0]
    extra = {}
    p = os.path.join(SEEDED, "extra_checks.json")
    if os.path.exists(p):
        extra = json.load(open(p))
    props = [prop] + extra.get(mid, [])
    scr = tempfile.mkdtemp(prefix="seedeval.", dir="/tmp")
    try:
        for name in ("clean", "mut"):
            shutil.copytree(REPO, os.path.join(scr, name), ignore=shutil.ignore_patterns(".git", "__pycache__", ".pytest_cache", "_mutant*"))
        rc, out = sh(["patch", "-p1", "-s", "-i", os.path.join(d, "patch.diff")], cwd=os.path.join(scr, "mut"))
        if rc != 0:
            return mid, {"error": "patch does not apply to the current /repo: " + out[-300:]}
        env = dict(os.environ)
        env.pop("VERIF_REPO", None)
        rc, out = sh([PY, "-m", "pytest", "-q", "-p", "no:cacheprovider", "--timeout=900"], cwd=os.path.join(scr, "mut"), env=env)
        tests = out.strip().splitlines()[-1] if out.strip() else f"exit {rc}"
        demo = {}
        for name in ("mut", "clean"):
            dd = os.path.join(scr, name, "_seeded_demo")
            os.makedirs(dd)
            shutil.copy(os.path.join(d, "demo.py"), dd)
            e2 = dict(env, PYTHONPATH=os.path.join(scr, name))
            demo[name], _ = sh([PY, os.path.join("_seeded_demo", "demo.py")], cwd=os.path.join(scr, name), env=e2, timeout=600)
        checks = []
        for P in props:
            e3 = dict(os.environ, VERIF_REPO=os.path.join(scr, "mut"), VMON_EVIDENCE_DIR=os.path.join(scr, "evidence"), VMON_REPLAY_DIR=os.path.join(scr, "replays"))
            rc, out = sh([os.path.join(VERIF, "check"), P, tier], cwd=VERIF, env=e3)
            viol = [ln for ln in out.splitlines() if ln.startswith(f"VIOLATION property={P} ")]
            whats = [ln.strip()[6:].split(" (case ")[0][:160] for ln in out.splitlines() if ln.strip().startswith("what:")]
            summ = [ln for ln in out.splitlines() if re.match(rf"^{P} {tier} seed=", ln)]
            m = re.search(r"(\d+) unlisted violations", summ[0]) if summ else None
            checks.append({"property": P, "tier": tier, "exit": rc, "violation_lines": len(viol), "unlisted_violations": int(m.group(1)) if m else None,
                           "caught": bool(rc == 1 and viol), "first_witnesses": sorted(set(whats))[:3]})
        notes = open(os.path.join(d, "notes.md")).read() if os.path.exists(os.path.join(d, "notes.md")) else ""
        title, trig = needs_of(notes)
        meta = {
            "id": mid, "property": prop, "title": title,
            "source": "independent sub-agent that was given only the property text and its own scratch worktree of /repo (nothing from /verif)",
            "needs_to_manifest": trig,
            "repo_tests_with_patch": tests,
            "demo_exit_with_patch": demo["mut"], "demo_exit_clean": demo["clean"],
            "confirmed": bool(" passed" in tests and "failed" not in tests and demo["mut"] != 0 and demo["clean"] == 0),
            "checks": checks,
            "caught_by": [c["property"] for c in checks if c["caught"]],
            "ran": f"tools/seeded.py eval {mid} --tier {tier}: scratch copies of /repo's working tree under /tmp (removed afterwards); pytest on the patched copy; "
                   "demo.py on both copies; ./check <property> with VERIF_REPO=<patched copy>",
        }
        with open(os.path.join(d, "meta.json"), "w") as f:
            json.dump(meta, f, indent=1)
            f.write("\n")
        return mid, meta
    finally:
        shutil.rmtree(scr, ignore_errors=True)


def table():
    rows = ["| id | seeded change | needs | tests | caught by (quick tier) | witness |", "|---|---|---|---|---|---|"]
    for mid in sorted(os.listdir(SEEDED)):
        p = os.path.join(SEEDED, mid, "meta.json")
        if not os.path.exists(p):
            continue
        m = json.load(open(p))
        w = next((c["first_witnesses"][0] for c in m.get("checks", []) if c["caught"] and c["first_witnesses"]), "")
        needs = m.get("needs_to_manifest", "")
        needs = re.sub(r"^\**Trigger[^:]*:\**\s*", "", needs)
        rows.append(f"| {mid} | {m.get('title','')[:110]} | {needs[:230]} | {m.get('repo_tests_with_patch','')[:12]} | "
                    f"{', '.join(c['property'] + ' (' + str(c['unlisted_violations']) + ')' for c in m.get('checks', []) if c['caught']) or '**missed**'} | {w[:120].replace('|', '/')} |")
    print("\n".join(rows))


def main():
    a = sys.argv[1:]
    if not a:
        print(__doc__)
        return 2
    if a[0] == "table":
        table()
        return 0
    jobs, tier, ids = 2, "quick", []
    it = iter(a[1:])
    for x in it:
        if x == "--jobs":
            jobs = int(next(it))
        elif x == "--tier":
            tier = next(it)
        else:
            ids.append(x)
    if ids == ["all"] or not ids:
        ids = sorted(x for x in os.listdir(SEEDED) if os.path.exists(os.path.join(SEEDED, x, "patch.diff")))
    bad = 0
    with cf.ThreadPoolExecutor(jobs) as ex:
        for mid, meta in ex.map(lambda m: evaluate(m, tier), ids):
            if "error" in meta:
                print(f"{mid}: ERROR {meta['error']}")
                bad += 1
                continue
            st = "caught by " + ",".join(meta["caught_by"]) if meta["caught_by"] else "MISSED"
            print(f"{mid}: confirmed={meta['confirmed']} tests='{meta['repo_tests_with_patch']}' demo={meta['demo_exit_with_patch']}/{meta['demo_exit_clean']} {st} "
                  + "; ".join(f"{c['property']}:exit{c['exit']}:{c['unlisted_violations']}" for c in meta["checks"]), flush=True)
            if not meta["caught_by"] or not meta["confirmed"]:
                bad += 1
    return 1 if bad else 0


if __name__ == "__main__":
    sys.exit(main())
