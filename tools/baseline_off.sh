#!/bin/bash
# Runs the repository's pinned test suite with the verification guard OFF.
unset GEOMETER_VERIF
cd "${VERIF_REPO:-/repo}" && exec /venv/bin/python -m pytest -ra -q -p no:cacheprovider --timeout=900 --continue-on-collection-errors "$@"
