#!/bin/bash
# tools/try_mutant.sh <patch.diff> <tier> <PROP> [<PROP> ...]
# Applies a seeded defect to a scratch copy of /repo (outside /repo and /verif), runs the repository's own tests and the given checks
# against the copy (VERIF_REPO), and removes the copy. Evidence and replay files of these runs go to a scratch directory.
set -u
PATCH=$(readlink -f "$1"); TIER=$2; shift 2
SCR=$(mktemp -d /tmp/mutant.XXXXXX)
cp -r /repo "$SCR/repo" && rm -rf "$SCR/repo/.git"
if ! (cd "$SCR/repo" && patch -p1 -s < "$PATCH"); then echo "PATCH DOES NOT APPLY"; rm -rf "$SCR"; exit 3; fi
echo -n "repo tests with the defect: "; (cd "$SCR/repo" && /venv/bin/python -m pytest -q -p no:cacheprovider 2>&1 | tail -1)
cd "$(dirname "$(readlink -f "$0")")/.."
for P in "$@"; do
  OUT=$(VERIF_REPO="$SCR/repo" VMON_EVIDENCE_DIR="$SCR/evidence" VMON_REPLAY_DIR="$SCR/replays" ./check "$P" "$TIER" 2>&1)
  RC=$?
  echo "== $P $TIER exit=$RC: $(echo "$OUT" | grep -E "^C[0-9]+ (quick|thorough)" | cut -c1-160)"
  echo "$OUT" | grep -A1 "^VIOLATION" | grep "what:" | cut -c1-220 | sort | uniq -c | sort -rn | head -4
  echo "$OUT" | grep "^INCONCLUSIVE" | cut -c1-200
done
rm -rf "$SCR"
