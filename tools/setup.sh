#!/bin/bash
# Offline set-up. The framework is pure Python on top of the repository's own interpreter (/venv/bin/python: numpy, pytest);
# nothing has to be built or installed. This script only verifies that geometer imports from the working tree under VERIF_REPO.
cd "$(dirname "$(readlink -f "$0")")/.."
/venv/bin/python -c "import sys; sys.path.insert(0, '$PWD'); import vmon; g = vmon.setup_paths(); print('setup ok: geometer from', g.__file__)"
