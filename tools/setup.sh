#!/bin/bash
# Offline set-up: puts icontract (pure Python) beside the repository's interpreter, under /verif/.deps (git-ignored).
# The checks do not depend on this step succeeding: without icontract the same named conditions are evaluated by
# vmon's own wrappers.
cd "$(dirname "$(readlink -f "$0")")/.."
if [ ! -d .deps/icontract ]; then
  PIP_NO_INDEX=1 /venv/bin/python -m pip install --quiet --no-index --find-links /opt/veriftools/wheels --no-deps \
     --target .deps icontract asttokens six typing_extensions || echo "setup: icontract not installed (optional)"
fi
/venv/bin/python -c "import sys; sys.path.insert(0,'/verif'); import vmon; vmon.setup_paths(); print('setup ok')"
