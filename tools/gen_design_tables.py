#!/venv/bin/python
"""tools/gen_design_tables.py  -- regenerate the appendices of DESIGN.md (between the GENERATED markers) from the machinery itself:
the registry of every check (rule, deciding monitors, workload groups and their sizes, assumptions), the findings tables from
known_findings.json and the seeded-defect table from seeded/*/meta.json."""
import json
import os
import re
import subprocess
import sys

VERIF = os.path.dirname(os.path.dirname(os.path.abspath(__file__)))
sys.path.insert(0, VERIF)
import vmon  # noqa: E402

vmon.setup_paths()
from vmon.run import group_count, load_prop  # noqa: E402


def esc(s):
    return str(s).replace("|", "/").replace("\n", " ")


def registry():
    out = ["## Appendix A — registry of the checks (generated from `vmon/props/*.py`)", ""]
    props = {json.loads(l)["id"]: json.loads(l) for l in open(os.path.join(VERIF, "properties.jsonl"))}
    for i in range(1, 21):
        P = f"C{i:02d}"
        m = load_prop(P)
        out.append(f"### {P} — {props[P]['title']}")
        out.append("")
        out.append(f"* **Rule / workload**: {m.RULE}")
        out.append(f"* **Deciding monitors** (zero verdicts of any of them ⇒ exit 2, inconclusive): {', '.join('`' + x + '`' for x in m.REQUIRED)}")
        out.append("* **Workload groups** (cases quick / thorough): " + "; ".join(f"`{g['name']}` {group_count(g, 'quick')} / {group_count(g, 'thorough')}" for g in m.GROUPS)
                   + f"; worker processes {m.SHARDS[0]} / {m.SHARDS[1]}; plus the repository's 126 tests run under the same monitors" * bool(getattr(m, "REPO_TESTS", True)))
        ex = getattr(m, "EXHAUSTIVE", {})
        if ex.get("quick") or ex.get("thorough"):
            out.append(f"* **Exhaustive sub-runs**: quick: {'; '.join(ex.get('quick') or ['none'])}. thorough: {'; '.join(ex.get('thorough') or ['none'])}.")
        if getattr(m, "ASSUMPTIONS", None):
            out.append(f"* **Assumptions / domain**: {'; '.join(m.ASSUMPTIONS)}")
        ev = os.path.join(VERIF, "evidence", f"{P}.json")
        if os.path.exists(ev):
            e = json.load(open(ev))
            mon = e["coverage"]["monitors"]
            out.append(f"* **Last committed run** ({e['tier']}, seed {e['seed']}): {e['coverage']['evaluations']} verdicts, {e['coverage']['distinct_nontrivial']} distinct non-trivial cases, "
                       f"{e['violations']} unlisted violations, known findings hit {e['coverage']['known_findings_hit'] or '{}'}; verdicts per monitor: "
                       + ", ".join(f"{k} {v['judged']}" for k, v in mon.items()))
        out.append("")
    return out


def findings():
    d = json.load(open(os.path.join(VERIF, "known_findings.json")))["findings"]
    out = ["## Appendix B — findings (generated from `known_findings.json`)", "",
           "### B.1 Defects of jan-mue/geometer repaired in `/repo` (one `fix:` commit each; a fixed entry suppresses nothing)", "",
           "| property | commit | what failed on the pinned tree |", "|---|---|---|"]
    for e in d:
        if e["status"] == "fixed":
            out.append(f"| {e['property']} | `{e['commit']}` | {esc(e['what'])} |")
    out += ["", "### B.2 Open findings (printed as `KNOWN-FINDING:` lines; matched only through the named mechanism classifier)", "",
            "| property | key | classifier (in `vmon/props/`) | what fails | witness |", "|---|---|---|---|---|"]
    for e in d:
        if e["status"] == "open":
            out.append(f"| {e['property']} | {e['key']} | `{e['classifier']}` | {esc(e['what'])} | {esc(e.get('witness', ''))} |")
    out.append("")
    return out


def seeded():
    S = os.path.join(VERIF, "seeded")
    out = ["## Appendix C — seeded defects and the checks that catch them (generated from `seeded/*/meta.json`)", "",
           "Ids `-1`, `-2`: first round of sub-agents; `-3`, `-4`: second round; `-5`, `-6`: third round; `-7`, `-8`: fourth round; `-9`, `-10`: fifth round; `-11`, `-12`: sixth round; `-13`, `-14`: seventh round. `caught by` lists every check that was run against the patched copy and printed a "
           "`VIOLATION` line with exit code 1 (number of unlisted violations in brackets); checks that were run and stayed silent are listed under `silent`.", "",
           "| id | seeded change (sub-agent's title) | what it needs to manifest | repo tests | demo patched/clean | caught by | silent |", "|---|---|---|---|---|---|---|"]
    n = caught = 0
    for mid in sorted(os.listdir(S)):
        p = os.path.join(S, mid, "meta.json")
        if not os.path.exists(p):
            continue
        m = json.load(open(p))
        if "checks" not in m:
            continue
        n += 1
        caught += bool(m["caught_by"])
        needs = re.sub(r"^\**Trigger[^:]*:\**\s*", "", m.get("needs_to_manifest", ""))
        out.append(f"| {mid} | {esc(m.get('title', ''))[:120]} | {esc(needs)[:260]} | {esc(m['repo_tests_with_patch'])[:10]} | {m['demo_exit_with_patch']}/{m['demo_exit_clean']} | "
                   + (", ".join(f"{c['property']} ({c['unlisted_violations']})" for c in m["checks"] if c["caught"]) or "**none**") + " | "
                   + (", ".join(c["property"] + (f" (exit {c['exit']})" if c["exit"] not in (0, 1) else "") for c in m["checks"] if not c["caught"]) or "–") + " |")
    out += ["", f"{caught} of {n} seeded defects are caught by at least one check; every defect is caught by the check of the property it was written against "
            "unless the row says otherwise.", ""]
    return out


def main():
    path = os.path.join(VERIF, "DESIGN.md")
    text = open(path).read()
    begin, end = "<!-- BEGIN GENERATED (tools/gen_design_tables.py) -->", "<!-- END GENERATED -->"
    gen = "\n".join(registry() + findings() + seeded())
    if begin in text and end in text:
        text = text[: text.index(begin) + len(begin)] + "\n\n" + gen + "\n" + text[text.index(end):]
    else:
        text = text.rstrip("\n") + "\n\n" + begin + "\n\n" + gen + "\n" + end + "\n"
    open(path, "w").write(text)
    print("DESIGN.md appendices regenerated:", len(gen.splitlines()), "lines")


if __name__ == "__main__":
    main()
