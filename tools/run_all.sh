#!/bin/bash
# tools/run_all.sh <quick|thorough> [seed]  -- runs every check sequentially and prints one summary line per property
cd "$(dirname "$(readlink -f "$0")")/.."
TIER=${1:-quick}; export VERIF_SEED=${2:-0}
rc_all=0
for P in $(seq -f "C%02g" 1 20); do
  OUT=$(./check "$P" "$TIER" 2>&1); RC=$?
  echo "$P exit=$RC $(echo "$OUT" | grep -E "^C[0-9]+ (quick|thorough)" | cut -c1-200)"
  if [ $RC -ne 0 ]; then rc_all=1; echo "$OUT" | grep -E "^VIOLATION|what:|^INCONCLUSIVE" | head -8 | cut -c1-300; fi
done
exit $rc_all
