#!/venv/bin/python
"""Regenerates /verif/MANIFEST.json from the table below (kept valid against /root/.vp/MANIFEST.schema.json)."""
import json
import os
import subprocess

HERE = os.path.dirname(os.path.dirname(os.path.abspath(__file__)))

TITLES = {}
with open(os.path.join(HERE, "properties.jsonl")) as f:
    for line in f:
        p = json.loads(line)
        TITLES[p["id"]] = p["title"]

# property -> (technique, level text, level note)
CHECKS = {
    "C01": (
        "runtime contract on _join_meet_duality/contains with exact rational span/intersection oracle",
        "Every call of the join/meet dispatcher (workload and library-internal) is judged position by position against the exact rational "
        "span/intersection (floating-point configurations: SVD reference with conditioning guard); lattices {-2..2}^3 and {-1,0,1}^4 are "
        "enumerated pairwise, other arities/kinds/collection shapes are seeded samples. Held = held on the judged executions listed in the evidence.",
        "numpy (einsum, svd) and Fraction arithmetic trusted; wrappers assumed behaviour-preserving; coordinates |x|<=1000, collection rank<=2",
    ),
    "C02": (
        "runtime contract on the exception exits of _join_meet_duality with exact rational dependence/skewness oracle",
        "Every join/meet call with dependence checking is classified exactly (independent / dependent / skew per collection position) and the "
        "raise behaviour and the dependent_values mask are compared; all ordered lattice pairs incl. the zero vector are enumerated, other "
        "degenerate configurations are constructed with random multipliers. Held = held on the judged executions.",
        "exact status needs exactly representable coordinates; float configurations are judged only when clearly (in)dependent",
    ),
    "C05": (
        "recorded add_node/add_edge history replayed by an independent einsum model at calculate(); entry-wise epsilon/delta comparison",
        "Each diagram evaluation (workload programs and all library-internal diagrams of the repo tests) is compared with a reference that "
        "rebuilds the contraction from the boundary history with its own subscript string; epsilon(n<=7/8) and delta(n,p) compared entry by entry (exhaustive).",
        "numpy.einsum string form trusted; self-edges excluded (documented in DESIGN.md)",
    ),
    "C19": (
        "runtime contracts on __getitem__/arithmetic dunders/__array_ufunc__/transpose/expand_dims/copy against numpy semantics and a self-validating structural index model",
        "Every __getitem__ of every tensor class is compared with array[index] and with the index types predicted by a structural model of numpy "
        "indexing (validated per case against numpy's result shape); arithmetic against elementwise numpy / the affine point model; random "
        "expressions and operand pairings are seeded samples. Four index classes are recorded as open known findings (F18-K1,K3,K4,K5).",
        "numpy is the reference semantics; index forms the model does not cover are skipped and counted",
    ),
    "C20": (
        "runtime contracts on det/adjugate/inv/null_space/orth/roots/is_multiple/hat_matrix/matmul/matvec/outer with exact rational oracles",
        "Every kernel call (workload configurations on both sides of each size/batch threshold, and all calls made by the repo tests) is compared "
        "per batch position with exact Fraction determinant/adjugate/rank or an independent numpy reference. Held = held on the judged executions.",
        "LAPACK behaviour on singular inputs not judged; tolerance 1e-10 relative to the Hadamard/Frobenius scale",
    ),
}

NOT_APPLICABLE = []


def fix_commits():
    out = subprocess.run(["git", "-C", os.environ.get("VERIF_REPO", "/repo"), "log", "--format=%h %s"], capture_output=True, text=True).stdout
    return [l for l in out.splitlines() if l.split(" ", 1)[1].startswith("fix:")]


def main():
    checks = []
    for pid in sorted(CHECKS):
        tech, text, note = CHECKS[pid]
        checks.append({
            "property_id": pid,
            "quick_cmd": f"./check {pid} quick",
            "thorough_cmd": f"./check {pid} thorough",
            "evidence_file": f"evidence/{pid}.json",
            "replay_cmd_template": f"./check {pid} --replay {{path}}",
            "engine": "vmon",
            "level_claimed": {"category": "exploration", "text": text, "design_ref": f"DESIGN.md section 3, {pid}"},
            "level_note": note,
            "technique": tech,
        })
    claimed = set(CHECKS)
    na = [x for x in NOT_APPLICABLE if x["property_id"] not in claimed]
    listed = {x["property_id"] for x in na}
    for pid in sorted(TITLES):
        if pid not in claimed and pid not in listed:
            na.append({"property_id": pid, "reason": "check not built yet in this round (runtime monitoring applies; see DESIGN.md section 3)"})
    manifest = {
        "version": 1,
        "setup_cmd": "./tools/setup.sh",
        "hooks": {
            "guard": "GEOMETER_VERIF",
            "enable": "none needed: monitors are attached from outside by wrapping the real callables at run time (vmon.core); no source hooks exist in /repo",
            "baseline_off_cmd": "./tools/baseline_off.sh",
            "source_commits": [],
            "add_only": True,
        },
        "engines": [{
            "name": "vmon",
            "path": "vmon/",
            "serves_properties": sorted(CHECKS),
            "kind_free_text": "runtime monitors (contracts with exact/independent oracles on the real callables, invariants at quiescent points, "
                              "buffer write-protection sanitizer, recorded histories with offline checkers) driven by seeded and exhaustive workloads "
                              "and by the repository's own tests",
        }],
        "checks": checks,
        "not_applicable": na,
        "notes": "All checks run the working tree under VERIF_REPO (default /repo). Exit 0 held / 1 VIOLATION / 2 inconclusive. "
                 "Genuine defects repaired in /repo ('fix:' commits): " + "; ".join(fix_commits()),
    }
    with open(os.path.join(HERE, "MANIFEST.json"), "w") as f:
        json.dump(manifest, f, indent=1)
    import jsonschema  # noqa

    jsonschema.validate(manifest, json.load(open("/root/.vp/MANIFEST.schema.json")))
    print("MANIFEST.json written:", len(checks), "checks,", len(na), "not claimed")


if __name__ == "__main__":
    main()
