#!/venv/bin/python
"""Regenerates /verif/MANIFEST.json from the table below (kept valid against /root/.vp/MANIFEST.schema.json)."""
import json
import os
import subprocess

HERE = os.path.dirname(os.path.dirname(os.path.abspath(__file__)))

TITLES = {}
with open(os.path.join(HERE, "properties.jsonl")) as f:
    for line in f:
        p = json.loads(line)
        TITLES[p["id"]] = p["title"]

# property -> (technique, level text, level note)
CHECKS = {
    "C01": (
        "runtime contract on _join_meet_duality, the public join/meet functions and methods, and contains, with exact rational span/intersection oracle",
        "Every call of the join/meet dispatcher (workload and library-internal) is judged position by position against the exact rational "
        "span/intersection (floating-point configurations: SVD reference with conditioning guard); lattices {-2..2}^3 and {-1,0,1}^4 are "
        "enumerated pairwise, other arities/kinds/collection shapes are seeded samples. Held = held on the judged executions listed in the evidence.",
        "numpy (einsum, svd) and Fraction arithmetic trusted; wrappers assumed behaviour-preserving; coordinates |x|<=1000, collection rank<=2",
    ),
    "C02": (
        "runtime contract on the exception exits of _join_meet_duality and of the public join/meet functions and methods, with exact rational dependence/skewness oracle",
        "Every join/meet call with dependence checking is classified exactly (independent / dependent / skew per collection position) and the "
        "raise behaviour and the dependent_values mask are compared; all ordered lattice pairs incl. the zero vector are enumerated, other "
        "degenerate configurations are constructed with random multipliers. Held = held on the judged executions.",
        "exact status needs exactly representable coordinates; float configurations are judged only when clearly (in)dependent",
    ),
    "C05": (
        "recorded add_node/add_edge history replayed by an independent einsum model at calculate(); entry-wise epsilon/delta comparison",
        "Each diagram evaluation (workload programs and all library-internal diagrams of the repo tests) is compared with a reference that "
        "rebuilds the contraction from the boundary history with its own subscript string; epsilon(n<=7/8) and delta(n,p) compared entry by entry (exhaustive).",
        "numpy.einsum string form trusted; self-edges excluded (documented in DESIGN.md)",
    ),
    "C19": (
        "runtime contracts on __getitem__/arithmetic dunders/__array_ufunc__/transpose/expand_dims/copy against numpy semantics and a self-validating structural index model",
        "Every __getitem__ of every tensor class is compared with array[index] and with the index types predicted by a structural model of numpy "
        "indexing (validated per case against numpy's result shape); arithmetic against elementwise numpy / the affine point model; random "
        "expressions and operand pairings are seeded samples. Four index classes are recorded as open known findings (F18-K1,K3,K4,K5).",
        "numpy is the reference semantics; index forms the model does not cover are skipped and counted",
    ),
    "C20": (
        "runtime contracts on det/adjugate/inv/null_space/orth/roots/is_multiple/hat_matrix/matmul/matvec/outer with exact rational oracles",
        "Every kernel call (workload configurations on both sides of each size/batch threshold, and all calls made by the repo tests) is compared "
        "per batch position with exact Fraction determinant/adjugate/rank or an independent numpy reference. Held = held on the judged executions.",
        "LAPACK behaviour on singular inputs not judged; tolerance 1e-10 relative to the Hadamard/Frobenius scale",
    ),
    "C03": (
        "twin execution monitor on every public geometric operation, constructor and alternative constructor (rescaled representative re-executed and compared) + contract on ==",
        "Every top-level call of a geometric operation is re-executed with each tensor argument replaced by a rescaled representative (per element / "
        "per vertex factors, negative and complex ones) and the results compared with type-driven comparators; == is judged against exact multiples / "
        "clearly different lattice objects. Workload: operation catalogue over 2D/3D pools and the repo tests. Held = held on the judged executions.",
        "moderate |lambda|; rays, coincident operands, arbitrary-representative accessors and tensor-level arithmetic are outside the claimed domain (DESIGN.md)",
    ),
    "C04": (
        "shadow execution monitor: collection calls re-executed on single elements rebuilt from array slices; element-class contract on indexing/iteration",
        "Every top-level call with a collection operand is repeated on up to 12 single-element tuples and compared with the slice of the collection "
        "result; integer indexing and iteration of every collection class are checked for class, values and attributes. The collection result must be a collection class of the single results' class with index sets shifted by the collection axes. Open findings F4, F26, F27, F28, F32 recorded.",
        "collections of different shapes and argument types outside the declared signatures are not in the claimed domain",
    ),
    "C06": (
        "runtime contract on TransformationTensor.apply/inverse/__pow__ against an exact action model; recorded word histories checked offline",
        "Every apply (any depth, also in the repo tests) is compared element-wise with the reference action (exact rational inverse for integer matrices), "
        "including class/pdim and cached supporting line/plane of polytopes; random words over {s,t,s^-1,t^-1} are applied step by step and compared with "
        "the reference product. Held = held on the judged executions.",
        "tolerance scales with the condition number; transformation collections applied to polytopes are outside the domain",
    ),
    "C07": (
        "twin execution with a transformation: op(x) vs op(t x) recorded and compared; contract on _matrix_transform",
        "For random invertible (non-isometric) integer matrices, rotations and translations the commutation of join/meet with t, the preservation of "
        "contains/is_tangent/quadric membership/coplanarity answers and of cross ratios, and vertex-wise polytope images are judged on incident and "
        "non-incident lattice configurations in 2D and 3D.",
        "exact reference for integer matrices; float matrices with condition-scaled tolerance",
    ),
    "C12": (
        "operand-purity contract (state digests before/after) on every public callable + write-protection buffer sanitizer + re-query history checker",
        "Every public callable (depth <= 1, also under the repo tests) is wrapped with a contract comparing digests of its tensor operands; pools are run "
        "through the brute-force catalogue three times: digests of all pool objects, module constants and epsilon/delta caches per call (soft), "
        "re-asking every query after all other calls (history), and with every reachable buffer write-protected (hard).",
        "__setitem__/attribute assignment are documented mutators; catalogue arity <= 2 (functions <= 4 sampled)",
    ),
    "C08": (
        "runtime postconditions on translation/rotation/scaling/reflection/affine_transform/identity/from_points/from_points_and_conics",
        "Every call of a transformation constructor (also from Cone, RegularPolygon, __add__ and the repo tests) is compared with the matrix of its definition "
        "(translation, counter-clockwise rotation, orthogonal det-1 axis rotation with trace 1+2cos a, Householder reflection, frame maps); additivity of "
        "rotations and agreement of reflection with mirror() are judged on seeded parameters.",
        "handedness of 3D rotations not judged; frames must be in exact general position",
    ),
    "C09": (
        "runtime postconditions on dist/angle against Cartesian closed forms, symmetry re-invocation, isometry metamorphic relation",
        "Every call of dist and angle (any depth, repo tests included) is compared per collection position with Cartesian references by kind (point, line, plane, "
        "segment, polygon region, polyhedron surface, parallel subspaces); symmetry is checked by re-invoking with swapped operands; invariance under random isometries.",
        "complex operands, both points at infinity, non-parallel subspace pairs are not judged; angles modulo pi (3D unoriented)",
    ),
    "C10": (
        "runtime postconditions on perpendicular/parallel/project/mirror/is_parallel/base_point/direction/basis_matrix/general_point and the operator predicates",
        "Every call is compared per position with the Cartesian definition (incidence, vanishing dot products, foot, 2*foot-p, orthonormal spanning rows) and, on lattice "
        "inputs, with the exact rational predicate (dot product, circle determinant, rank).",
        "3D line.mirror(p) with p on the line and plane-perpendicular-to-line are documented exclusions",
    ),
    "C11": (
        "runtime postcondition on crossratio/harmonic_set against the exact value over Q(i); offline symmetry and invariance checks on recorded values",
        "Every crossratio call with exactly representable operands is compared with beta1*alpha2/(beta2*alpha1) in the basis (a,b) (points, lines, planes by duality; "
        "3x3 brackets for from_point) and the raise contract (NotCollinear/NotConcurrent <=> exact rank > 2); five symmetry identities and projective invariance on recorded values. "
        "Open finding F29 (planes with axis at infinity).",
        "cross ratios with coincident pairs are degenerate and not judged",
    ),
    "C13": (
        "runtime postconditions on the quadric constructors against reference matrices of the loci",
        "Every constructor call is compared with the unique conic through five points (exact null space), sym(g x h), the tangency discriminant, the confocal ellipse/hyperbola, "
        "textbook matrices of circle/ellipse/sphere/cone/cylinder (all 26 lattice axis directions enumerated), and the read-back properties with parameters and textbook measures.",
        "from_foci with the boundary point on a symmetry axis is not defined; from_tangent may return a degenerate pencil member",
    ),
    "C14": (
        "runtime postconditions on quadric.intersect(line)/tangent/is_tangent/polar/dual with completeness against the restricted quadratic form",
        "Every intersect call is checked for points on both operands and for completeness against the two roots of the quadratic form on the line (sqrt(eps) tolerance at double roots); "
        "tangent/polar against M x, is_tangent against h^T adj(A) h exactly on integer data, dual against the inverse and involution for every class.",
        "complex 3D lines, lines contained in the quadric and near-generator secants are not judged",
    ),
    "C15": (
        "runtime postconditions on components/is_degenerate and Conic.intersect(Conic) with an independent Sylvester-resultant solver",
        "components must satisfy sym(e x f) ~ matrix (unique decomposition) and equal the defining pair for from_lines/from_planes inputs over all lattice sign patterns; rank>=3 quadrics must raise; "
        "conic-conic results are checked for membership and completeness against the resultant quartic (numpy roots) and the points known by construction.",
        "numpy.roots trusted; identical conics / common components not judged",
    ),
    "C16": (
        "runtime postconditions on Segment/Polygon/Triangle.contains against exact rational membership",
        "Every contains call with exactly representable operands is compared with the exact closed-set membership (segments and rays, even-odd boundary-inclusive polygons, exact coplanarity in 3D); "
        "the workload enumerates every lattice query point around every polygon of a zoo under all vertex re-orderings.",
        "float operands are skipped (counted); both endpoints at infinity not judged",
    ),
    "C17": (
        "runtime postconditions on area/centroid/volume/length/midpoint/circumcenter/regular-polygon statistics/polyhedron area and polytope ==",
        "Measures are compared with exact shoelace/Newell/Gram references, == with the exact comparison of vertex cycles up to rotation/reversal (face sets for polyhedra); "
        "all 2n re-orderings and swapped/moved vertices are generated; isometry invariance as metamorphic relation.",
        "collections whose elements would need different rotations are not judged for ==",
    ),
    "C18": (
        "runtime postconditions on Segment/Polygon/Polyhedron.intersect against exact rational intersection sets",
        "Every intersect call with exactly representable single operands is compared as a set (no duplicates, point objects) with the exact reference (segment-segment/line/plane, "
        "boundary hits in 2D, pierce point in 3D, face hits of polyhedra). Open finding F16 (collinear segments sharing an endpoint); F30 (skew segments raised) was repaired in /repo.",
        "operands with infinitely many common points are judged only for duplicates / isolated hits",
    ),
}

NOT_APPLICABLE = []


def fix_commits():
    out = subprocess.run(["git", "-C", os.environ.get("VERIF_REPO", "/repo"), "log", "--format=%h %s"], capture_output=True, text=True).stdout
    return [l for l in out.splitlines() if l.split(" ", 1)[1].startswith("fix:")]


def main():
    checks = []
    for pid in sorted(CHECKS):
        tech, text, note = CHECKS[pid]
        checks.append({
            "property_id": pid,
            "quick_cmd": f"./check {pid} quick",
            "thorough_cmd": f"./check {pid} thorough",
            "evidence_file": f"evidence/{pid}.json",
            "replay_cmd_template": f"./check {pid} --replay {{path}}",
            "engine": "vmon",
            "level_claimed": {"category": "exploration", "text": text, "design_ref": f"DESIGN.md section 3, {pid}"},
            "level_note": note,
            "technique": tech,
        })
    claimed = set(CHECKS)
    na = [x for x in NOT_APPLICABLE if x["property_id"] not in claimed]
    listed = {x["property_id"] for x in na}
    for pid in sorted(TITLES):
        if pid not in claimed and pid not in listed:
            na.append({"property_id": pid, "reason": "check not built yet in this round (runtime monitoring applies; see DESIGN.md section 3)"})
    manifest = {
        "version": 1,
        "setup_cmd": "./tools/setup.sh",
        "hooks": {
            "guard": "GEOMETER_VERIF",
            "enable": "none needed: monitors are attached from outside by wrapping the real callables at run time (vmon.core); no source hooks exist in /repo",
            "baseline_off_cmd": "./tools/baseline_off.sh",
            "source_commits": [],
            "add_only": True,
        },
        "engines": [{
            "name": "vmon",
            "path": "vmon/",
            "serves_properties": sorted(CHECKS),
            "kind_free_text": "runtime monitors (contracts with exact/independent oracles on the real callables, invariants at quiescent points, "
                              "buffer write-protection sanitizer, recorded histories with offline checkers) driven by seeded and exhaustive workloads "
                              "and by the repository's own tests",
        }],
        "checks": checks,
        "not_applicable": na,
        "notes": "All checks run the working tree under VERIF_REPO (default /repo). Exit 0 held / 1 VIOLATION / 2 inconclusive. "
                 "Genuine defects repaired in /repo ('fix:' commits): " + "; ".join(fix_commits()),
    }
    with open(os.path.join(HERE, "MANIFEST.json"), "w") as f:
        json.dump(manifest, f, indent=1)
    import jsonschema  # noqa

    jsonschema.validate(manifest, json.load(open("/root/.vp/MANIFEST.schema.json")))
    print("MANIFEST.json written:", len(checks), "checks,", len(na), "not claimed")


if __name__ == "__main__":
    main()
