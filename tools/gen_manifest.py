#!/venv/bin/python
"""Regenerates /verif/MANIFEST.json from the table below (kept valid against /root/.vp/MANIFEST.schema.json)."""
import json
import os
import subprocess

HERE = os.path.dirname(os.path.dirname(os.path.abspath(__file__)))

TITLES = {}
with open(os.path.join(HERE, "properties.jsonl")) as f:
    for line in f:
        p = json.loads(line)
        TITLES[p["id"]] = p["title"]

# property -> (technique, level text, level note)
CHECKS = {
    "C01": (
        "runtime contract on _join_meet_duality/contains with exact rational span/intersection oracle",
        "Every call of the join/meet dispatcher (workload and library-internal) is judged position by position against the exact rational "
        "span/intersection (floating-point configurations: SVD reference with conditioning guard); lattices {-2..2}^3 and {-1,0,1}^4 are "
        "enumerated pairwise, other arities/kinds/collection shapes are seeded samples. Held = held on the judged executions listed in the evidence.",
        "numpy (einsum, svd) and Fraction arithmetic trusted; wrappers assumed behaviour-preserving; coordinates |x|<=1000, collection rank<=2",
    ),
}

NOT_APPLICABLE = []


def fix_commits():
    out = subprocess.run(["git", "-C", os.environ.get("VERIF_REPO", "/repo"), "log", "--format=%h %s"], capture_output=True, text=True).stdout
    return [l for l in out.splitlines() if l.split(" ", 1)[1].startswith("fix:")]


def main():
    checks = []
    for pid in sorted(CHECKS):
        tech, text, note = CHECKS[pid]
        checks.append({
            "property_id": pid,
            "quick_cmd": f"./check {pid} quick",
            "thorough_cmd": f"./check {pid} thorough",
            "evidence_file": f"evidence/{pid}.json",
            "replay_cmd_template": f"./check {pid} --replay {{path}}",
            "engine": "vmon",
            "level_claimed": {"category": "exploration", "text": text, "design_ref": f"DESIGN.md section 3, {pid}"},
            "level_note": note,
            "technique": tech,
        })
    claimed = set(CHECKS)
    na = [x for x in NOT_APPLICABLE if x["property_id"] not in claimed]
    listed = {x["property_id"] for x in na}
    for pid in sorted(TITLES):
        if pid not in claimed and pid not in listed:
            na.append({"property_id": pid, "reason": "check not built yet in this round (runtime monitoring applies; see DESIGN.md section 3)"})
    manifest = {
        "version": 1,
        "setup_cmd": "./tools/setup.sh",
        "hooks": {
            "guard": "GEOMETER_VERIF",
            "enable": "none needed: monitors are attached from outside by wrapping the real callables at run time (vmon.core); no source hooks exist in /repo",
            "baseline_off_cmd": "./tools/baseline_off.sh",
            "source_commits": [],
            "add_only": True,
        },
        "engines": [{
            "name": "vmon",
            "path": "vmon/",
            "serves_properties": sorted(CHECKS),
            "kind_free_text": "runtime monitors (contracts with exact/independent oracles on the real callables, invariants at quiescent points, "
                              "buffer write-protection sanitizer, recorded histories with offline checkers) driven by seeded and exhaustive workloads "
                              "and by the repository's own tests",
        }],
        "checks": checks,
        "not_applicable": na,
        "notes": "All checks run the working tree under VERIF_REPO (default /repo). Exit 0 held / 1 VIOLATION / 2 inconclusive. "
                 "Genuine defects repaired in /repo ('fix:' commits): " + "; ".join(fix_commits()),
    }
    with open(os.path.join(HERE, "MANIFEST.json"), "w") as f:
        json.dump(manifest, f, indent=1)
    import jsonschema  # noqa

    jsonschema.validate(manifest, json.load(open("/root/.vp/MANIFEST.schema.json")))
    print("MANIFEST.json written:", len(checks), "checks,", len(na), "not claimed")


if __name__ == "__main__":
    main()
