#!/venv/bin/python
"""Development helper: run a property's workload in-process and group the violations (tools/triage.py C19 [stride])."""
import collections, json, os, re, sys
sys.path.insert(0, os.path.dirname(os.path.dirname(os.path.abspath(__file__))))
import vmon
vmon.setup_paths()
from vmon import core
from vmon.run import load_prop, load_findings, run_cases
core.MAX_VIOLATIONS_KEPT = 100000
prop = sys.argv[1].upper(); stride = int(sys.argv[2]) if len(sys.argv) > 2 else 4
mod = load_prop(prop)
ctx = core.Ctx(prop, "quick", int(os.environ.get("VERIF_SEED", "0")), findings=load_findings(prop, mod))
core.STATE.ctx = ctx
mod.install(ctx)
run_cases(ctx, mod, "quick", ctx.seed, 0, stride)
core.STATE.ctx = None
groups = collections.Counter(); ex = {}
for v in ctx.violations:
    w = re.sub(r"[-+]?\d+\.?\d*(e[-+]?\d+)?", "#", v["what"])[:150]
    key = (v["monitor"], w, json.dumps({k: v["feat"].get(k) for k in sorted(v["feat"]) if k not in ("level",)}, default=str)[:200])
    groups[key] += 1; ex.setdefault(key, v)
for k, n in groups.most_common(60):
    print(n, k[0], "|", k[1], "|", k[2]); print("     e.g.", ex[k]["case"], json.dumps(ex[k]["operands"], default=str)[:300])
json.dump(ctx.violations, open("/tmp/triage.json", "w"), default=str)
print("violations", ctx.n_violations, "known", ctx.known_hits, "oracle errors", ctx.n_oracle_errors)
for e in ctx.oracle_errors[:3]: print(e["where"], e["case"]); print(e["traceback"])
for m, c in ctx.counters.items(): print(m, {k: c[k] for k in ("judged", "held", "violated", "known")}, c["skipped"])
